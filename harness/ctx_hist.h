/* Shared by api_ctx.c (C09) and api_yl.c (C19): the history interpreter over the public API.  See api_ctx.c for the
 * script format and the reply tokens. */
#ifndef VERIF_CTX_HIST_H
#define VERIF_CTX_HIST_H
#define _GNU_SOURCE
#include <unistd.h>
#include "libyang.h"
#include "proto.h"

#ifdef __has_feature
# if __has_feature(address_sanitizer)
void __lsan_disable(void);
void __lsan_enable(void);
#  define LSAN_OFF() __lsan_disable()
#  define LSAN_ON() __lsan_enable()
# endif
#endif
#ifndef LSAN_OFF
# define LSAN_OFF()
# define LSAN_ON()
#endif

#define MAXSRC 32
#define MAXDATA 8
#define MAXCLS 256

struct src { char *name, *rev, *text; int sub; };
static struct src srcs[MAXSRC];
static int nsrc;

struct cls { char *key; char *text; int idx; };
static struct cls clss[MAXCLS];
static int ncls;

struct dat { struct lyd_node *tree; const struct lysc_node *snode; char *mod; int live; };
static struct dat dats[MAXDATA];
static int ndat;

static char *obuf;
static size_t olen, ocap;

static void
oput(const char *fmt, ...)
{
    va_list ap;
    int n;

    for (;;) {
        if (!obuf) {
            ocap = 1 << 16;
            obuf = malloc(ocap);
            obuf[0] = 0;
        }
        va_start(ap, fmt);
        n = vsnprintf(obuf + olen, ocap - olen, fmt, ap);
        va_end(ap);
        if (n >= 0 && (size_t)n < ocap - olen) { olen += n; return; }
        ocap *= 2;
        obuf = realloc(obuf, ocap);
    }
}

static const char *
revcmp_key(const char *r) { return r ? r : ""; }

/* import callback: exact revision, or the newest one of that name */
static LY_ERR
imp_clb(const char *mod_name, const char *mod_rev, const char *submod_name, const char *submod_rev, void *ud,
        LYS_INFORMAT *format, const char **data, ly_module_imp_data_free_clb *fr)
{
    const char *name = submod_name ? submod_name : mod_name, *rev = submod_name ? submod_rev : mod_rev;
    int i, best = -1;

    (void)ud;
    for (i = 0; i < nsrc; i++) {
        if ((srcs[i].sub != (submod_name ? 1 : 0)) || strcmp(srcs[i].name, name)) continue;
        if (rev) {
            if (srcs[i].rev && !strcmp(srcs[i].rev, rev)) { best = i; break; }
        } else if (best < 0 || strcmp(revcmp_key(srcs[i].rev), revcmp_key(srcs[best].rev)) > 0) {
            best = i;
        }
    }
    if (best < 0) return LY_ENOTFOUND;
    *format = LYS_IN_YANG;
    *data = srcs[best].text;
    *fr = NULL;
    return LY_SUCCESS;
}

static uint32_t
fnv(const char *s)
{
    uint32_t h = 2166136261u;

    for (; *s; s++) { h ^= (unsigned char)*s; h *= 16777619u; }
    return h;
}

static int
cls_of(const char *key, const char *text)
{
    int i, n = 0;

    for (i = 0; i < ncls; i++) {
        if (strcmp(clss[i].key, key)) continue;
        if (!strcmp(clss[i].text, text)) return clss[i].idx;
        n++;
    }
    if (ncls == MAXCLS) return 999;
    clss[ncls].key = strdup(key); clss[ncls].text = strdup(text); clss[ncls].idx = n;
    return clss[ncls++].idx;
}

static const char **
feats_parse(char *tok, const char **arr, int max)
{
    int n = 0;
    char *p, *save = NULL;

    if (!strcmp(tok, "~")) return NULL;
    if (strcmp(tok, "-")) {
        for (p = strtok_r(tok, ",", &save); p && n < max - 1; p = strtok_r(NULL, ",", &save)) arr[n++] = p;
    }
    arr[n] = NULL;
    return arr;
}

static void
data_status(struct ly_ctx *ctx, int touch)
{
    int i;
    char path[128];

    oput("|d=");
    for (i = 0; i < ndat; i++) {
        struct dat *d = &dats[i];
        const struct lysc_node *now;
        char *p = NULL;

        if (!d->live) { oput("-"); continue; }
        snprintf(path, sizeof path, "/%s:c", d->mod);
        now = lys_find_path(ctx, NULL, path, 0);
        if (now != d->snode) {
            /* the compiled nodes the tree points to were freed: any use of the tree is a use after free */
            if (touch) {
                lyd_print_mem(&p, d->tree, LYD_XML, LYD_PRINT_SHRINK);   /* expected to abort under ASan (F24) */
                free(p);
            }
            d->live = 0;     /* deliberately not freed: lyd_free_all() reads node->schema */
            oput("s");
            continue;
        }
        if (lyd_print_mem(&p, d->tree, LYD_XML, LYD_PRINT_SHRINK) || !p || !strstr(p, ">v<") ||
                lyd_validate_module(&d->tree, d->tree->schema->module, 0, NULL)) {
            oput("b");
        } else {
            oput("u");
        }
        free(p);
    }
}

static int
cmp_str(const void *a, const void *b) { return strcmp(*(const char * const *)a, *(const char * const *)b); }

/* names, sorted, without duplicates, comma separated */
static void
oput_nameset(const char **names, int n)
{
    int i, first = 1;

    qsort(names, n, sizeof *names, cmp_str);
    for (i = 0; i < n; i++) {
        if (i && !strcmp(names[i], names[i - 1])) continue;
        oput("%s%s", first ? "" : ",", names[i]);
        first = 0;
    }
}

/* modules other than `own` that contributed a node below `node` (augments compiled into it) */
static void
collect_foreign(const struct lysc_node *node, const struct lys_module *own, const char **names, int *n, int max)
{
    const struct lysc_node *ch;

    for (ch = lysc_node_child(node); ch; ch = ch->next) {
        if (ch->module != own && *n < max) names[(*n)++] = ch->module->name;
        collect_foreign(ch, own, names, n, max);
    }
}

static void
oput_modref_array(struct lys_module **arr)
{
    LY_ARRAY_COUNT_TYPE u;

    if (!arr || !LY_ARRAY_COUNT(arr)) { oput("-"); return; }
    LY_ARRAY_FOR(arr, u) oput("%s%s@%s", u ? "," : "", arr[u]->name, arr[u]->revision ? arr[u]->revision : "-");
}

/* `A<augmented_by>:V<deviated_by>:N<node>(<augmenting modules>/<deviating modules>)+...`: the two arrays of struct lys_module
 * in array order; for an implemented, compiled module every top-level data node of the compiled tree with the modules that own
 * a node below it (augments) and the modules of deviated_by one of whose deviations addresses a node below it and was
 * applied (the generated deviations add a default) */
static void
amend_status(struct ly_ctx *ctx, const struct lys_module *m)
{
    const struct lysc_node *top;
    const char *names[64];
    int n, first = 1;
    LY_ARRAY_COUNT_TYPE u, v;

    oput(":A"); oput_modref_array(m->augmented_by);
    oput(":V"); oput_modref_array(m->deviated_by);
    oput(":N");
    if (!m->implemented || !m->compiled || !m->compiled->data) { oput("-"); return; }
    for (top = m->compiled->data; top; top = top->next) {
        char pfx[300];
        size_t pl;

        oput("%s%s(", first ? "" : "+", top->name);
        first = 0;
        n = 0;
        collect_foreign(top, m, names, &n, 64);
        oput_nameset(names, n);
        oput("/");
        n = 0;
        pl = snprintf(pfx, sizeof pfx, "/%s:%s/", m->name, top->name);
        LY_ARRAY_FOR(m->deviated_by, u) {
            const struct lys_module *d = m->deviated_by[u];
            if (!d->parsed) continue;
            LY_ARRAY_FOR(d->parsed->deviations, v) {
                const char *id = d->parsed->deviations[v].nodeid;
                const struct lysc_node *t;
                if (strncmp(id, pfx, pl)) continue;
                t = lys_find_path(ctx, NULL, id, 0);
                if (t && (t->nodetype == LYS_LEAF) && ((const struct lysc_node_leaf *)t)->dflt && n < 64) names[n++] = d->name;
            }
        }
        oput_nameset(names, n);
        oput(")");
    }
}

static uint16_t g_cc0;

static void
snapshot(struct ly_ctx *ctx, int rc, uint16_t cc0, int touch)
{
    uint32_t i = ly_ctx_internal_modules_count(ctx), fi;
    const struct lys_module *m;
    struct lysp_feature *f;
    int first = 1, ff;
    char key[256];

    oput(" %d|", rc);
    while ((m = ly_ctx_get_module_iter(ctx, &i))) {
        oput("%s%s@%s:I%d:L%x:", first ? "" : ";", m->name, m->revision ? m->revision : "-", m->implemented ? 1 : 0, m->latest_revision);
        first = 0;
        f = NULL; fi = 0; ff = 1;
        while ((f = lysp_feature_next(f, m->parsed, &fi))) {
            LY_ERR v = lys_feature_value(m, f->name);
            oput("%s%s%s", ff ? "" : ",", f->name, v == LY_SUCCESS ? "+" : (v == LY_ENOT ? "-" : "?"));
            ff = 0;
        }
        if (m->implemented && m->compiled) {
            char *p = NULL;
            if (lys_print_mem(&p, m, LYS_OUT_YANG_COMPILED, 0) || !p) {
                oput(":c!");
            } else {
                snprintf(key, sizeof key, "%s@%s", m->name, m->revision ? m->revision : "-");
                oput(":c%d.%08x", cls_of(key, p), fnv(p));
                if (getenv("VP_CTX_DUMP")) fprintf(stderr, "=== %s %08x\n%s\n", key, fnv(p), p);
            }
            free(p);
        } else {
            oput(":c-");
        }
        amend_status(ctx, m);
    }
    oput("|h=%08x|cc=%u", ly_ctx_get_modules_hash(ctx), (unsigned)(uint16_t)(ly_ctx_get_change_count(ctx) - cc0));
    data_status(ctx, touch);
}

/* `tail`: called after the last step (context may be NULL when the script has no step); may append tokens with oput() */
static void
history(const char *id, char *spec, void (*tail)(struct ly_ctx *ctx, const char *wdir))
{
    struct ly_ctx *ctx = NULL;
    char *line, *save = NULL, *wdir = NULL;
    uint16_t cc0 = 0;
    int flags = 0, touch = 0, i, leaked = 0;
    const char *farr[16];

    nsrc = ncls = ndat = 0; olen = 0;
    oput("%s", "");

    for (line = strtok_r(spec, "\n", &save); line; line = strtok_r(NULL, "\n", &save)) {
        char *tok[8], *p, *s2 = NULL;
        int nt = 0;
        LY_ERR rc;

        for (p = strtok_r(line, " ", &s2); p && nt < 8; p = strtok_r(NULL, " ", &s2)) tok[nt++] = p;
        if (!nt) continue;
        if (!strcmp(tok[0], "F") && nt >= 2) { flags = atoi(tok[1]); continue; }
        if (!strcmp(tok[0], "T") && nt >= 2) { touch = atoi(tok[1]); continue; }
        if (!strcmp(tok[0], "W") && nt >= 2) { free(wdir); wdir = strdup(tok[1]); continue; }
        if ((!strcmp(tok[0], "M") || !strcmp(tok[0], "S")) && nt >= 4) {
            int j, sub = tok[0][0] == 'S';
            const char *rv = strcmp(tok[2], "-") ? tok[2] : NULL;
            for (j = 0; j < nsrc; j++) {
                if (srcs[j].sub == sub && !strcmp(srcs[j].name, tok[1]) && !strcmp(revcmp_key(srcs[j].rev), revcmp_key(rv))) break;
            }
            if (j == nsrc) {
                if (nsrc == MAXSRC) goto bad;
                srcs[j].name = strdup(tok[1]);
                srcs[j].rev = rv ? strdup(rv) : NULL;
                srcs[j].sub = sub;
                nsrc++;
            } else {
                free(srcs[j].text);
            }
            srcs[j].text = vp_unhex(tok[3], NULL);
            if (!srcs[j].text) goto bad;
            continue;
        }
        if (!ctx) {
            if (ly_ctx_new(NULL, (uint16_t)(flags | LY_CTX_DISABLE_SEARCHDIRS), &ctx)) { vp_reply(id, "err CtxNew"); goto done; }
            ly_ctx_set_module_imp_clb(ctx, imp_clb, NULL);
            if (flags & LY_CTX_EXPLICIT_COMPILE) {
                /* the internal modules of an explicit-compile context are compiled by its first ly_ctx_compile() */
                if (ly_ctx_compile(ctx)) { vp_reply(id, "err CtxNew"); goto done; }
            }
            cc0 = ly_ctx_get_change_count(ctx);
            g_cc0 = cc0;
        }
        if (!strcmp(tok[0], "P") && nt >= 4) {
            int j;
            struct ly_in *in = NULL;
            const char *rv = strcmp(tok[2], "-") ? tok[2] : NULL;
            for (j = 0; j < nsrc; j++) {
                if (!srcs[j].sub && !strcmp(srcs[j].name, tok[1]) && !strcmp(revcmp_key(srcs[j].rev), revcmp_key(rv))) break;
            }
            if (j == nsrc) goto bad;
            ly_in_new_memory(srcs[j].text, &in);
            rc = lys_parse(ctx, in, LYS_IN_YANG, feats_parse(tok[3], farr, 16), NULL);
            ly_in_free(in, 0);
        } else if (!strcmp(tok[0], "L") && nt >= 4) {
            /* no LY_ERR is returned: 0 / 1 */
            rc = ly_ctx_load_module(ctx, tok[1], strcmp(tok[2], "-") ? tok[2] : NULL, feats_parse(tok[3], farr, 16)) ? LY_SUCCESS : 1;
        } else if (!strcmp(tok[0], "I") && nt >= 4) {
            struct lys_module *m = ly_ctx_get_module(ctx, tok[1], strcmp(tok[2], "-") ? tok[2] : NULL);
            rc = m ? lys_set_implemented(m, feats_parse(tok[3], farr, 16)) : 99;     /* 99: no such module, nothing was called */
        } else if (!strcmp(tok[0], "C")) {
            rc = ly_ctx_compile(ctx);
        } else if (!strcmp(tok[0], "O") && nt >= 3) {
            rc = tok[1][0] == '+' ? ly_ctx_set_options(ctx, (uint16_t)atoi(tok[2])) : ly_ctx_unset_options(ctx, (uint16_t)atoi(tok[2]));
        } else if (!strcmp(tok[0], "D") && nt >= 2) {
            char path[128];
            struct dat *d;
            if (ndat == MAXDATA) goto bad;
            d = &dats[ndat];
            memset(d, 0, sizeof *d);
            snprintf(path, sizeof path, "/%s:c/l", tok[1]);
            LSAN_OFF();
            rc = lyd_new_path(NULL, ctx, path, "v", 0, &d->tree);
            LSAN_ON();
            if (!rc && d->tree) {
                d->snode = d->tree->schema;
                d->mod = strdup(tok[1]);
                d->live = 1;
            }
            ndat++;
            oput(" D%d", rc ? 1 : 0);
            continue;
        } else {
            goto bad;
        }
        snapshot(ctx, (int)rc, cc0, touch);
    }
    if (tail) {
        if (!ctx) {
            if (ly_ctx_new(NULL, (uint16_t)(flags | LY_CTX_DISABLE_SEARCHDIRS), &ctx)) { vp_reply(id, "err CtxNew"); goto done; }
            ly_ctx_set_module_imp_clb(ctx, imp_clb, NULL);
            g_cc0 = ly_ctx_get_change_count(ctx);
        }
        tail(ctx, wdir);
    }
    vp_reply(id, "ok%s", obuf ? obuf : "");
    goto done;

bad:
    vp_reply(id, "err BadSpec");
done:
    for (i = 0; i < ndat; i++) {
        if (dats[i].live) lyd_free_all(dats[i].tree);
        else if (dats[i].tree) leaked = 1;
        free(dats[i].mod);
    }
    (void)leaked;
    free(wdir);
    ly_ctx_destroy(ctx);
    for (i = 0; i < nsrc; i++) { free(srcs[i].name); free(srcs[i].rev); free(srcs[i].text); }
    for (i = 0; i < ncls; i++) { free(clss[i].key); free(clss[i].text); }
    nsrc = ncls = ndat = 0;
}


#endif
