/* C04 / component `sib`: edit scripts through the PUBLIC API only (libyang.h).  Protocol and checks: sib_common.h */
#define _GNU_SOURCE
#include <libyang.h>
#include "sib_common.h"

int
main(void)
{
    return sib_main();
}
