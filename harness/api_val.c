/* API harness of component `valid`, property C02 (validation accepts exactly the valid instances).  Public API only.
 *
 *   schema <dsl> <yang-hex>                    register the schema named by the DSL token        -> ok <n> <node-summary>*
 *   val | valx <dsl> <xdsl> <opts> <dump>      build the instance through lyd_new_* in dump order (every node LYD_NEW), then
 *                                              lyd_validate_module(opts) / lyd_validate_all(opts) when opts has PRESENT
 *                                                -> ok build <E>                    the instance cannot be built (bad value, missing key)
 *                                                -> ok valid <dump>                 the validated tree (implicit nodes, flags)
 *                                                -> ok invalid <n> <err>*           every logged error, in order
 *   routes <dsl> <opts> <dump> <xml> <json>    the same instance through the parsers                               [impl only]
 *                                                -> ok xml=<res> json=<res> xml2=<res> json2=<res>
 *                                              xml/json: lyd_parse_data with validation (opts | PRESENT); xml2/json2: LYD_PARSE_ONLY,
 *                                              then a separate lyd_validate_all(opts | PRESENT).  <res> = V.<dump> | I.<err>[;<err>]*
 *   ops <yang-hex> <in.xml> <in.json> <out.xml> <out.json> <notif.xml> <notif.json>                                  [impl only]
 *                                              the module (the data definitions of a schema repeated as input of rpc zzop, output of
 *                                              rpc zzoq and body of notification zzev) in a context of its own; every document
 *                                              through lyd_parse_op(RPC / REPLY / NOTIF) and then lyd_validate_op()
 *                                                -> ok in.xml=<res> ... ; <res> = V | P.<err> (parser refused) | I.<err> (validation)
 *   leakcheck                                                                                     -> ok <n>
 * <opts>: decimal OR of LYD_VALIDATE_NO_STATE 1, PRESENT 2, MULTI_ERROR 4, OPERATIONAL 8.  <xdsl> is for the model only (the
 * harness gets the same statements through the YANG text).
 * <err> = <kind>:<app-tag | ->:<hex of the error path, data path first, else "S" + schema path>; <kind> is the closed enum below,
 * derived from libyang's fixed message formats (LY_VCODE_*), never from the embedded input.                                   */
#define _GNU_SOURCE
#include "treeproto.h"

static const struct { const char *prefix, *kind; } KINDS[] = {
    {"Mandatory node \"", "NoMand"},
    {"Mandatory choice \"", "NoMandChoice"},
    {"Duplicate instance of \"", "Dup"},
    {"Data for both cases \"", "DupCase"},
    {"Unexpected data state node \"", "UnexpState"},
    {"Too few \"", "NoMin"},
    {"Too many \"", "NoMax"},
    {"Unique data leaf(s) \"", "NoUniq"},
    {"Must condition \"", "NoMust"},
    {"When condition \"", "NoWhen"},
    {"Invalid leafref value \"", "NoReqInst"},
    {"List instance is missing its key \"", "NoKey"},
    {"Invalid type ", "BadValue"},
    {"Invalid boolean value \"", "BadValue"},
    {"Invalid enumeration value \"", "BadValue"},
    {"Invalid empty value length ", "BadValue"},
    {"Value \"", "BadValue"},
    {"Invalid non-", "BadValue"},
    {"Invalid character sequence \"", "Syntax"},
    {NULL, NULL}
};

static const char *
errkind(const struct ly_err_item *e)
{
    int i;

    for (i = 0; KINDS[i].prefix; i++) {
        if (e->msg && !strncmp(e->msg, KINDS[i].prefix, strlen(KINDS[i].prefix))) return KINDS[i].kind;
    }
    if ((e->vecode == LYVE_SYNTAX_XML) || (e->vecode == LYVE_SYNTAX_JSON) || (e->vecode == LYVE_SYNTAX)) return "Syntax";
    return "Other";
}

/* all logged errors as "<kind>:<apptag>:<pathhex>" joined by `sep` */
static void
errs_to_buf(const struct ly_ctx *ctx, struct tp_buf *b, const char *sep, int *count)
{
    const struct ly_err_item *e;
    int n = 0;

    for (e = ly_err_first(ctx); e; e = e->next) {
        if (e->level != LY_LLERR) continue;
        if (n) tp_buf_add(b, sep, strlen(sep));
        tp_buf_printf(b, "%s:%s:", errkind(e), e->apptag ? e->apptag : "-");
        if (e->data_path) {
            tp_buf_hex(b, e->data_path);
        } else if (e->schema_path) {
            tp_buf_add(b, "53", 2);                   /* 'S' */
            tp_buf_hex(b, e->schema_path);
        } else {
            tp_buf_add(b, "-", 1);
        }
        if (getenv("VERIF_VERBOSE")) fprintf(stderr, "[err] %s | %s | %s\n", e->msg, e->data_path ? e->data_path : "", e->schema_path ? e->schema_path : "");
        n++;
    }
    if (count) *count = n;
}

static LY_ERR
do_validate(const struct tp_schema *s, struct lyd_node **t, uint32_t opts)
{
    ly_err_clean(s->ctx, NULL);
    if (opts & LYD_VALIDATE_PRESENT) return lyd_validate_all(t, s->ctx, opts, NULL);
    return lyd_validate_module(t, s->mod, opts, NULL);
}

/* only the nodes of the schema's module (lyd_validate_all may add implicit nodes of other modules in front or behind) */
static void
dump_own(const struct tp_schema *s, const struct lyd_node *forest, struct tp_buf *b)
{
    const struct lyd_node *n;

    b->len = 0;
    if (b->s) b->s[0] = 0;
    for (n = forest ? lyd_first_sibling(forest) : NULL; n; n = n->next) {
        if (n->schema && (lyd_owner_module(n) == s->mod)) tp_dump_node(s, n, 0, b);
    }
}

static void
op_val(const char *id, const struct tp_schema *s, uint32_t opts, const char *dumptok)
{
    char *text = vp_unhex(dumptok, NULL);
    struct lyd_node *t = NULL;
    struct tp_buf b = {0};
    LY_ERR r;
    int n;

    if (!text) { vp_reply(id, "err BadHex"); return; }
    ly_err_clean(s->ctx, NULL);
    r = tp_load(s, text, 0, &t);
    free(text);
    if (r) {
        vp_reply(id, "ok build %s", tp_errname(r));
        return;
    }
    r = do_validate(s, &t, opts);
    if (!r) {
        dump_own(s, t, &b);
        vp_begin(id, "ok valid"); vp_field_hex(b.s ? b.s : "", b.len); vp_end();
    } else {
        errs_to_buf(s->ctx, &b, " ", &n);
        vp_reply(id, "ok invalid %d %s", n, b.s ? b.s : "");
    }
    free(b.s);
    lyd_free_all(t);
}

static void
route(const struct tp_schema *s, const char *name, const char *doc, LYD_FORMAT fmt, uint32_t opts, int twostep)
{
    struct lyd_node *t = NULL;
    struct tp_buf b = {0};
    LY_ERR r;

    ly_err_clean(s->ctx, NULL);
    if (!twostep) {
        r = lyd_parse_data_mem(s->ctx, doc, fmt, LYD_PARSE_STRICT, opts | LYD_VALIDATE_PRESENT, &t);
    } else {
        r = lyd_parse_data_mem(s->ctx, doc, fmt, LYD_PARSE_STRICT | LYD_PARSE_ONLY, 0, &t);
        if (!r) {
            ly_err_clean(s->ctx, NULL);
            r = lyd_validate_all(&t, s->ctx, opts | LYD_VALIDATE_PRESENT, NULL);
        }
    }
    fprintf(stdout, " %s=", name);
    if (!r) {
        dump_own(s, t, &b);
        fputs("V.", stdout);
        vp_puthex(b.s ? b.s : "", b.len);
    } else {
        errs_to_buf(s->ctx, &b, ";", NULL);
        fprintf(stdout, "I.%s", b.s ? b.s : "");
    }
    free(b.s);
    lyd_free_all(t);
}

static void
op_route(const struct ly_ctx *ctx, const char *name, const char *doc, LYD_FORMAT fmt, enum lyd_type type)
{
    struct lyd_node *t = NULL, *op = NULL;
    struct ly_in *in = NULL;
    struct tp_buf b = {0};
    LY_ERR r;

    ly_err_clean((struct ly_ctx *)ctx, NULL);
    ly_in_new_memory(doc, &in);
    r = lyd_parse_op(ctx, NULL, in, fmt, type, &t, &op);
    ly_in_free(in, 0);
    fprintf(stdout, " %s=", name);
    if (r) {
        errs_to_buf(ctx, &b, ";", NULL);
        fprintf(stdout, "P.%s", b.s ? b.s : "");
    } else if ((r = lyd_validate_op(t, NULL, type, NULL))) {
        errs_to_buf(ctx, &b, ";", NULL);
        fprintf(stdout, "I.%s", b.s ? b.s : "");
    } else {
        fputs("V", stdout);
    }
    free(b.s);
    lyd_free_all(t);
}

int
main(void)
{
    struct vp_req r = {0};

    ly_log_options(LY_LOSTORE);

    while (vp_next(&r)) {
        const char *id = r.tok[0], *op = r.ntok > 2 ? r.tok[2] : "";
        struct tp_schema *s = NULL;

        if (r.ntok < 3) { vp_reply(r.ntok ? id : "?", "err BadLine"); continue; }

        if (!strcmp(op, "leakcheck")) {
            vp_reply(id, "ok %d", VP_LEAKCHECK());
            continue;
        }
        if (!strcmp(op, "schema") && r.ntok == 5) {
            char *yang = vp_unhex(r.tok[4], NULL);
            struct tp_buf b = {0};

            s = yang ? tp_schema_register(r.tok[3], yang) : NULL;
            free(yang);
            if (!s) { vp_reply(id, "err BadSchema"); continue; }
            tp_schema_summary(s, &b);
            vp_reply(id, "ok %d %s", s->n, b.s ? b.s : "");
            free(b.s);
            continue;
        }
        if (!strcmp(op, "ops") && r.ntok == 10) {
            static const char *names[] = {"in.xml", "in.json", "out.xml", "out.json", "notif.xml", "notif.json"};
            char *yang = vp_unhex(r.tok[3], NULL);
            struct ly_ctx *octx = NULL;
            int i;

            if (!yang || ly_ctx_new(NULL, 0, &octx) || lys_parse_mem(octx, yang, LYS_IN_YANG, NULL)) {
                vp_reply(id, "err BadSchema");
            } else {
                vp_begin(id, "ok");
                for (i = 0; i < 6; i++) {
                    char *doc = vp_unhex(r.tok[4 + i], NULL);

                    if (doc) op_route(octx, names[i], doc, i % 2 ? LYD_JSON : LYD_XML,
                            i < 2 ? LYD_TYPE_RPC_YANG : i < 4 ? LYD_TYPE_REPLY_YANG : LYD_TYPE_NOTIF_YANG);
                    free(doc);
                }
                vp_end();
            }
            free(yang);
            ly_ctx_destroy(octx);
            continue;
        }
        if (r.ntok < 4 || !(s = tp_schema_get(r.tok[3]))) { vp_reply(id, "err NoSchema"); continue; }

        if ((!strcmp(op, "val") || !strcmp(op, "valx")) && r.ntok == 7) {      /* valx: same op; the model side also evaluates must / leafref / when */
            op_val(id, s, (uint32_t)atoi(r.tok[5]), r.tok[6]);
        } else if (!strcmp(op, "routes") && r.ntok == 8) {
            uint32_t opts = (uint32_t)atoi(r.tok[4]);
            char *xml = vp_unhex(r.tok[6], NULL), *json = vp_unhex(r.tok[7], NULL);

            if (!xml || !json) {
                vp_reply(id, "err BadHex");
            } else {
                vp_begin(id, "ok");
                route(s, "xml", xml, LYD_XML, opts, 0);
                route(s, "json", json, LYD_JSON, opts, 0);
                route(s, "xml2", xml, LYD_XML, opts, 1);
                route(s, "json2", json, LYD_JSON, opts, 1);
                vp_end();
            }
            free(xml); free(json);
        } else {
            vp_reply(id, "err BadOp");
        }
    }
    free(r.line);
    tp_schema_free_all();
    return 0;
}
