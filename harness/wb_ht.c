/* White-box harness of component `ht` (C17): hash_table.c through its (semi-public) API + the internal record
 * layout of hash_table_internal.h, and dict.c included white-box so that the hash it uses can be masked by the
 * request (full 32-bit collisions at will).  One request = one whole history; one reply token per op.
 *
 *   hash  <hex>                                           -> ok <u32>
 *   fixed <n>                                             -> ok <u32>
 *   hist  <size> <resize> <ve> <rve|-> <cve|-> <script>   -> ok <tok>*     script: op,op,…   op: c.<hash>.<val> | D | R
 *   dict  <size> <mask> <script>                          -> ok <tok>*     script: i.<hex>.<len>.<alias> | z.<hex> |
 *                                                                                   r.<hex> | d.<hex>.<alias> | D
 * Every table is freed at the end of its request; the LeakSanitizer is asked after every VP_LEAK_EVERY-th history
 * (environment, default 64; the check module re-runs a window with 1 to name the leaking history) and at exit
 * (`LEAK` token if it reports). */
#define _GNU_SOURCE
#include <stdint.h>
#include <stdlib.h>
#include <string.h>
#include <stdio.h>

#include "ly_common.h"
#include "hash_table.h"
#include "hash_table_internal.h"
#include "dict.h"
#include "log.h"

/* ---- dict.c white-box with a maskable hash ------------------------------------------------------------------ */
static uint32_t vp_mask = 0xFFFFFFFFu;

static uint32_t
vp_dict_hash(const char *key, size_t len)
{
    return lyht_hash(key, len) & vp_mask;
}

#define lyht_hash vp_dict_hash
#include "dict.c"
#undef lyht_hash

#include "proto.h"

static unsigned long vp_nreq, vp_leak_every = 64;

static int
vp_leak_now(void)
{
    return (++vp_nreq % vp_leak_every == 0) && VP_LEAKCHECK();
}

/* ---- generic table over uint32_t values ---------------------------------------------------------------------- */
static ly_bool eq0(void *a, void *b, ly_bool mod, void *d) { (void)mod; (void)d; return *(uint32_t *)a == *(uint32_t *)b; }
static ly_bool eq1(void *a, void *b, ly_bool mod, void *d) { (void)mod; (void)d; return (*(uint32_t *)a & 0xFF) == (*(uint32_t *)b & 0xFF); }
static ly_bool eq2(void *a, void *b, ly_bool mod, void *d) { return mod ? eq0(a, b, mod, d) : eq1(a, b, mod, d); }
static ly_bool eq3(void *a, void *b, ly_bool mod, void *d) { return mod ? eq1(a, b, mod, d) : eq0(a, b, mod, d); }

static lyht_value_equal_cb
eq_mode(const char *s)
{
    if (!strcmp(s, "-")) return NULL;
    switch (atoi(s)) {
    case 0: return eq0;
    case 1: return eq1;
    case 2: return eq2;
    default: return eq3;
    }
}

static const char *
rc_name(LY_ERR r, char *buf)
{
    switch (r) {
    case LY_SUCCESS: return "ok";
    case LY_EEXIST: return "exist";
    case LY_ENOTFOUND: return "notfound";
    case LY_EINT: return "eint";
    default: sprintf(buf, "err%d", (int)r); return buf;
    }
}

static void
ht_dump(struct ly_ht *ht)
{
    uint32_t hl, ri, n = 0;
    struct ly_ht_rec *rec;

    printf(" D:%u:%u:%u:", ht->size, ht->used, (unsigned)ht->resize);
    LYHT_ITER_ALL_RECS(ht, hl, ri, rec) {
        printf("%s%u.%u", n ? ";" : "", rec->hash, *(uint32_t *)rec->val);
        n++;
    }
    if (!n) printf("-");
}

static void
ht_raw(struct ly_ht *ht)
{
    uint32_t i;
    struct ly_ht_rec *rec;

    printf(" R:%u:", ht->first_free_rec);
    for (i = 0; i < ht->size; i++) {
        printf("%s%u.%u", i ? ";" : "", ht->hlists[i].first, ht->hlists[i].last);
    }
    printf(":");
    for (i = 0; i < ht->size; i++) {
        rec = lyht_get_rec(ht->recs, ht->rec_size, i);
        printf("%s%u.%u.%u", i ? ";" : "", rec->hash, rec->next, *(uint32_t *)rec->val);
    }
}

/* would a checked insert stop at the duplicate check? (the callback is called exactly as lyht_find_rec does) */
static int
ht_has_mod1(struct ly_ht *ht, lyht_value_equal_cb ve, uint32_t *v, uint32_t hash)
{
    uint32_t ri, hl = hash & (ht->size - 1);
    struct ly_ht_rec *rec;

    LYHT_ITER_HLIST_RECS(ht, hl, ri, rec) {
        if ((rec->hash == hash) && ve(v, rec->val, 1, NULL)) return 1;
    }
    return 0;
}

static void
do_hist(struct vp_req *r)
{
    uint32_t size = strtoul(r->tok[3], NULL, 10);
    uint16_t resize = atoi(r->tok[4]);
    lyht_value_equal_cb ve = eq_mode(r->tok[5]), rve = eq_mode(r->tok[6]), cve = eq_mode(r->tok[7]);
    struct ly_ht *ht;
    char *save = NULL, *op, buf[32];

    ht = lyht_new(size, sizeof(uint32_t), ve, NULL, resize);
    vp_begin(r->tok[0], "ok");
    for (op = strtok_r(r->tok[8], ",", &save); op; op = strtok_r(NULL, ",", &save)) {
        char c = op[0];
        uint32_t hash = 0, v = 0, *match = NULL;
        LY_ERR rc = LY_SUCCESS;
        int has_match = 0;

        if (!strcmp(op, "D")) { ht_dump(ht); continue; }
        if (!strcmp(op, "R")) { ht_raw(ht); continue; }
        if (sscanf(op + 1, ".%u.%u", &hash, &v) != 2) { printf(" BadArg"); continue; }

        if (strchr("ijnm", c)) {
            int check = (c == 'i' || c == 'j');

            if ((ht->first_free_rec >= ht->size) && !(check && ht_has_mod1(ht, ve, &v, hash))) {
                /* assert(rec_idx < ht->size) is compiled out: the call would write out of bounds */
                printf(" full:%u:%u", ht->size, ht->used);
                continue;
            }
            switch (c) {
            case 'i': rc = lyht_insert_with_resize_cb(ht, &v, hash, rve, (void **)&match); has_match = 1; break;
            case 'j': rc = lyht_insert_with_resize_cb(ht, &v, hash, rve, NULL); break;
            case 'n': rc = lyht_insert_no_check(ht, &v, hash, (void **)&match); has_match = 1; break;
            case 'm': rc = lyht_insert_no_check(ht, &v, hash, NULL); break;
            }
            if (rc == LY_EEXIST && !has_match) {
                /* the model reports the equal stored value; fetch it the same way the code would have */
                uint32_t ri, hl = hash & (ht->size - 1);
                struct ly_ht_rec *rec;
                LYHT_ITER_HLIST_RECS(ht, hl, ri, rec) {
                    if ((rec->hash == hash) && ve(&v, rec->val, 1, NULL)) { match = (uint32_t *)rec->val; break; }
                }
                has_match = 1;
            }
        } else if (c == 'r') {
            rc = lyht_remove_with_resize_cb(ht, &v, hash, rve);
        } else if (c == 'f') {
            rc = lyht_find(ht, &v, hash, (void **)&match); has_match = 1;
        } else if (c == 'x') {
            rc = lyht_find_next_with_collision_cb(ht, &v, hash, cve, (void **)&match); has_match = 1;
        } else {
            printf(" BadOp");
            continue;
        }
        printf(" %s", rc_name(rc, buf));
        if (rc == LY_SUCCESS || rc == LY_EEXIST) {
            if (has_match && match) printf(":%u", *match); else if (rc == LY_SUCCESS) printf(":-");
        }
        printf(":%u:%u", ht->size, ht->used);
    }
    lyht_free(ht, NULL);
    if (vp_leak_now()) printf(" LEAK");
    vp_end();
}

/* ---- dictionary ---------------------------------------------------------------------------------------------- */
struct held { char *str; const char *ptr; unsigned cnt; };
static struct held *held;
static size_t nheld;

static struct held *
held_get(const char *s, int create)
{
    size_t i;

    for (i = 0; i < nheld; i++) {
        if (!strcmp(held[i].str, s)) return &held[i];
    }
    if (!create) return NULL;
    held = realloc(held, (nheld + 1) * sizeof *held);
    held[nheld].str = strdup(s);
    held[nheld].ptr = NULL;
    held[nheld].cnt = 0;
    return &held[nheld++];
}

static void
held_add(const char *s, const char *ptr, int *bad)
{
    struct held *h = held_get(s, 1);

    if (h->cnt && h->ptr != ptr) *bad = 1;      /* the same string must be returned as the same pointer */
    h->ptr = ptr;
    h->cnt++;
}

static int
cmp_str(const void *a, const void *b)
{
    /* order of the hex encodings (the part before '='); a proper prefix sorts first */
    const char *x = *(const char **)a, *y = *(const char **)b;
    size_t lx = strcspn(x, "="), ly = strcspn(y, "=");
    int c = strncmp(x, y, lx < ly ? lx : ly);

    return c ? c : (lx > ly) - (lx < ly);
}

static void
dict_dump(struct ly_ctx *ctx)
{
    struct ly_ht *ht = ctx->dict.hash_tab;
    uint32_t hl, ri, n = 0, i;
    struct ly_ht_rec *rec;
    char **items = calloc(ht->used + 1, sizeof *items);

    LYHT_ITER_ALL_RECS(ht, hl, ri, rec) {
        struct ly_dict_rec *dr = (struct ly_dict_rec *)rec->val;
        size_t l = strlen(dr->value), k;
        char *it = malloc(2 * l + 32), *p = it;

        if (!l) *p++ = '-';
        for (k = 0; k < l; k++) p += sprintf(p, "%02x", (unsigned char)dr->value[k]);
        sprintf(p, "=%u", dr->refcount);
        items[n++] = it;
    }
    qsort(items, n, sizeof *items, cmp_str);
    printf(" D:%u:%u:", ht->size, ht->used);
    for (i = 0; i < n; i++) {
        printf("%s%s", i ? ";" : "", items[i]);
        free(items[i]);
    }
    if (!n) printf("-");
    free(items);
}

static void
do_dict(struct vp_req *r)
{
    uint32_t size = strtoul(r->tok[3], NULL, 10);
    struct ly_ctx *ctx = calloc(1, sizeof *ctx);
    char *save = NULL, *op, buf[32];
    size_t i;

    vp_mask = strtoul(r->tok[4], NULL, 10);
    if (size == LYDICT_MIN_SIZE) {
        lydict_init(&ctx->dict);
    } else {
        ctx->dict.hash_tab = lyht_new(size, sizeof(struct ly_dict_rec), lydict_val_eq, NULL, 1);
        pthread_mutex_init(&ctx->dict.lock, NULL);
    }
    vp_begin(r->tok[0], "ok");
    for (op = strtok_r(r->tok[5], ",", &save); op; op = strtok_r(NULL, ",", &save)) {
        char c = op[0], *f[4] = {0}, *s2 = NULL, *p, *val = NULL;
        int nf = 0, alias = 0, bad = 0;
        size_t vlen = 0, len = 0;
        const char *out = NULL;
        struct held *h;
        LY_ERR rc;

        if (!strcmp(op, "D")) { dict_dump(ctx); continue; }
        for (p = strtok_r(op, ".", &s2); p && nf < 4; p = strtok_r(NULL, ".", &s2)) f[nf++] = p;
        if (nf < 2 || !(val = vp_unhex(f[1], &vlen)) || strlen(val) != vlen) { printf(" BadArg"); free(val); continue; }

        switch (c) {
        case 'i':
            if (nf != 4) { printf(" BadArg"); break; }
            len = strtoul(f[2], NULL, 10);
            alias = atoi(f[3]);
            if (len > vlen) { printf(" BadArg"); break; }
            h = held_get(val, 0);
            if (alias && !(h && h->cnt)) { printf(" NoPtr"); break; }
            rc = lydict_insert(ctx, alias ? h->ptr : val, len, &out);
            if (rc == LY_SUCCESS) {
                if (!out) { printf(" NULLOUT"); break; }
                held_add(out, out, &bad);
                printf(" ok:"); vp_puthex(out, strlen(out));
                if (bad) printf("!ptr");
            } else {
                printf(" %s", rc_name(rc, buf));
            }
            printf(":%u:%u", ctx->dict.hash_tab->size, ctx->dict.hash_tab->used);
            break;
        case 'z':
            rc = lydict_insert_zc(ctx, strdup(val), &out);      /* consumed on every path */
            if (rc == LY_SUCCESS) {
                held_add(out, out, &bad);
                printf(" ok:"); vp_puthex(out, strlen(out));
                if (bad) printf("!ptr");
            } else {
                printf(" %s", rc_name(rc, buf));
            }
            printf(":%u:%u", ctx->dict.hash_tab->size, ctx->dict.hash_tab->used);
            break;
        case 'r':
            rc = lydict_remove(ctx, val);
            if (rc == LY_SUCCESS) {
                h = held_get(val, 0);
                if (h && h->cnt) h->cnt--;
                printf(" done");
            } else {
                printf(" %s", rc_name(rc, buf));
            }
            printf(":%u:%u", ctx->dict.hash_tab->size, ctx->dict.hash_tab->used);
            break;
        case 'd':
            if (nf != 3) { printf(" BadArg"); break; }
            alias = atoi(f[2]);
            h = held_get(val, 0);
            if (alias && !(h && h->cnt)) { printf(" NoPtr"); break; }
            rc = lydict_dup(ctx, alias ? h->ptr : val, &out);
            if (rc == LY_SUCCESS) {
                held_add(out, out, &bad);
                printf(" ok:"); vp_puthex(out, strlen(out));
                if (bad) printf("!ptr");
            } else {
                printf(" %s", rc_name(rc, buf));
            }
            printf(":%u:%u", ctx->dict.hash_tab->size, ctx->dict.hash_tab->used);
            break;
        default:
            printf(" BadOp");
        }
        free(val);
    }
    /* end of the history: what lydict_clean would complain about is in the last D token; release everything */
    {
        struct ly_ht *ht = ctx->dict.hash_tab;
        uint32_t hl, ri;
        struct ly_ht_rec *rec;

        LYHT_ITER_ALL_RECS(ht, hl, ri, rec) {
            free(((struct ly_dict_rec *)rec->val)->value);
        }
        lyht_free(ht, NULL);
        pthread_mutex_destroy(&ctx->dict.lock);
        free(ctx);
    }
    for (i = 0; i < nheld; i++) free(held[i].str);
    free(held);
    held = NULL;
    nheld = 0;
    vp_mask = 0xFFFFFFFFu;
    if (vp_leak_now()) printf(" LEAK");
    vp_end();
}

int
main(void)
{
    struct vp_req r = {0};

    ly_log_options(0);
    if (getenv("VP_LEAK_EVERY") && atol(getenv("VP_LEAK_EVERY")) > 0) {
        vp_leak_every = atol(getenv("VP_LEAK_EVERY"));
    }
    while (vp_next(&r)) {
        if (r.ntok < 3) { vp_reply(r.ntok ? r.tok[0] : "?", "err BadLine"); continue; }
        if (strcmp(r.tok[1], "ht")) { vp_reply(r.tok[0], "err NoSuchComponent"); continue; }
        if (!strcmp(r.tok[2], "hash") && r.ntok == 4) {
            size_t n;
            char *s = vp_unhex(r.tok[3], &n);
            if (!s) { vp_reply(r.tok[0], "err BadHex"); continue; }
            vp_reply(r.tok[0], "ok %u", lyht_hash(s, n));
            free(s);
        } else if (!strcmp(r.tok[2], "fixed") && r.ntok == 4) {
            vp_reply(r.tok[0], "ok %u", lyht_get_fixed_size((uint32_t)strtoul(r.tok[3], NULL, 10)));
        } else if (!strcmp(r.tok[2], "hist") && r.ntok == 9) {
            do_hist(&r);
        } else if ((!strcmp(r.tok[2], "dict") || !strcmp(r.tok[2], "dictf")) && r.ntok == 6) {
            do_dict(&r);
        } else {
            vp_reply(r.tok[0], "err BadOp");
        }
    }
    free(r.line);
    return 0;
}
