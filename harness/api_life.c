/* Runtime half of property C17 (ownership / lifetime):  one API history per request line, each in a fresh context and a
 * forked child (pristine heap, exact leak attribution; a sanitizer abort takes down this history only).
 *
 *   <id> life hist <schemaset> <ctxopts> <script>
 *        <ctxopts> = LY_CTX_* bits; bit 30 forces the LeakSanitizer pass
 *        <script> = op;op;...      op = name:arg:arg...    string args hex ("-" = "", "~" = NULL), ints decimal
 *        node selector (string): "#<k>" = k-th node of the slot in DFS order (mod node count); with % $ * ! @ ^ instead of #
 *        the k-th opaque node / non-key leaf / leaf-list instance or key / any node / inner node / node with metadata;
 *        otherwise a data path (lyd_find_path from the slot's first sibling)
 *   -> <id> ok rc=<per-op LY_ERR, -1 = op not applicable (empty slot, wrong node kind, guarded precondition), comma list>
 *              drec=<dictionary records after freeing all trees minus baseline> dref=<same for the sum of refcounts>
 *              mid=<n of intermediate all-freed points where the dictionary differed from the baseline>
 *              sfail=<indices of FAILED schema ops that changed the dictionary, or ->
 *              warn=<"not freed from the dictionary" warnings during ly_ctx_destroy> eint=<"Internal error" messages>
 *              onn=<ops that failed but left a non-NULL output> integ=<broken node links seen by the integrity walk>
 *              left=<failed subtree parses that left parsed (explicit) nodes in the parent>
 *              lost=<(leaf-)list instances their own sibling lookup does not find> live=<slots alive before the final free>
 *              heap=<1 when the byte balance of the heap differs from that of an empty history>
 *              leak=<VP_LEAKCHECK(), run when heap=1 or forced> leakat=<innermost 3 frames of the first leak's allocation, or ->
 *   <id> life schema <n>                  -> <id> ok <hex of every module of built-in schema set n>
 *   <id> life printset <n> <0 YANG|1 YIN> -> <id> ok <hex of every module of set n as printed by lys_print_mem>
 *   <id> life printmod <hex name> <fmt>   (fresh context; internal module printed with lys_print_mem)  -> <id> ok <hex>
 *
 * ops (s,a,b,d,e = slots 0..5; n,m = node selectors):
 *   schema   ymod:fmt:text  lmod:name:rev  impl:name:features  yinself:name:fmt         (all slots are freed first, F24;
 *            the dictionary before/after a FAILED load must be equal; the baseline is re-taken after every schema op)
 *   parse    px:s:fmt:popts:vopts:doc (lyd_parse_data_mem)  pin:... (ly_in_new_memory + lyd_parse_data + ly_in_free)
 *            pinp:s:n:fmt:popts:vopts:doc (under a parent)  pop:s:fmt:dtype:doc[:ps:pn] (lyd_parse_op)  rt:s:d:fmt:prt:popts:vopts (print + parse)
 *   new      np:s:opts:path:val  np2:s:n:opts:path:val:anytype  ni/nl/nlv/nt/ntb/na/nad/no:s:n:mod:name:...  nm/nat:s:n:mod:name:val:opt
 *   change   ct:s:n:val:any  ctb:s:n:bytes:any  cm:s:n:k:val  fm:s:n:k  ac:a:n:b:m[:1]  acs:a:n:vtype:str[:1]
 *   copy     ds/dd:a:n:b:parent:opts   merge  mt/ms:a:b:opts (DESTRUCT spends slot b on success and failure alike)
 *   diff     df/dft:a:b:d:opts  da:a:d  dr:d:e  dm:d:e:opts  cmp:a:b:opts
 *   validate va:s:vopts:diff  vm:s:mod:vopts:diff  vo:s:n:b:dtype:diff  im:s:iopts:diff  imt:s:n:iopts:diff  ll:s
 *   unlink   ft:s:n  ul:s:n:keep  fs:s:n  us:s:n  fa:s        insert  ic/is/ib/ia:a:dst:b:n[:flag]
 *   read     fp:s:n:path:output  fx/ex:s:n:xpath  fv:s:n:schemapath:val  pth:s:n:t  di:s:n  avs:s:n  pr:s:fmt:opts  prn:s:n:fmt:opts
 *   misc     ec (ly_err_clean)  zc:str:k (lydict_insert_zc / insert / dup / remove)  vv:schemapath:val[:s:n] (lyd_value_validate)
 * After every op an integrity walk touches every node and value of every live tree, checks the sibling / parent links and
 * looks every (leaf-)list instance up among its siblings, including the former values of changed instances (F19).
 *
 * The dictionary is read white-box (ctx->dict.hash_tab); everything else is the public API.
 * Harness rules: schema-changing ops run only with no live data tree; freed pointers are never passed; an op that refers
 * to an empty slot answers -1 without calling into the library.  Guarded preconditions (answer -1): edits of a list key
 * inside its list instance, nodes inserted below themselves, siblings duplicated into their own sibling list, whole-tree
 * calls on an unlinked nested subtree, absolute lyd_new_path next to a nested node, LYD_PARSE_ORDERED, *_CANON values;
 * known-defective calls that only the witnesses make (flag argument): F112, F116, F153. */
#define _GNU_SOURCE
#include <ctype.h>
#include <stdarg.h>
#include <signal.h>
#include <unistd.h>
#include <sys/wait.h>
#include <fcntl.h>
#include "libyang.h"
#include "ly_common.h"
#include "hash_table_internal.h"
#include "proto.h"

#define NSLOT 6
#define MAXOPS 400
#define MAXARG 12
#define MAXGHOST 8

/* ------------------------------------------------------------------------------------------------------------ */
/* built-in schema sets */

static const char *S_LFA =
"module lfa {yang-version 1.1; namespace \"urn:lfa\"; prefix a;\n"
" import ietf-yang-metadata {prefix md;}\n"
" md:annotation note {type string;}\n"
" md:annotation cnt {type uint8;}\n"
" feature ft;\n"
" identity base-id; identity id-a {base base-id;} identity id-b {base base-id;} identity id-c {base id-a;}\n"
" typedef pct {type uint8 {range \"0..100\";}}\n"
" container c {\n"
"  leaf-list sl {type int8;}\n"
"  leaf a {type string;}\n"
"  leaf b {type string {length \"1..8\"; pattern \"[a-z]*\";}}\n"
"  leaf i8 {type int8;}\n"
"  leaf u16 {type uint16 {range \"10..20 | 100..max\";}}\n"
"  leaf i64 {type int64;}\n"
"  leaf u64 {type uint64;}\n"
"  leaf dec {type decimal64 {fraction-digits 2; range \"-10.0..10.0\";}}\n"
"  leaf bo {type boolean;}\n"
"  leaf em {type empty;}\n"
"  leaf en {type enumeration {enum one; enum two {value 5;} enum three;}}\n"
"  leaf bi {type bits {bit b0; bit b1; bit b5 {position 5;}}}\n"
"  leaf bin {type binary {length \"0..16\";}}\n"
"  leaf idr {type identityref {base base-id;}}\n"
"  leaf iid {type instance-identifier {require-instance false;}}\n"
"  leaf iidr {type instance-identifier;}\n"
"  leaf lr {type leafref {path \"../sl\";}}\n"
"  leaf lrn {type leafref {path \"../a\"; require-instance false;}}\n"
"  leaf un {type union {type int8; type enumeration {enum x; enum y;} type bits {bit q; bit r;} type string {length \"3..5\";}}}\n"
"  leaf unl {type union {type leafref {path \"../sl\";} type identityref {base base-id;} type binary;}}\n"
"  leaf dflt {type pct; default 50;}\n"
"  leaf-list ul {type string; ordered-by user;}\n"
"  leaf-list sls {type string;}\n"
"  leaf-list dl {type uint8; default 1; default 2;}\n"
"  list li {key \"k\"; leaf k {type string;} leaf v {type int32;} leaf-list ll {type uint8;}\n"
"   container ic {presence \"p\"; leaf x {type string;}}\n"
"   action act {input {leaf p {type string;}} output {leaf r {type string;}}}\n"
"   notification ev {leaf sev {type uint8;}}}\n"
"  list l2 {key \"k1 k2\"; leaf k1 {type uint8;} leaf k2 {type identityref {base base-id;}} leaf v {type string;}}\n"
"  list ulst {key \"k\"; ordered-by user; leaf k {type int16;} leaf v {type string;}}\n"
"  list ksl {config false; leaf s1 {type string;} leaf s2 {type uint8;}}\n"
"  container pc {presence \"yes\"; leaf m {type string; mandatory true;}}\n"
"  choice ch {default c2; case c1 {leaf c1a {type string;} leaf c1b {type string;}} case c2 {leaf c2a {type uint8; default 7;}} leaf c3 {type empty;}}\n"
"  leaf wl {when \"../a = 'on'\"; type string;}\n"
"  leaf wlr {when \"../a = 'on'\"; type leafref {path \"../sl\";}}\n"
"  leaf wun {when \"../a = 'on'\"; type union {type leafref {path \"../sl\";} type string {length \"2..4\";}}}\n"
"  leaf wii {when \"../a = 'on'\"; type instance-identifier;}\n"
"  leaf-list wll {when \"../a = 'on'\"; type leafref {path \"../sls\";}}\n"
"  leaf ml {must \". != ../a\"; type string;}\n"
"  anydata ad;\n"
"  anyxml ax;\n"
"  leaf ff {if-feature ft; type string;}\n"
" }\n"
" leaf top {type string;}\n"
" leaf-list tl {type uint32;}\n"
" list tli {key k; leaf k {type string;} leaf v {type string;}}\n"
" rpc op {input {leaf x {type string;} leaf-list y {type uint8;}} output {leaf z {type string;}}}\n"
" notification nt {leaf msg {type string;} container d {leaf q {type int8;}}}\n"
"}\n";

static const char *S_LFB =
"module lfb {yang-version 1.1; namespace \"urn:lfb\"; prefix b;\n"
" identity proto; identity tcp {base proto;} identity udp {base proto;}\n"
" container sys {\n"
"  leaf name {type string {length \"1..12\";}}\n"
"  leaf-list ports {type uint16; max-elements 6;}\n"
"  list if {key name; unique \"idx\"; min-elements 0; leaf name {type string;} leaf idx {type uint32;} leaf mtu {type uint16 {range \"68..9000\";} default 1500;}\n"
"   leaf en {type boolean; default true;} leaf pr {type identityref {base proto;}}\n"
"   leaf-list tags {type enumeration {enum red; enum green; enum blue;}}}\n"
"  leaf ref {type leafref {path \"../if/name\";}}\n"
"  container st {config false; leaf up {type uint64;} list log {leaf m {type string;}}}\n"
" }\n"
" leaf-list dns {type string; ordered-by user;}\n"
"}\n";

static const char *S_LFC =
"module lfc {yang-version 1.1; namespace \"urn:lfc\"; prefix c;\n"
" import lfb {prefix b;}\n"
" identity sctp {base b:proto;}\n"
" augment \"/b:sys\" {\n"
"  leaf-list al {type int32;}\n"
"  list rt {key \"dst pfx\"; leaf dst {type string;} leaf pfx {type uint8 {range \"0..32\";}} leaf via {type leafref {path \"/b:sys/b:if/b:name\";}}\n"
"   leaf metric {type uint32; default 10;} leaf pr {type identityref {base b:proto;}}}\n"
"  leaf aw {when \"../b:name\"; type string;}\n"
" }\n"
" augment \"/b:sys/b:if\" {leaf desc {type string;} container ex {leaf-list v {type bits {bit x; bit y; bit z;}}}}\n"
" container cfg {leaf mode {type enumeration {enum a; enum b;} mandatory true;} leaf peer {type leafref {path \"/b:sys/b:name\"; require-instance false;}}}\n"
"}\n";

static const char *S_LFD =
"module lfd {yang-version 1.1; namespace \"urn:lfd\"; prefix d;\n"
" identity kind; identity k1 {base kind;} identity k2 {base kind;}\n"
" container r {\n"
"  list a {key \"n\"; leaf n {type int32;} leaf t {type string;}\n"
"   list b {key \"x y\"; leaf x {type uint8;} leaf y {type enumeration {enum lo; enum mid; enum hi;}} leaf w {type decimal64 {fraction-digits 3;}}\n"
"    leaf-list e {type enumeration {enum p; enum q; enum r; enum s;}}\n"
"    leaf-list bt {type bits {bit a; bit b; bit c;}}\n"
"    leaf-list id {type identityref {base kind;}}\n"
"    leaf-list u {type union {type uint8; type string;}}\n"
"    leaf-list bn {type binary;}\n"
"    list c {key \"k\"; leaf k {type union {type int8; type string {length \"1..4\";}}} leaf z {type empty;}}\n"
"   }\n"
"   leaf-list dd {type decimal64 {fraction-digits 1;}}\n"
"   leaf-list bb {type boolean;}\n"
"   leaf-list uo {type uint8; ordered-by user;}\n"
"  }\n"
"  choice mc {mandatory true; leaf m1 {type string;} container m2 {leaf q {type string;}}}\n"
"  list kb {key \"k\"; leaf k {type boolean;} leaf v {type string;}}\n"
"  list ki {key \"k\"; leaf k {type identityref {base kind;}} leaf v {type string;}}\n"
"  list kd {key \"k\"; leaf k {type decimal64 {fraction-digits 2;}} leaf v {type string;} leaf v2 {type string;} leaf v3 {type string;}}\n"
"  leaf-list big {type int64;}\n"
" }\n"
"}\n";

/* submodules served through the import callback: module lfe<k> (sent by the generator as a `ymod` text) includes lfesub<k>, which
 * imports the base module of set k under a prefix of ITS OWN and derives identities from its base identity (seed C17r3: the revert
 * of a failed load has to unlink them from the surviving base) */
static const char *S_LFESUB[3] = {
"submodule lfesub0 {yang-version 1.1; belongs-to lfe0 {prefix e;} import lfa {prefix q;}\n"
" identity es1 {base q:base-id;} identity es2 {base q:id-a;} identity es3 {base es1;}}\n",
"submodule lfesub1 {yang-version 1.1; belongs-to lfe1 {prefix e;} import lfb {prefix q;}\n"
" identity es1 {base q:proto;} identity es2 {base q:proto;} identity es3 {base es1;}}\n",
"submodule lfesub2 {yang-version 1.1; belongs-to lfe2 {prefix e;} import lfd {prefix q;}\n"
" identity es1 {base q:kind;} identity es2 {base q:k1;} identity es3 {base es1;}}\n",
};

static LY_ERR
life_imp_clb(const char *mod_name, const char *mod_rev, const char *submod_name, const char *submod_rev, void *user_data,
        LYS_INFORMAT *format, const char **module_data, ly_module_imp_data_free_clb *free_module_data)
{
    int k;

    (void)mod_name; (void)mod_rev; (void)submod_rev; (void)user_data;
    if (submod_name && !strncmp(submod_name, "lfesub", 6) && (submod_name[6] >= '0') && (submod_name[6] <= '2') && !submod_name[7]) {
        k = submod_name[6] - '0';
        *format = LYS_IN_YANG;
        *module_data = S_LFESUB[k];
        *free_module_data = NULL;
        return LY_SUCCESS;
    }
    return LY_ENOTFOUND;
}

#define NSETS 3
static const char *const *
schema_set(int n, int *cnt)
{
    static const char *s0[1], *s1[2], *s2[1];

    s0[0] = S_LFA; s1[0] = S_LFB; s1[1] = S_LFC; s2[0] = S_LFD;
    switch (n) {
    case 0: *cnt = 1; return s0;
    case 1: *cnt = 2; return s1;
    case 2: *cnt = 1; return s2;
    }
    *cnt = 0;
    return NULL;
}

/* ------------------------------------------------------------------------------------------------------------ */
/* state of one history */

static struct ly_ctx *ctx;
static struct lyd_node *slot[NSLOT];
static struct lyd_node *ghost[MAXGHOST];
static int nghost;
static long base_rec, base_ref;
static int n_warn, n_eint, n_onn, n_integ, n_lost, n_mid, n_left;
static int debug;       /* VERIF_LIFE_DEBUG=1: log messages and op trace on stderr, =2: also every slot after every op */

static void
logcb(LY_LOG_LEVEL level, const char *msg, const char *data_path, const char *schema_path, uint64_t line)
{
    (void)level; (void)data_path; (void)schema_path; (void)line;
    if (!msg) {
        return;
    }
    if (debug) {
        fprintf(stderr, "LOG[%d] %s (%s)\n", (int)level, msg, data_path ? data_path : (schema_path ? schema_path : ""));
    }
    if (strstr(msg, "not freed from the dictionary")) {
        n_warn++;
    }
    if (strstr(msg, "Internal error")) {
        n_eint++;
    }
}

static void
dict_measure(const struct ly_ctx *c, long *recs, long *refs)
{
    struct ly_ht *ht = c->dict.hash_tab;
    struct ly_ht_rec *rec;
    uint32_t hlist_idx, rec_idx;
    long r = 0, s = 0;

    LYHT_ITER_ALL_RECS(ht, hlist_idx, rec_idx, rec) {
        struct ly_dict_rec *d = (struct ly_dict_rec *)rec->val;

        r++;
        s += d->refcount;
    }
    *recs = r;
    *refs = s;
}

/* per-op temporary allocations */
static void *tmp[64];
static int ntmp;

static void *
keep(void *p)
{
    if (p && (ntmp < 64)) {
        tmp[ntmp++] = p;
    }
    return p;
}

static void
tmp_free(void)
{
    while (ntmp) {
        free(tmp[--ntmp]);
    }
}

struct op {
    char *arg[MAXARG];
    int n;
};

/* string argument: "~" NULL, "-" "", else hex; *len optional */
static char *
A_s(const struct op *o, int i, size_t *len)
{
    char *s;

    if (len) {
        *len = 0;
    }
    if ((i >= o->n) || !strcmp(o->arg[i], "~")) {
        return NULL;
    }
    s = vp_unhex(o->arg[i], len);
    return keep(s);
}

static long
A_i(const struct op *o, int i)
{
    return i < o->n ? strtol(o->arg[i], NULL, 10) : 0;
}

static int
A_slot(const struct op *o, int i)
{
    long v = A_i(o, i);

    return (int)(((v % NSLOT) + NSLOT) % NSLOT);
}

/* ------------------------------------------------------------------------------------------------------------ */
/* tree helpers */

static struct lyd_node *
top_of(struct lyd_node *n)
{
    while (n && n->parent) {
        n = lyd_parent(n);
    }
    return n;
}

static struct lyd_node *
home(struct lyd_node *n)
{
    return n ? lyd_first_sibling(top_of(n)) : NULL;
}

static int
in_subtree(const struct lyd_node *root, const struct lyd_node *n)
{
    for ( ; n; n = lyd_parent(n)) {
        if (n == root) {
            return 1;
        }
    }
    return 0;
}

static long
count_nodes(struct lyd_node *first)
{
    struct lyd_node *root, *elem;
    long c = 0;

    LY_LIST_FOR(first, root) {
        LYD_TREE_DFS_BEGIN(root, elem) {
            c++;
            LYD_TREE_DFS_END(root, elem);
        }
    }
    return c;
}

/* what a selector asks for: '#' any node, '%' opaque nodes, '$' non-key leaves, '*' leaf-list instances and list keys,
 * '!' anydata/anyxml nodes, '@' inner nodes, '^' nodes with metadata */
static int
sel_match(const struct lyd_node *n, char kind)
{
    switch (kind) {
    case '#': return 1;
    case '%': return !n->schema;
    case '$': return n->schema && (n->schema->nodetype == LYS_LEAF) && !(n->schema->flags & LYS_KEY);
    case '*': return n->schema && ((n->schema->nodetype == LYS_LEAFLIST) || ((n->schema->nodetype == LYS_LEAF) && (n->schema->flags & LYS_KEY)));
    case '!': return n->schema && (n->schema->nodetype & LYD_NODE_ANY);
    case '@': return n->schema && (n->schema->nodetype & LYD_NODE_INNER);
    case '^': return n->schema && n->meta;
    }
    return 0;
}

static struct lyd_node *
kth_node(struct lyd_node *first, char kind, long k)
{
    struct lyd_node *root, *elem;
    long c = 0;

    LY_LIST_FOR(first, root) {
        LYD_TREE_DFS_BEGIN(root, elem) {
            c += sel_match(elem, kind);
            LYD_TREE_DFS_END(root, elem);
        }
    }
    if (!c) {
        return NULL;
    }
    k = ((k % c) + c) % c;
    LY_LIST_FOR(first, root) {
        LYD_TREE_DFS_BEGIN(root, elem) {
            if (sel_match(elem, kind) && !k--) {
                return elem;
            }
            LYD_TREE_DFS_END(root, elem);
        }
    }
    return NULL;
}

/* node selector in slot s */
static struct lyd_node *
sel(int s, const char *how)
{
    struct lyd_node *m = NULL;

    if (!slot[s] || !how) {
        return NULL;
    }
    if (strchr("#%$*!@^", how[0]) && how[0]) {
        return kth_node(slot[s], how[0], strtol(how + 1, NULL, 10));
    }
    if (lyd_find_path(slot[s], how, 0, &m) && lyd_find_path(slot[s], how, 1, &m)) {
        return NULL;
    }
    return m;
}

/* put a tree the caller now owns into slot s (freeing what was there) or into any free slot (s < 0); free it when full */
static void
adopt(int s, struct lyd_node *tree)
{
    int i;

    if (!tree) {
        return;
    }
    tree = home(tree);
    for (i = 0; i < NSLOT; i++) {
        if (slot[i] == tree) {
            return;
        }
    }
    if (s >= 0) {
        if (slot[s]) {
            lyd_free_all(slot[s]);
        }
        slot[s] = tree;
        return;
    }
    for (i = 0; i < NSLOT; i++) {
        if (!slot[i]) {
            slot[i] = tree;
            return;
        }
    }
    lyd_free_all(tree);
}

static void
free_slots(void)
{
    int i;

    for (i = 0; i < nghost; i++) {
        lyd_free_all(ghost[i]);
    }
    nghost = 0;
    for (i = 0; i < NSLOT; i++) {
        lyd_free_all(slot[i]);
        slot[i] = NULL;
    }
}

/* remember the instance as it is now, so that later sibling lookups ask for the value it used to have */
static void
add_ghost(const struct lyd_node *n)
{
    struct lyd_node *g = NULL;

    if (!n || !n->schema || (nghost == MAXGHOST)) {
        return;
    }
    if (n->schema->nodetype == LYS_LEAF) {
        if (!(n->schema->flags & LYS_KEY) || !n->parent) {
            return;
        }
        n = lyd_parent(n);
    } else if (n->schema->nodetype != LYS_LEAFLIST) {
        return;
    }
    if (!lyd_dup_single(n, NULL, LYD_DUP_NO_META, &g) && g) {
        ghost[nghost++] = g;
    }
}

static void
probe_ghosts(struct lyd_node *siblings, const struct lysc_node *sparent)
{
    struct lyd_node *m;
    int i;

    if (!siblings) {
        return;
    }
    for (i = 0; i < nghost; i++) {
        if (lysc_data_parent(ghost[i]->schema) == sparent) {
            lyd_find_sibling_first(siblings, ghost[i], &m);
        }
    }
}

/* integrity walk over everything alive: touch every node and every value, check the links, exercise the children
 * hash tables with the present and the remembered former instances */
static void
integrity(void)
{
    struct lyd_node *root, *elem, *m, *ch;
    volatile size_t sink = 0;
    int s;

    for (s = 0; s < NSLOT; s++) {
        if (!slot[s]) {
            continue;
        }
        if (slot[s]->parent || slot[s]->prev->next) {
            n_integ++;      /* a slot must hold a first top-level sibling */
        }
        probe_ghosts(slot[s], slot[s]->schema ? lysc_data_parent(slot[s]->schema) : NULL);
        LY_LIST_FOR(slot[s], root) {
            LYD_TREE_DFS_BEGIN(root, elem) {
                if (elem->next && (elem->next->prev != elem)) {
                    n_integ++;
                }
                if (!elem->next && (lyd_first_sibling(elem)->prev != elem)) {
                    n_integ++;
                }
                if (elem->schema) {
                    sink += strlen(elem->schema->name);
                    if (elem->schema->nodetype & LYD_NODE_TERM) {
                        const char *v = lyd_get_value(elem);

                        sink += v ? strlen(v) : 0;
                    } else if (elem->schema->nodetype & LYD_NODE_INNER) {
                        LY_LIST_FOR(lyd_child(elem), ch) {
                            if (lyd_parent(ch) != elem) {
                                n_integ++;
                            }
                        }
                        probe_ghosts(lyd_child(elem), elem->schema);
                    }
                    if ((elem->schema->nodetype & (LYS_LIST | LYS_LEAFLIST)) &&
                            !((elem->schema->nodetype == LYS_LIST) && !(elem->schema->flags & LYS_KEYLESS) &&
                            !lyd_child(elem))) {
                        m = NULL;
                        if (lyd_find_sibling_first(lyd_first_sibling(elem), elem, &m) || !m) {
                            n_lost++;
                        }
                    }
                    for (struct lyd_meta *mt = elem->meta; mt; mt = mt->next) {
                        const char *v = lyd_get_meta_value(mt);

                        sink += v ? strlen(v) : 0;
                    }
                } else {
                    const struct lyd_node_opaq *oq = (const struct lyd_node_opaq *)elem;

                    sink += oq->name.name ? strlen(oq->name.name) : 0;
                    sink += oq->value ? strlen(oq->value) : 0;
                }
                LYD_TREE_DFS_END(root, elem);
            }
        }
    }
    (void)sink;
}

/* all trees freed: the dictionary must be back at the baseline */
static void
check_mid(void)
{
    long r, s;

    free_slots();
    dict_measure(ctx, &r, &s);
    if ((r != base_rec) || (s != base_ref)) {
        n_mid++;
    }
}

/* output must be NULL when the call failed */
#define OUT_CHECK(rc, out) do { if ((rc) && (out)) { n_onn++; } } while (0)

static const struct lys_module *
modarg(const char *name)
{
    return name ? ly_ctx_get_module_implemented(ctx, name) : NULL;
}

/* would lyd_new_term(parent, mod, name) add a key leaf to an existing list instance? */
static int
new_is_key(const struct lyd_node *par, const struct lys_module *mod, const char *name)
{
    const struct lysc_node *sn;

    if (!par || !par->schema || (par->schema->nodetype != LYS_LIST)) {
        return 0;
    }
    sn = lys_find_child(par->schema, mod ? mod : par->schema->module, name, 0, LYS_LEAF, 0);
    return sn && (sn->flags & LYS_KEY);
}

/* a key leaf that sits in its list instance: creating, moving or removing it alone leaves a list instance that the
 * sorted-list and hash code cannot handle (outside the API contract; not exercised) */
static int
is_placed_key(const struct lyd_node *n)
{
    return n && n->schema && (n->schema->flags & LYS_KEY) && n->parent;
}

static int
in_keyed_list(const struct lyd_node *n)
{
    return n && n->parent && n->parent->schema && (n->parent->schema->nodetype == LYS_LIST) && !(n->parent->schema->flags & LYS_KEYLESS);
}

/* sibling ring sane? (bounded walk; a node linked to itself is what F112 leaves behind) */
static int
ring_broken(const struct lyd_node *n)
{
    const struct lyd_node *it;
    long steps = 0;

    for (it = n; it->prev->next; it = it->prev) {
        if (++steps > 100000) {
            return 1;
        }
    }
    for (it = n; it->next; it = it->next) {
        if (++steps > 200000) {
            return 1;
        }
    }
    return 0;
}

static int
is_inner(const struct lyd_node *n)
{
    return n && n->schema && (n->schema->nodetype & LYD_NODE_INNER);
}

/* ------------------------------------------------------------------------------------------------------------ */
/* ops */

static int sfail_idx[MAXOPS], n_sfail;

static int
do_op(const struct op *o, int idx)
{
    const char *name = o->arg[0];
    LY_ERR rc = LY_SUCCESS;

#define IS(x) (!strcmp(name, x))

    /* ---------------- context / schema ops: only with no live tree ---------------- */
    if (IS("ymod") || IS("lmod") || IS("impl") || IS("yinself")) {
        long r0, s0, r1, s1;
        struct lys_module *m = NULL;

        check_mid();
        dict_measure(ctx, &r0, &s0);
        if (IS("ymod")) {
            char *text = A_s(o, 2, NULL);

            if (!text) return -1;
            rc = lys_parse_mem(ctx, text, A_i(o, 1) ? LYS_IN_YIN : LYS_IN_YANG, &m);
            OUT_CHECK(rc, m);
        } else if (IS("lmod")) {
            char *mn = A_s(o, 1, NULL), *rev = A_s(o, 2, NULL);

            if (!mn) return -1;
            rc = ly_ctx_load_module(ctx, mn, (rev && rev[0]) ? rev : NULL, NULL) ? LY_SUCCESS : LY_ENOTFOUND;
        } else if (IS("impl")) {
            char *mn = A_s(o, 1, NULL), *fl = A_s(o, 2, NULL);
            const char *feats[8];
            int nf = 0;
            struct lys_module *mod = mn ? ly_ctx_get_module_latest(ctx, mn) : NULL;

            if (!mod) return -1;
            if (fl) {
                char *save = NULL, *p;

                for (p = strtok_r(fl, ",", &save); p && (nf < 7); p = strtok_r(NULL, ",", &save)) {
                    feats[nf++] = p;
                }
            }
            feats[nf] = NULL;
            rc = lys_set_implemented(mod, fl ? feats : NULL);
        } else {
            /* print a module of this context and parse the text back (YANG or YIN) */
            char *mn = A_s(o, 1, NULL), *text = NULL;
            int yin = A_i(o, 2) ? 1 : 0;
            const struct lys_module *mod = mn ? ly_ctx_get_module_latest(ctx, mn) : NULL;

            if (!mod) return -1;
            if (lys_print_mem(&text, mod, yin ? LYS_OUT_YIN : LYS_OUT_YANG, 0) || !text) {
                free(text);
                return -1;
            }
            dict_measure(ctx, &r0, &s0);
            rc = lys_parse_mem(ctx, text, yin ? LYS_IN_YIN : LYS_IN_YANG, &m);
            OUT_CHECK(rc, m);
            free(text);
        }
        dict_measure(ctx, &r1, &s1);
        if (rc && ((r0 != r1) || (s0 != s1)) && (n_sfail < MAXOPS)) {
            sfail_idx[n_sfail++] = idx;
        }
        base_rec = r1;
        base_ref = s1;
        return rc;
    }

    if (IS("ec")) {
        ly_err_clean(ctx, NULL);
        return 0;
    }

    if (IS("culr")) {
        /* culr   ly_ctx_unset_options(LY_CTX_LEAFREF_LINKING) while linked data are alive (all link records are released), then set it again */
        if (!(ly_ctx_get_options(ctx) & LY_CTX_LEAFREF_LINKING)) return -1;
        rc = ly_ctx_unset_options(ctx, LY_CTX_LEAFREF_LINKING);
        if (!rc) rc = ly_ctx_set_options(ctx, LY_CTX_LEAFREF_LINKING);
        return rc;
    }

    if (IS("zc")) {
        /* lydict_insert_zc consumes the malloc'd string, also when the string is already present */
        char *v = A_s(o, 1, NULL);
        long k = A_i(o, 2), i;
        const char *p = NULL, *q = NULL;

        if (!v) return -1;
        k = k < 1 ? 1 : (k > 8 ? 8 : k);
        for (i = 0; i < k; i++) {
            rc = lydict_insert_zc(ctx, strdup(v), &p);
            if (rc) return rc;
        }
        rc = lydict_insert(ctx, v, 0, &q);
        if (rc || (p != q)) return rc ? rc : LY_EOTHER;
        rc = lydict_dup(ctx, q, &q);
        for (i = 0; i < k + 2; i++) {
            rc = lydict_remove(ctx, p);
            if (rc) return rc;
        }
        return 0;
    }

    if (IS("vv")) {
        /* lyd_value_validate: canonical comes back as a dictionary reference owned by the caller */
        char *sp = A_s(o, 1, NULL), *v = A_s(o, 2, NULL);
        const struct lysc_node *sn = sp ? lys_find_path(ctx, NULL, sp, 0) : NULL;
        const char *canon = NULL;
        struct lyd_node *cn = (o->n > 4) ? sel(A_slot(o, 3), A_s(o, 4, NULL)) : NULL;

        if (!sn || !(sn->nodetype & LYD_NODE_TERM) || !v) return -1;
        rc = lyd_value_validate(ctx, sn, v, strlen(v), cn, NULL, &canon);
        if (canon && (!rc || (rc == LY_EINCOMPLETE))) {
            lydict_remove(ctx, canon);
        } else {
            OUT_CHECK(rc, canon);
        }
        return rc;
    }

    /* ---------------- parsers ---------------- */
    if (IS("px") || IS("pin")) {
        /* px:s:fmt:popts:vopts:doc   lyd_parse_data_mem  |  pin: the same through ly_in_new_memory + lyd_parse_data */
        int s = A_slot(o, 1);
        long fmt = A_i(o, 2);
        uint32_t popts = (uint32_t)A_i(o, 3) & ~(uint32_t)LYD_PARSE_ORDERED, vopts = (uint32_t)A_i(o, 4);
        char *doc = A_s(o, 5, NULL);
        struct lyd_node *tree = NULL;

        if (!doc) return -1;
        if (IS("px")) {
            rc = lyd_parse_data_mem(ctx, doc, fmt ? LYD_JSON : LYD_XML, popts, vopts, &tree);
        } else {
            struct ly_in *in = NULL;

            if (ly_in_new_memory(doc, &in)) return -1;
            rc = lyd_parse_data(ctx, NULL, in, fmt ? LYD_JSON : LYD_XML, popts, vopts, &tree);
            ly_in_free(in, 0);
        }
        OUT_CHECK(rc, tree);
        if (tree) {
            adopt(s, tree);
        }
        return rc;
    }
    if (IS("pinp")) {
        /* pinp:s:nsel:fmt:popts:vopts:doc[:notree]   parse a subtree document under an existing parent; notree = 1: no output pointer */
        int s = A_slot(o, 1);
        struct lyd_node *par = sel(s, A_s(o, 2, NULL)), *first = NULL;
        long fmt = A_i(o, 3);
        uint32_t popts = (uint32_t)A_i(o, 4) & ~(uint32_t)LYD_PARSE_ORDERED, vopts = (uint32_t)A_i(o, 5);
        char *doc = A_s(o, 6, NULL);
        int notree = (o->n > 7) && A_i(o, 7);
        struct ly_in *in = NULL;
        struct lyd_node *ch;
        long before = 0, after = 0;

        if (!doc || !is_inner(par)) return -1;
        if (ly_in_new_memory(doc, &in)) return -1;
        LY_LIST_FOR(lyd_child(par), ch) before += !(ch->flags & LYD_DEFAULT);
        rc = lyd_parse_data(ctx, par, in, fmt ? LYD_JSON : LYD_XML, popts, vopts, notree ? NULL : &first);
        ly_in_free(in, 0);
        LY_LIST_FOR(lyd_child(par), ch) after += !(ch->flags & LYD_DEFAULT);
        if (rc && (after > before)) n_left++;     /* a failed call frees what it parsed (explicit nodes; default ones may stay) */
        OUT_CHECK(rc, first);
        if (!rc && first && (lyd_parent(first) != par)) n_onn++;     /* documented: the first parsed child */
        slot[s] = home(par);
        return rc;
    }
    if (IS("pop")) {
        /* pop:s:fmt:dtype:doc[:ps:pnsel]   lyd_parse_op; envelope/tree to slot s, a separate op tree to a free slot */
        int s = A_slot(o, 1);
        long fmt = A_i(o, 2), dt = A_i(o, 3);
        char *doc = A_s(o, 4, NULL);
        struct lyd_node *tree = NULL, *opn = NULL, *par = NULL;
        struct ly_in *in = NULL;
        enum lyd_type t;
        int ps = -1;

        if (!doc) return -1;
        switch (dt) {
        case 1: t = LYD_TYPE_RPC_YANG; break;
        case 2: t = LYD_TYPE_NOTIF_YANG; break;
        case 3: t = LYD_TYPE_REPLY_YANG; break;
        case 4: t = LYD_TYPE_RPC_NETCONF; fmt = 0; break;
        case 5: t = LYD_TYPE_NOTIF_NETCONF; fmt = 0; break;
        default: return -1;
        }
        if (o->n > 6) {
            ps = A_slot(o, 5);
            par = sel(ps, A_s(o, 6, NULL));
            if (!par || (par->schema && !(par->schema->nodetype & LYD_NODE_INNER))) return -1;
            if ((t == LYD_TYPE_RPC_NETCONF) || (t == LYD_TYPE_NOTIF_NETCONF)) return -1;
        }
        if (ly_in_new_memory(doc, &in)) return -1;
        rc = lyd_parse_op(ctx, par, in, fmt ? LYD_JSON : LYD_XML, t, &tree, &opn);
        ly_in_free(in, 0);
        if (par) {
            slot[ps] = home(par);
            if (tree) n_onn++;      /* documented: set to NULL when parent is given */
        } else if ((t == LYD_TYPE_RPC_NETCONF) || (t == LYD_TYPE_NOTIF_NETCONF)) {
            /* envelopes may be returned even on failure */
            if (rc && opn) n_onn++;
            if (tree) adopt(s, tree);
            if (opn && (home(opn) != home(tree))) adopt(-1, opn);
        } else {
            OUT_CHECK(rc, tree);
            if (tree) adopt(s, tree);
        }
        return rc;
    }

    /* ---------------- constructors ---------------- */
    if (IS("np")) {
        /* np:s:opts:path:value   lyd_new_path with the slot's first sibling as parent (or NULL for an empty slot) */
        int s = A_slot(o, 1);
        uint32_t opts = (uint32_t)A_i(o, 2) & ~(uint32_t)LYD_NEW_VAL_CANON;
        char *path = A_s(o, 3, NULL), *val = A_s(o, 4, NULL);
        struct lyd_node *node = NULL;

        if (!path) return -1;
        if (opts & LYD_NEW_VAL_BIN) return -1;
        /* a slot may hold an unlinked nested subtree: new top-level nodes would be linked next to it unchecked */
        if (slot[s] && slot[s]->schema && lysc_data_parent(slot[s]->schema) && (path[0] == '/')) return -1;
        rc = lyd_new_path(slot[s], ctx, path, val, opts, &node);
        OUT_CHECK(rc, node);
        if (slot[s]) {
            slot[s] = lyd_first_sibling(slot[s]);
        } else if (node) {
            adopt(s, node);
        }
        return rc;
    }
    if (IS("np2")) {
        /* np2:s:nsel:opts:path:value:anytype   lyd_new_path2 with any node of the slot as parent */
        int s = A_slot(o, 1);
        struct lyd_node *par = sel(s, A_s(o, 2, NULL)), *np = NULL, *nn = NULL;
        uint32_t opts = (uint32_t)A_i(o, 3) & ~(uint32_t)(LYD_NEW_VAL_CANON | LYD_NEW_VAL_BIN | LYD_NEW_ANY_USE_VALUE);
        size_t vl;
        char *path = A_s(o, 4, NULL), *val = A_s(o, 5, &vl);
        long at = A_i(o, 6);

        if (!path || (!par && slot[s])) return -1;
        if (path[0] == '/') {
            /* absolute path: the library links a new top-level node next to `parent` without looking where that is */
            par = slot[s];
            if (par && par->schema && lysc_data_parent(par->schema)) return -1;
        } else if (!is_inner(par)) {
            return -1;
        }
        if ((at < 1) || (at > 3)) at = 1;       /* STRING / XML / JSON */
        rc = lyd_new_path2(par, ctx, path, val, vl, (LYD_ANYDATA_VALUETYPE)at, opts, &np, &nn);
        if (rc && (np || nn)) n_onn++;
        if (slot[s]) {
            slot[s] = home(slot[s]);
        } else if (np) {
            adopt(s, np);
        }
        return rc;
    }
    if (IS("ni") || IS("nl") || IS("nlv") || IS("nt") || IS("ntb") || IS("na") || IS("nad") || IS("no")) {
        /* common head  <op>:s:nsel(~ = top level):mod(~):name:...  */
        int s = A_slot(o, 1);
        char *how = A_s(o, 2, NULL), *mn = A_s(o, 3, NULL), *nm = A_s(o, 4, NULL);
        struct lyd_node *par = how ? sel(s, how) : NULL, *node = NULL;
        const struct lys_module *mod = modarg(mn);
        int consumed_slot = -1;

        if (!nm || (how && !par)) return -1;
        if (!par && !mod && !IS("no")) return -1;
        if (par && !IS("no") && !is_inner(par)) return -1;        /* documented precondition: parent is an inner node */

        if (IS("ni")) {
            rc = lyd_new_inner(par, mod, nm, A_i(o, 5) ? 1 : 0, &node);
        } else if (IS("nl")) {
            /* nl:...:opts:keys-predicate   lyd_new_list2 */
            uint32_t opts = (uint32_t)A_i(o, 5) & (LYD_NEW_VAL_OUTPUT | LYD_NEW_VAL_STORE_ONLY);

            rc = lyd_new_list2(par, mod, nm, A_s(o, 6, NULL), opts, &node);
        } else if (IS("nlv")) {
            /* nlv:...:opts:k1:k2:k3   lyd_new_list (varargs); exactly as many values as the list has keys are passed */
            uint32_t opts = (uint32_t)A_i(o, 5) & (LYD_NEW_VAL_OUTPUT | LYD_NEW_VAL_STORE_ONLY);
            const struct lysc_node *sn = lys_find_child(par ? par->schema : NULL, mod ? mod : par->schema->module, nm, 0,
                    LYS_LIST, (opts & LYD_NEW_VAL_OUTPUT) ? LYS_GETNEXT_OUTPUT : 0), *k;
            const char *kv[3];
            int nk = 0, i;

            if (!sn) {
                rc = lyd_new_list(par, mod, nm, opts, &node);       /* not a list: no varargs are read */
            } else {
                for (k = lysc_node_child(sn); k && (k->flags & LYS_KEY); k = k->next) {
                    nk++;
                }
                if (nk > 3) return -1;
                for (i = 0; i < 3; i++) {
                    kv[i] = A_s(o, 6 + i, NULL);
                    if (!kv[i]) kv[i] = "";
                }
                switch (nk) {
                case 0: rc = lyd_new_list(par, mod, nm, opts, &node); break;
                case 1: rc = lyd_new_list(par, mod, nm, opts, &node, kv[0]); break;
                case 2: rc = lyd_new_list(par, mod, nm, opts, &node, kv[0], kv[1]); break;
                default: rc = lyd_new_list(par, mod, nm, opts, &node, kv[0], kv[1], kv[2]); break;
                }
            }
        } else if (IS("nt")) {
            uint32_t opts = (uint32_t)A_i(o, 5) & (LYD_NEW_VAL_OUTPUT | LYD_NEW_VAL_STORE_ONLY);

            if (new_is_key(par, mod, nm)) return -1;
            rc = lyd_new_term(par, mod, nm, A_s(o, 6, NULL), opts, &node);
        } else if (IS("ntb")) {
            uint32_t opts = (uint32_t)A_i(o, 5) & (LYD_NEW_VAL_OUTPUT | LYD_NEW_VAL_STORE_ONLY);
            size_t vl;
            char *v = A_s(o, 6, &vl);

            if (!v || new_is_key(par, mod, nm)) return -1;
            if (A_i(o, 7)) {
                rc = lyd_new_term(par, mod, nm, v, opts | LYD_NEW_VAL_BIN, &node);     /* length taken by strlen */
            } else {
                rc = lyd_new_term_bin(par, mod, nm, v, vl, opts, &node);
            }
        } else if (IS("na")) {
            /* na:...:vtype(1 string,2 xml,3 json):use:value   with use=1 the malloc'd value is handed over;
             * tree_data.h only says "use dynamic value or make a copy": on failure the caller still owns it */
            long vt = A_i(o, 5), use = A_i(o, 6);
            char *v = A_s(o, 7, NULL), *dyn;

            if (!v || (vt < 1) || (vt > 3)) return -1;
            if (use) {
                dyn = strdup(v);
                rc = lyd_new_any(par, mod, nm, dyn, (LYD_ANYDATA_VALUETYPE)vt, LYD_NEW_ANY_USE_VALUE, &node);
                if (rc) free(dyn);
            } else {
                rc = lyd_new_any(par, mod, nm, v, (LYD_ANYDATA_VALUETYPE)vt, 0, &node);
            }
        } else if (IS("nad")) {
            /* nad:...:use:b   value = the data tree of slot b (handed over with use=1, copied otherwise) */
            long use = A_i(o, 5);
            int b = A_slot(o, 6);

            if (!slot[b] || (b == s)) return -1;
            rc = lyd_new_any(par, mod, nm, slot[b], LYD_ANYDATA_DATATREE, use ? LYD_NEW_ANY_USE_VALUE : 0, &node);
            if (!rc && use) consumed_slot = b;
        } else {
            /* no:s:nsel:modname:name:value:prefix:xml   lyd_new_opaq / lyd_new_opaq2 */
            char *v = A_s(o, 5, NULL), *pf = A_s(o, 6, NULL);

            if (!mn) return -1;
            if (A_i(o, 7)) {
                rc = lyd_new_opaq2(par, ctx, nm, v, pf, mn, &node);
            } else {
                rc = lyd_new_opaq(par, ctx, nm, v, pf, mn, &node);
            }
        }
        OUT_CHECK(rc, node);
        if (consumed_slot >= 0) {
            slot[consumed_slot] = NULL;
        }
        if (node && !par) {
            /* a new top-level tree: join the slot's siblings when that is allowed, else own slot */
            if (slot[s]) {
                struct lyd_node *first = NULL;

                if (lyd_insert_sibling(slot[s], node, &first)) {
                    adopt(-1, node);
                } else {
                    slot[s] = first;
                }
            } else {
                slot[s] = node;
            }
        } else if (par) {
            slot[s] = home(par);
        }
        return rc;
    }
    if (IS("nm") || IS("nat") || IS("cm") || IS("fm")) {
        int s = A_slot(o, 1);
        struct lyd_node *n = sel(s, A_s(o, 2, NULL));

        if (!n) return -1;
        if (IS("nm")) {
            /* nm:s:nsel:mod(~):name:value:opts */
            struct lyd_meta *meta = NULL;
            uint32_t opts = (uint32_t)A_i(o, 6) & (LYD_NEW_VAL_STORE_ONLY | LYD_NEW_META_CLEAR_DFLT);
            char *nm = A_s(o, 4, NULL);

            if (!nm) return -1;
            rc = lyd_new_meta(ctx, n, modarg(A_s(o, 3, NULL)), nm, A_s(o, 5, NULL), opts, &meta);
            OUT_CHECK(rc, meta);
        } else if (IS("nat")) {
            /* nat:s:nsel:modname(~):name:value:xml   attribute of an opaque node */
            struct lyd_attr *at = NULL;
            char *nm = A_s(o, 4, NULL);

            if (!nm) return -1;
            if (A_i(o, 6)) {
                rc = lyd_new_attr2(n, A_s(o, 3, NULL), nm, A_s(o, 5, NULL), &at);
            } else {
                rc = lyd_new_attr(n, A_s(o, 3, NULL), nm, A_s(o, 5, NULL), &at);
            }
            OUT_CHECK(rc, at);
        } else {
            /* cm:s:nsel:k:value  change  |  fm:s:nsel:k  free the k-th metadata of the node */
            struct lyd_meta *mt;
            long k = A_i(o, 3), c = 0;

            if (!n->schema || !n->meta) return -1;
            for (mt = n->meta; mt; mt = mt->next) c++;
            k = ((k % c) + c) % c;
            for (mt = n->meta; k--; mt = mt->next) {}
            if (IS("cm")) {
                char *v = A_s(o, 4, NULL);

                if (!v) return -1;
                rc = lyd_change_meta(mt, v);
            } else {
                lyd_free_meta_single(mt);
            }
        }
        return rc;
    }

    /* ---------------- value change ---------------- */
    if (IS("ct") || IS("ctb")) {
        /* ct:s:nsel:value:any   lyd_change_term  |  ctb: lyd_change_term_bin.
         * any=0: leaf-list instances and list keys are not touched (-1); value changes that re-index the node in its
         * parent's hash table are generated as a separate stream (known finding F19) */
        int s = A_slot(o, 1);
        struct lyd_node *n = sel(s, A_s(o, 2, NULL));
        size_t vl;
        char *v = A_s(o, 3, &vl);

        if (!n || !v) return -1;
        if (!A_i(o, 4) && n->schema && ((n->schema->nodetype == LYS_LEAFLIST) || (n->schema->flags & LYS_KEY))) return -1;
        add_ghost(n);
        rc = IS("ct") ? lyd_change_term(n, v) : lyd_change_term_bin(n, v, vl);
        /* the changed instance may have moved among its siblings */
        slot[s] = home(n);
        return rc;
    }

    /* ---------------- duplication ---------------- */
    if (IS("ds") || IS("dd")) {
        /* ds:a:nsel:b:psel(~ = no parent):opts   lyd_dup_single  |  dd: lyd_dup_siblings */
        int a = A_slot(o, 1), b = A_slot(o, 3);
        struct lyd_node *n = sel(a, A_s(o, 2, NULL)), *par = NULL, *dup = NULL;
        char *ph = A_s(o, 4, NULL);
        uint32_t opts = (uint32_t)A_i(o, 5) & 0x7f;

        if (!n) return -1;
        if (ph) {
            par = sel(b, ph);
            if (!is_inner(par)) return -1;
            /* without WITH_PARENTS the library does not check that the parent fits (precondition) */
            if (!(opts & LYD_DUP_WITH_PARENTS) && (!n->schema || (lysc_data_parent(n->schema) != par->schema))) return -1;
            /* siblings duplicated into their own sibling list (or below themselves) would be iterated for ever */
            if (IS("dd") && (in_subtree(n, par) || (lyd_parent(n) == par))) return -1;
        }
        if (IS("ds")) {
            rc = lyd_dup_single(n, (struct lyd_node_inner *)par, opts, &dup);
        } else {
            rc = lyd_dup_siblings(n, (struct lyd_node_inner *)par, opts, &dup);
        }
        OUT_CHECK(rc, dup);
        if (par) {
            slot[b] = home(par);
        } else if (dup) {
            adopt(slot[b] ? -1 : b, dup);
        }
        return rc;
    }

    /* ---------------- merge / diff ---------------- */
    if (IS("mt") || IS("ms")) {
        /* mt:a:b:opts   lyd_merge_tree(&slot a, slot b)  |  ms: lyd_merge_siblings.  DESTRUCT spends the source. */
        int a = A_slot(o, 1), b = A_slot(o, 2);
        uint16_t opts = (uint16_t)A_i(o, 3) & 0x7;

        if ((a == b) || !slot[b]) return -1;
        rc = IS("mt") ? lyd_merge_tree(&slot[a], slot[b], opts) : lyd_merge_siblings(&slot[a], slot[b], opts);
        if ((opts & LYD_MERGE_DESTRUCT) && (rc != LY_EINVAL)) {
            /* spent on success and on failure alike; LY_EINVAL = arguments refused before anything was touched */
            slot[b] = NULL;
        }
        if (slot[a]) slot[a] = lyd_first_sibling(slot[a]);
        return rc;
    }
    if (IS("df")) {
        /* df:a:b:d:opts   lyd_diff_siblings -> slot d */
        int a = A_slot(o, 1), b = A_slot(o, 2), d = A_slot(o, 3);
        struct lyd_node *diff = NULL;

        if ((d == a) || (d == b)) return -1;
        rc = lyd_diff_siblings(slot[a], slot[b], (uint16_t)A_i(o, 4) & 1, &diff);
        OUT_CHECK(rc, diff);
        if (diff) adopt(d, diff);
        return rc;
    }
    if (IS("dft")) {
        int a = A_slot(o, 1), b = A_slot(o, 2), d = A_slot(o, 3);
        struct lyd_node *diff = NULL;

        if ((d == a) || (d == b)) return -1;
        rc = lyd_diff_tree(slot[a], slot[b], (uint16_t)A_i(o, 4) & 1, &diff);
        OUT_CHECK(rc, diff);
        if (diff) adopt(d, diff);
        return rc;
    }
    if (IS("da")) {
        /* da:a:d   lyd_diff_apply_all(&slot a, slot d) */
        int a = A_slot(o, 1), d = A_slot(o, 2);

        if ((a == d) || !slot[d]) return -1;
        rc = lyd_diff_apply_all(&slot[a], slot[d]);
        if (slot[a]) slot[a] = lyd_first_sibling(slot[a]);
        return rc;
    }
    if (IS("dr")) {
        int d = A_slot(o, 1), e = A_slot(o, 2);
        struct lyd_node *out = NULL;

        if ((d == e) || !slot[d]) return -1;
        rc = lyd_diff_reverse_all(slot[d], &out);
        OUT_CHECK(rc, out);
        if (out) adopt(e, out);
        return rc;
    }
    if (IS("dm")) {
        /* dm:d:e:opts   lyd_diff_merge_all(&slot d, slot e) */
        int d = A_slot(o, 1), e = A_slot(o, 2);

        if ((d == e) || !slot[e]) return -1;
        rc = lyd_diff_merge_all(&slot[d], slot[e], (uint16_t)A_i(o, 3) & 1);
        if (slot[d]) slot[d] = lyd_first_sibling(slot[d]);
        return rc;
    }

    /* ---------------- validation / implicit nodes ---------------- */
    if (IS("va") || IS("vm") || IS("im") || IS("imt") || IS("vo")) {
        int s = A_slot(o, 1);
        struct lyd_node *diff = NULL;

        /* whole-tree calls need top-level data; a slot may hold an unlinked nested subtree */
        if (!IS("imt") && !IS("vo") && slot[s] && slot[s]->schema && lysc_data_parent(slot[s]->schema)) return -1;
        if (IS("va")) {
            /* va:s:vopts:wantdiff */
            rc = lyd_validate_all(&slot[s], ctx, (uint32_t)A_i(o, 2) & 0x3f, A_i(o, 3) ? &diff : NULL);
        } else if (IS("vm")) {
            const struct lys_module *mod = modarg(A_s(o, 2, NULL));

            if (!mod) return -1;
            rc = lyd_validate_module(&slot[s], mod, (uint32_t)A_i(o, 3) & 0x3f, A_i(o, 4) ? &diff : NULL);
        } else if (IS("im")) {
            rc = lyd_new_implicit_all(&slot[s], ctx, (uint32_t)A_i(o, 2) & 0xf, A_i(o, 3) ? &diff : NULL);
        } else if (IS("imt")) {
            struct lyd_node *n = sel(s, A_s(o, 2, NULL));

            if (!n || !is_inner(n)) return -1;
            rc = lyd_new_implicit_tree(n, (uint32_t)A_i(o, 3) & 0xf, A_i(o, 4) ? &diff : NULL);
        } else {
            /* vo:s:nsel:b:dtype   lyd_validate_op(op tree, dependency tree of slot b) */
            struct lyd_node *n = sel(s, A_s(o, 2, NULL));
            int b = A_slot(o, 3);
            long dt = A_i(o, 4);

            if (!n || (b == s) || (dt < 1) || (dt > 3)) return -1;
            rc = lyd_validate_op(n, slot[b], dt == 1 ? LYD_TYPE_RPC_YANG : (dt == 2 ? LYD_TYPE_NOTIF_YANG : LYD_TYPE_REPLY_YANG),
                    A_i(o, 5) ? &diff : NULL);
        }
        if (slot[s]) slot[s] = home(slot[s]);
        /* the diff of a validation is released at once (applying it to the tree it came from builds duplicate default
         * nodes, which is a matter of validation, not of ownership) */
        lyd_free_all(diff);
        return rc;
    }

    /* ---------------- unlink / free ---------------- */
    if (IS("ft") || IS("ul") || IS("fs") || IS("us") || IS("fa")) {
        int s = A_slot(o, 1);
        struct lyd_node *n, *alt;

        if (IS("fa")) {
            if (!slot[s]) return -1;
            lyd_free_all(slot[s]);
            slot[s] = NULL;
            return 0;
        }
        n = sel(s, A_s(o, 2, NULL));
        if (!n) return -1;
        if (is_placed_key(n) || (IS("fs") && in_keyed_list(n))) return -1;
        if (IS("ft")) {
            alt = (n == slot[s]) ? n->next : slot[s];
            lyd_free_tree(n);
            slot[s] = alt;
        } else if (IS("ul")) {
            /* ul:s:nsel:keep   unlink; the detached subtree becomes an own tree (keep) or is freed */
            alt = (n == slot[s]) ? n->next : slot[s];
            rc = lyd_unlink_tree(n);
            if (home(n) != home(alt)) {
                slot[s] = alt;
                if (A_i(o, 3)) {
                    adopt(-1, n);
                } else {
                    lyd_free_all(n);
                }
            }
        } else if (IS("fs")) {
            if (!n->parent) {
                lyd_free_siblings(n);
                slot[s] = NULL;
            } else {
                lyd_free_siblings(n);
            }
        } else {
            /* us: unlink the node with all the following siblings */
            alt = (n == slot[s]) ? NULL : slot[s];
            rc = lyd_unlink_siblings(n);
            if (home(n) != home(alt)) {
                slot[s] = alt;
                adopt(-1, n);
            }
        }
        return rc;
    }

    /* ---------------- insertion ---------------- */
    if (IS("ic") || IS("is") || IS("ib") || IS("ia")) {
        /* i?:a:dsel:b:nsel   insert node (b,nsel) as child of / sibling of / before / after (a,dsel) */
        int a = A_slot(o, 1), b = A_slot(o, 3), i, ntl = 0, whole;
        struct lyd_node *dst = sel(a, A_s(o, 2, NULL)), *n = sel(b, A_s(o, 4, NULL)), *tl[64], *it, *h;

        if (!dst || !n) return -1;
        /* never into the own subtree; a first top-level sibling moves together with its followers */
        if (in_subtree(n, dst)) return -1;
        if ((a == b) && !n->parent && !n->prev->next && n->next) return -1;
        if (is_placed_key(n)) return -1;
        /* F112: lyd_insert_sibling() of the node that is the first sibling of the destination links the node to itself;
         * only the witness (arg 5 = 1) goes there */
        if (IS("is") && (lyd_first_sibling(dst) == n) && (A_i(o, 5) != 1)) return -1;
        /* F153: a first top-level sibling takes its followers along (lyd_move_nodes); into a sibling list that has
         * instances of the same list this ties the ring into a cycle or drops the first destination sibling;
         * only the witness (arg 5 = 2) goes there */
        whole = (!n->parent && !n->prev->next && n->next) ? 1 : 0;
        if (whole && (IS("ic") || IS("is")) && (A_i(o, 5) != 2)) return -1;
        LY_LIST_FOR(slot[b], it) {
            if (ntl < 64) tl[ntl++] = it;
        }
        if (IS("ic")) {
            rc = lyd_insert_child(dst, n);
        } else if (IS("is")) {
            rc = lyd_insert_sibling(dst, n, NULL);
        } else if (IS("ib")) {
            rc = lyd_insert_before(dst, n);
        } else {
            rc = lyd_insert_after(dst, n);
        }
        if (ring_broken(n) || ring_broken(dst)) {
            /* the nodes cannot be reached or freed any more: abandon them (shows up as a leak) */
            n_integ++;
            if (whole || ring_broken(dst)) {
                slot[a] = NULL;
                if (a != b) slot[b] = NULL;
                return rc;
            }
            slot[a] = home(dst);
            if (a != b) {
                slot[b] = NULL;
                for (i = 0; i < ntl; i++) {
                    if ((tl[i] != n) && !ring_broken(tl[i]) && (home(tl[i]) != slot[a])) {
                        slot[b] = home(tl[i]);
                        break;
                    }
                }
            }
            return rc;
        }
        slot[a] = home(dst);
        if (a != b) {
            slot[b] = NULL;
            for (i = 0; i < ntl; i++) {
                h = home(tl[i]);
                if (h != slot[a]) {
                    slot[b] = h;
                    break;
                }
            }
        }
        h = home(n);
        if ((h != slot[a]) && (h != slot[b])) {
            adopt(-1, h);       /* left detached */
        }
        return rc;
    }

    /* ---------------- searches / printers (read only; everything returned is released) ---------------- */
    if (IS("fp") || IS("fx") || IS("ex") || IS("fv") || IS("pth") || IS("di") || IS("avs")) {
        int s = A_slot(o, 1);
        struct lyd_node *n = sel(s, A_s(o, 2, NULL)), *m = NULL;

        if (!n) return -1;
        if (IS("fp")) {
            char *p = A_s(o, 3, NULL);

            if (!p) return -1;
            rc = lyd_find_path(n, p, A_i(o, 4) ? 1 : 0, &m);
            OUT_CHECK(rc && (rc != LY_EINCOMPLETE), m);
        } else if (IS("fx")) {
            char *p = A_s(o, 3, NULL);
            struct ly_set *set = NULL;

            if (!p) return -1;
            rc = lyd_find_xpath(n, p, &set);
            OUT_CHECK(rc, set);
            ly_set_free(set, NULL);
        } else if (IS("ex")) {
            char *p = A_s(o, 3, NULL);
            ly_bool res = 0;

            if (!p) return -1;
            rc = lyd_eval_xpath(n, p, &res);
        } else if (IS("fv")) {
            /* fv:s:nsel:schema-path:value   lyd_find_sibling_val among the siblings of the node */
            char *sp = A_s(o, 3, NULL);
            size_t vl;
            char *v = A_s(o, 4, &vl);
            const struct lysc_node *sn = sp ? lys_find_path(ctx, NULL, sp, 0) : NULL;

            if (!sn) return -1;
            rc = lyd_find_sibling_val(lyd_first_sibling(n), sn, v, v ? vl : 0, &m);
            OUT_CHECK(rc, m);
        } else if (IS("pth")) {
            char *p = lyd_path(n, A_i(o, 3) ? LYD_PATH_STD_NO_LAST_PRED : LYD_PATH_STD, NULL, 0);

            rc = p ? LY_SUCCESS : LY_EMEM;
            free(p);
        } else if (IS("di")) {
            struct ly_set *set = NULL;

            rc = lyd_find_sibling_dup_inst_set(lyd_first_sibling(n), n, &set);
            ly_set_free(set, NULL);
        } else {
            char *str = NULL;

            if (!n->schema || !(n->schema->nodetype & LYD_NODE_ANY)) return -1;
            rc = lyd_any_value_str(n, &str);
            OUT_CHECK(rc, str);
            free(str);
        }
        return rc;
    }
    if (IS("pr") || IS("prn") || IS("rt")) {
        /* pr:s:fmt:popts  print all siblings  |  prn:s:nsel:fmt:popts  one subtree  |  rt:s:d:fmt:popts  print + parse into slot d */
        int s = A_slot(o, 1);
        struct lyd_node *n = slot[s];
        long fmt, po;
        char *buf = NULL;
        LYD_FORMAT f;

        if (IS("prn")) {
            n = sel(s, A_s(o, 2, NULL));
            fmt = A_i(o, 3); po = A_i(o, 4) & ~(long)LYD_PRINT_WITHSIBLINGS;
        } else if (IS("pr")) {
            fmt = A_i(o, 2); po = A_i(o, 3) | LYD_PRINT_WITHSIBLINGS;
        } else {
            fmt = A_i(o, 3); po = A_i(o, 4) | LYD_PRINT_WITHSIBLINGS;
        }
        if (!n) return -1;
        f = fmt == 2 ? LYD_LYB : (fmt ? LYD_JSON : LYD_XML);
        po &= 0xf7;
        rc = lyd_print_mem(&buf, n, f, (uint32_t)po);
        if (IS("rt") && !rc && buf) {
            int d = A_slot(o, 2);
            struct lyd_node *tree = NULL;
            uint32_t popts = (uint32_t)A_i(o, 5) & ~(uint32_t)LYD_PARSE_ORDERED;

            if (d != s) {
                if (f == LYD_LYB) {
                    struct ly_in *in = NULL;

                    /* LYB has embedded zero bytes */
                    ly_in_new_memory(buf, &in);
                    rc = lyd_parse_data(ctx, NULL, in, f, popts, (uint32_t)A_i(o, 6) & 0x3f, &tree);
                    ly_in_free(in, 0);
                } else {
                    rc = lyd_parse_data_mem(ctx, buf, f, popts, (uint32_t)A_i(o, 6) & 0x3f, &tree);
                }
                OUT_CHECK(rc, tree);
                if (tree) adopt(d, tree);
            }
        }
        free(buf);
        return rc;
    }
    if (IS("cmp")) {
        int a = A_slot(o, 1), b = A_slot(o, 2);

        return lyd_compare_siblings(slot[a], slot[b], (uint32_t)A_i(o, 3) & 0x3);
    }
    if (IS("ll")) {
        int s = A_slot(o, 1);

        if (!slot[s]) return -1;
        return lyd_leafref_link_node_tree(slot[s]);
    }
    if (IS("ac") || IS("acs")) {
        /* ac:a:nsel:b:msel  copy the any value of node (b,m) into node (a,n)  |  acs:a:nsel:vtype:str  from a string (~ = only free) */
        int a = A_slot(o, 1);
        struct lyd_node *trg = sel(a, A_s(o, 2, NULL));

        if (!trg || !trg->schema || !(trg->schema->nodetype & LYD_NODE_ANY)) return -1;
        if (IS("ac")) {
            struct lyd_node *src = sel(A_slot(o, 3), A_s(o, 4, NULL));
            struct lyd_node_any *sa = (struct lyd_node_any *)src;

            if (!src || !src->schema || !(src->schema->nodetype & LYD_NODE_ANY) || (src == trg)) return -1;
            /* an anydata node with a non-tree value cannot be printed (F116: the failing print leaks); witness only */
            if ((trg->schema->nodetype == LYS_ANYDATA) && (sa->value_type != LYD_ANYDATA_DATATREE) && !A_i(o, 5)) return -1;
            rc = lyd_any_copy_value(trg, &sa->value, sa->value_type);
        } else {
            union lyd_any_value v;
            long vt = A_i(o, 3);

            v.str = A_s(o, 4, NULL);
            if ((vt < 1) || (vt > 3)) return -1;
            if ((trg->schema->nodetype == LYS_ANYDATA) && v.str && !A_i(o, 5)) return -1;
            rc = lyd_any_copy_value(trg, v.str ? &v : NULL, (LYD_ANYDATA_VALUETYPE)vt);
        }
        return rc;
    }
    return -2;      /* unknown op */
#undef IS
}

/* ------------------------------------------------------------------------------------------------------------ */

/* Contexts are built once per (schema set, options) in the parent; every history runs in a forked child on its own
 * copy-on-write copy, so each history still sees a pristine context (and destroys it). */
#define CTX_OPTS_MASK (LY_CTX_NO_YANGLIBRARY | LY_CTX_SET_PRIV_PARSED | LY_CTX_LEAFREF_EXTENDED | LY_CTX_LEAFREF_LINKING | \
        LY_CTX_REF_IMPLEMENTED | LY_CTX_ALL_IMPLEMENTED)
#define MAXCACHE 32
static struct { int set; uint32_t opts; struct ly_ctx *ctx; long bytes; } cache[MAXCACHE];
static int ncache;

/* Cheap leak pre-check: destroying the context must give back exactly the bytes that destroying a pristine context of the
 * same kind gives back (measured once in the parent); only when the byte balance differs - or on request - the (slow)
 * LeakSanitizer pass runs and decides. A leak always shifts the balance, so nothing is missed by the filter. */
#ifdef __has_feature
# if __has_feature(address_sanitizer)
size_t __sanitizer_get_current_allocated_bytes(void);
#  define HEAP_BYTES() ((long)__sanitizer_get_current_allocated_bytes())
# endif
#endif
#ifndef HEAP_BYTES
# define HEAP_BYTES() 0L
#endif
#define FORCE_LSAN 0x40000000u
static long expect_bytes;

static struct ly_ctx *
new_ctx(int set, uint32_t opts)
{
    struct ly_ctx *c = NULL;
    const char *const *mods;
    int cnt = 0, i;

    if (ly_ctx_new(NULL, opts, &c) || !c) {
        return NULL;
    }
    ly_ctx_set_module_imp_clb(c, life_imp_clb, NULL);
    mods = schema_set(set, &cnt);
    for (i = 0; i < cnt; i++) {
        if (lys_parse_mem(c, mods[i], LYS_IN_YANG, NULL)) {
            ly_ctx_destroy(c);
            return NULL;
        }
    }
    return c;
}

static void
prepare_ctx(int set, uint32_t opts)
{
    int i;

    opts &= CTX_OPTS_MASK;
    for (i = 0; i < ncache; i++) {
        if ((cache[i].set == set) && (cache[i].opts == opts)) {
            return;
        }
    }
    if (ncache < MAXCACHE) {
        struct ly_ctx *c;
        long b1, b2;

        cache[ncache].set = set;
        cache[ncache].opts = opts;
        cache[ncache].ctx = new_ctx(set, opts);
        /* calibration: what the destruction of one more such context releases */
        c = new_ctx(set, opts);
        b1 = HEAP_BYTES();
        ly_ctx_destroy(c);
        b2 = HEAP_BYTES();
        cache[ncache].bytes = b1 - b2;
        ncache++;
    }
}

static struct ly_ctx *
cached_ctx(int set, uint32_t opts)
{
    struct ly_ctx *c;
    int i;

    opts &= CTX_OPTS_MASK;
    for (i = 0; i < ncache; i++) {
        if ((cache[i].set == set) && (cache[i].opts == opts)) {
            c = cache[i].ctx;
            cache[i].ctx = NULL;
            expect_bytes = cache[i].bytes;
            return c;
        }
    }
    expect_bytes = -1;
    return new_ctx(set, opts);
}

/* stderr of a history goes to a scratch file (fd errfd, shared with the parent): the parent passes it on only when the
 * history dies, so the report of a crash is not mixed with LeakSanitizer output of earlier, answered histories */
static int errfd = -1;

/* allocation site of the first reported leak: first frame that is not an allocator / interceptor */
static void
leak_site(int leak, char *buf, size_t size)
{
    static char rep[65536];
    ssize_t n;
    char *p, *q;
    size_t k = 0;
    int frames = 0;

    snprintf(buf, size, "-");
    if (!leak || (errfd < 0)) {
        return;
    }
    n = pread(errfd, rep, sizeof rep - 1, 0);
    if (n <= 0) {
        return;
    }
    rep[n] = 0;
    p = strstr(rep, "leak of ");
    p = p ? strchr(p, '\n') : NULL;
    q = p ? strstr(p, "\n\n") : NULL;
    while (p && (p = strstr(p, " in ")) && (!q || (p < q)) && (frames < 3)) {
        const char *e;

        p += 4;
        if (!strncmp(p, "__interceptor", 13) || !strncmp(p, "malloc", 6) || !strncmp(p, "calloc", 6) || !strncmp(p, "realloc", 7) ||
                !strncmp(p, "strdup", 6) || !strncmp(p, "strndup", 7) || !strncmp(p, "ly_realloc", 10)) {
            continue;
        }
        if (frames++ && (k < size - 1)) {
            buf[k++] = '<';
        }
        for (e = p; *e && (*e != ' ') && (*e != '\n') && (k < size - 1); e++) {
            buf[k++] = *e;
        }
        buf[k] = 0;
    }
}

static void
run_history(const char *id, int set, uint32_t ctxopts, char *script)
{
    static struct op ops[MAXOPS];
    static int rcs[MAXOPS];
    int nops = 0, i, live = 0, leak, heap;
    long a0, a1;
    char leakat[128];
    char *p, *save1 = NULL;
    long r, s;

    memset(slot, 0, sizeof slot);
    nghost = 0;
    n_warn = n_eint = n_onn = n_integ = n_lost = n_mid = n_left = n_sfail = 0;

    for (p = strtok_r(script, ";", &save1); p && (nops < MAXOPS); p = strtok_r(NULL, ";", &save1)) {
        struct op *o = &ops[nops++];
        char *q, *save2 = NULL;

        o->n = 0;
        for (q = strtok_r(p, ":", &save2); q && (o->n < MAXARG); q = strtok_r(NULL, ":", &save2)) {
            o->arg[o->n++] = q;
        }
        if (!o->n) {
            nops--;
        }
    }

    a0 = HEAP_BYTES();
    ctx = cached_ctx(set, ctxopts);
    if (!ctx) {
        vp_reply(id, "err CtxNew");
        return;
    }
    n_eint = 0;
    dict_measure(ctx, &base_rec, &base_ref);

    for (i = 0; i < nops; i++) {
        if (debug) {
            fprintf(stderr, "OP %d %s\n", i, ops[i].arg[0]);
        }
        rcs[i] = do_op(&ops[i], i);
        tmp_free();
        if (debug > 1) {
            int k;

            for (k = 0; k < NSLOT; k++) {
                char *str = NULL;

                if (slot[k] && !lyd_print_mem(&str, slot[k], LYD_XML, LYD_PRINT_WITHSIBLINGS | LYD_PRINT_SHRINK | LYD_PRINT_WD_ALL)) {
                    fprintf(stderr, "   rc=%d slot %d: %s\n", rcs[i], k, str ? str : "");
                }
                free(str);
            }
        }
        integrity();
    }

    for (i = 0; i < NSLOT; i++) {
        live += slot[i] ? 1 : 0;
    }
    free_slots();
    dict_measure(ctx, &r, &s);
    ly_err_clean(ctx, NULL);
    ly_ctx_destroy(ctx);
    ctx = NULL;
    a1 = HEAP_BYTES();
    heap = ((expect_bytes < 0) || (a0 - a1 != expect_bytes)) ? 1 : 0;
    alarm(300);
    leak = (heap || (ctxopts & FORCE_LSAN)) ? VP_LEAKCHECK() : 0;
    leak_site(leak, leakat, sizeof leakat);

    vp_begin(id, "ok");
    fputs(" rc=", stdout);
    for (i = 0; i < nops; i++) {
        fprintf(stdout, "%s%d", i ? "," : "", rcs[i]);
    }
    if (!nops) fputs("-", stdout);
    fprintf(stdout, " drec=%ld dref=%ld mid=%d sfail=", r - base_rec, s - base_ref, n_mid);
    for (i = 0; i < n_sfail; i++) {
        fprintf(stdout, "%s%d", i ? "," : "", sfail_idx[i]);
    }
    if (!n_sfail) fputs("-", stdout);
    fprintf(stdout, " warn=%d eint=%d onn=%d integ=%d lost=%d left=%d live=%d heap=%d leak=%d leakat=%s", n_warn, n_eint, n_onn, n_integ, n_lost, n_left, live, heap, leak ? 1 : 0, leakat);
    vp_end();
}

/* A sanitizer report is long and vcheck keeps only the tail of stderr: repeat kind and the innermost frames of the first
 * stack in one canonical line at the very end. */
#ifdef __has_feature
# if __has_feature(address_sanitizer)
void __asan_set_error_report_callback(void (*cb)(const char *));
static void
asan_report_cb(const char *rep)
{
    char line[1600];
    size_t n = 0;
    const char *p = strstr(rep, "ERROR: AddressSanitizer: "), *q, *e;
    int frames = 0;

    n += snprintf(line + n, sizeof line - n, "\nVERIF ERROR: AddressSanitizer: ");
    if (p) {
        p += strlen("ERROR: AddressSanitizer: ");
        for (q = p; *q && (*q != ' ') && (*q != '\n') && (n < 100); q++) {
            line[n++] = *q;
        }
    }
    n += snprintf(line + n, sizeof line - n, " frames=");
    /* the first stack ends at the first empty line */
    e = p ? strstr(p, "\n\n") : NULL;
    for (q = p; q && (q = strstr(q, " in ")) && (!e || (q < e)) && (frames < 14); ) {
        q += 4;
        if (frames++) {
            line[n++] = ',';
        }
        while (*q && (*q != ' ') && (*q != '\n') && (n < sizeof line - 8)) {
            line[n++] = *q++;
        }
    }
    /* who freed it (use-after-free): a frame of the harness here means the library kept a pointer into memory of its caller */
    p = strstr(rep, "freed by thread");
    if (p) {
        n += snprintf(line + n, sizeof line - n, " freedby=");
        e = strstr(p, "\n\n");
        frames = 0;
        for (q = p; q && (q = strstr(q, " in ")) && (!e || (q < e)) && (frames < 6); ) {
            q += 4;
            if (frames++) {
                line[n++] = ',';
            }
            while (*q && (*q != ' ') && (*q != '\n') && (n < sizeof line - 8)) {
                line[n++] = *q++;
            }
        }
    }
    line[n++] = '\n';
    if (write(2, line, n)) {}
}
/* UndefinedBehaviorSanitizer has no report callback: on death, read the report back from the scratch file */
void __sanitizer_set_death_callback(void (*cb)(void));
static void
death_cb(void)
{
    static char rep[32768];
    char line[1600];
    ssize_t len;
    size_t n = 0;
    const char *p, *q, *e;
    int frames = 0;

    if (errfd < 0) {
        return;
    }
    len = pread(errfd, rep, sizeof rep - 1, 0);
    if (len <= 0) {
        return;
    }
    rep[len] = 0;
    p = strstr(rep, "runtime error: ");
    if (!p || strstr(rep, "ERROR: AddressSanitizer")) {
        return;
    }
    p += strlen("runtime error: ");
    n += snprintf(line + n, sizeof line - n, "\nVERIF ERROR: UBSan: ");
    for (q = p; *q && (*q != '\n') && (n < 160); q++) {
        line[n++] = ((*q == ' ') || (*q == '\t')) ? '_' : *q;
    }
    n += snprintf(line + n, sizeof line - n, " frames=");
    e = strstr(p, "\n\n");
    for (q = p; q && (q = strstr(q, " in ")) && (!e || (q < e)) && (frames < 10); ) {
        q += 4;
        if (frames++) {
            line[n++] = ',';
        }
        while (*q && (*q != ' ') && (*q != '\n') && (n < sizeof line - 8)) {
            line[n++] = *q++;
        }
    }
    line[n++] = '\n';
    if (write(2, line, n)) {}
}
#  define VP_ASAN_CB() do { __asan_set_error_report_callback(asan_report_cb); __sanitizer_set_death_callback(death_cb); } while (0)
# endif
#endif
#ifndef VP_ASAN_CB
# define VP_ASAN_CB()
#endif

int
main(void)
{
    struct vp_req r = {0};

    VP_ASAN_CB();
    debug = getenv("VERIF_LIFE_DEBUG") ? atoi(getenv("VERIF_LIFE_DEBUG")) : 0;
    if (!debug) {
        char tmpl[] = "/var/tmp/api_life_err_XXXXXX";

        errfd = mkstemp(tmpl);
        if (errfd >= 0) {
            unlink(tmpl);
        }
    }
    ly_set_log_clb(logcb);
    ly_log_options(LY_LOLOG | LY_LOSTORE_LAST);
    ly_log_level(LY_LLWRN);

    while (vp_next(&r)) {
        const char *id = r.tok[0], *op = r.ntok > 2 ? r.tok[2] : "";

        if (r.ntok < 3) { vp_reply(r.ntok ? id : "?", "err BadLine"); continue; }

        if (!strcmp(op, "hist") && (r.ntok == 6)) {
            /* one child per history: the heap of every history starts from the same state, a leak is attributed to the
             * history that made it, and a sanitizer abort takes only this history down (the parent then exits with the
             * child's status so that the orchestrator records the crash for exactly this line) */
            pid_t pid;
            int st = 0;

            prepare_ctx(atoi(r.tok[3]), (uint32_t)strtoul(r.tok[4], NULL, 10));
            fflush(stdout);
            pid = fork();
            if (pid < 0) { vp_reply(id, "err Fork"); continue; }
            if (!pid) {
                alarm(20);
                if (errfd >= 0) {
                    dup2(errfd, 2);
                }
                run_history(id, atoi(r.tok[3]), (uint32_t)strtoul(r.tok[4], NULL, 10), r.tok[5]);
                fflush(stdout);
                _exit(0);
            }
            while ((waitpid(pid, &st, 0) < 0)) {}
            if (WIFEXITED(st) && !WEXITSTATUS(st)) {
                if (errfd >= 0) {
                    if (ftruncate(errfd, 0)) {}
                    lseek(errfd, 0, SEEK_SET);
                }
                continue;
            }
            if (errfd >= 0) {
                /* the history died: its stderr is the report */
                static char buf[65536];
                ssize_t n;
                off_t off = 0;

                while ((n = pread(errfd, buf, sizeof buf, off)) > 0) {
                    if (write(2, buf, n)) {}
                    off += n;
                }
            }
            if (WIFSIGNALED(st)) {
                fprintf(stderr, "\nVERIF ERROR: history killed by signal %d%s\n", WTERMSIG(st), WTERMSIG(st) == SIGALRM ? " (timeout)" : "");
                _exit(128 + WTERMSIG(st));
            }
            /* no exit-time leak check of the parent: its report would bury the child's */
            _exit(WEXITSTATUS(st));
        } else if (!strcmp(op, "schema") && (r.ntok == 4)) {
            int cnt = 0, i;
            const char *const *mods = schema_set(atoi(r.tok[3]), &cnt);

            if (!cnt) { vp_reply(id, "err NoSet"); continue; }
            vp_begin(id, "ok");
            for (i = 0; i < cnt; i++) {
                vp_field_hex(mods[i], strlen(mods[i]));
            }
            vp_end();
        } else if (!strcmp(op, "printset") && (r.ntok == 5)) {
            /* every module of a built-in set printed by the library itself (0 YANG, 1 YIN) */
            int cnt = 0, i, bad = 0;
            const char *const *mods = schema_set(atoi(r.tok[3]), &cnt);
            struct ly_ctx *c = NULL;
            struct lys_module *mod;
            char *text[4] = {0};

            if (!cnt || ly_ctx_new(NULL, 0, &c)) { vp_reply(id, "err NoSet"); continue; }
            for (i = 0; i < cnt; i++) {
                mod = NULL;
                if (lys_parse_mem(c, mods[i], LYS_IN_YANG, &mod) || lys_print_mem(&text[i], mod, atoi(r.tok[4]) ? LYS_OUT_YIN : LYS_OUT_YANG, 0)) bad = 1;
            }
            if (bad) {
                vp_reply(id, "err Print");
            } else {
                vp_begin(id, "ok");
                for (i = 0; i < cnt; i++) vp_field_hex(text[i], strlen(text[i]));
                vp_end();
            }
            for (i = 0; i < cnt; i++) free(text[i]);
            ly_ctx_destroy(c);
        } else if (!strcmp(op, "printmod") && (r.ntok == 5)) {
            size_t n;
            char *mn = vp_unhex(r.tok[3], &n), *text = NULL;
            struct ly_ctx *c = NULL;
            const struct lys_module *mod;

            if (!mn || ly_ctx_new(NULL, 0, &c)) { free(mn); vp_reply(id, "err Ctx"); continue; }
            mod = ly_ctx_get_module_latest(c, mn);
            if (!mod || lys_print_mem(&text, mod, atoi(r.tok[4]) ? LYS_OUT_YIN : LYS_OUT_YANG, 0) || !text) {
                vp_reply(id, "err Print");
            } else {
                vp_begin(id, "ok"); vp_field_hex(text, strlen(text)); vp_end();
            }
            free(text); free(mn);
            ly_ctx_destroy(c);
        } else {
            vp_reply(id, "err BadOp");
        }
    }
    free(r.line);
    return 0;
}
