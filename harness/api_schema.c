/* API harness for C10 (printed schemas re-parse to the same module); public API only.
 *
 *   roundtrip   <searchdirs-hex> <module-hex | @name-hex> [<dep-name-hex> <dep-text-hex>]...
 *   determinism <searchdirs-hex> <module-hex | @name-hex> [<dep-name-hex> <dep-text-hex>]...
 *
 * The module (YANG text; `@name`: a module the context loads itself, e.g. the internal `yang`) is parsed in a fresh
 * context with all its features enabled; dependencies (imports and submodules) come from the request through an
 * import callback, then from the search directories.  Then
 *   - YANG and YIN are printed (lys_print_mem), submodules with lys_print_submodule;
 *   - each output is parsed in a fresh context with the same dependencies — the module's own submodules are served
 *     from their *printed* form in the same format — and the same features;
 *   - LYS_OUT_YANG_COMPILED of the re-parsed module is compared with the original's, and YANG is printed again;
 *   - `determinism`: compiled and tree-diagram printers are run twice, and once more in a context where the
 *     request's dependencies were loaded beforehand in reverse order (another load order).
 * Reply: ok <law>=<1|0|x>... <y1> <y2> <yin> <y3> <msgs>      (hex fields; `x` = law not evaluated)
 *        ok <law>=<1|0|x>... <msgs>                           (determinism)
 *        err Load <msg-hex>                                   (the original module does not load: nothing to check)
 * Laws: yang_parse yang_compiled yang_reprint yang_sub yin_parse yin_compiled yin_sub |
 *       det_compiled det_tree order_compiled order_tree. */
#define _GNU_SOURCE
#include <stdio.h>
#include <stdlib.h>
#include <string.h>
#include "libyang.h"
#include "proto.h"

#define MAXDEP 32

struct dep { char *name; const char *text; LYS_INFORMAT fmt; };
struct deps { struct dep d[MAXDEP * 2]; int n; };

static LY_ERR
imp_clb(const char *mod_name, const char *mod_rev, const char *submod_name, const char *sub_rev, void *user_data,
        LYS_INFORMAT *format, const char **module_data, ly_module_imp_data_free_clb *free_module_data)
{
    struct deps *ds = user_data;
    const char *want = submod_name ? submod_name : mod_name;
    int i;

    (void)mod_rev; (void)sub_rev;
    /* later entries override earlier ones (printed submodules are appended) */
    for (i = ds->n - 1; i >= 0; i--) {
        if (!strcmp(ds->d[i].name, want)) {
            *format = ds->d[i].fmt;
            *module_data = ds->d[i].text;
            *free_module_data = NULL;
            return LY_SUCCESS;
        }
    }
    return LY_ENOT;
}

static char msgs[8192];

/* all stored messages of the context (first one = the cause) */
static void
note_err(const char *tag, struct ly_ctx *ctx)
{
    const struct ly_err_item *e = ctx ? ly_err_first(ctx) : NULL;
    size_t l = strlen(msgs);

    if (!e) {
        snprintf(msgs + l, sizeof msgs - l, "[%s] (no message)\n", tag);
    }
    for ( ; e; e = e->next) {
        l = strlen(msgs);
        snprintf(msgs + l, sizeof msgs - l, "[%s] %s\n", tag, e->msg ? e->msg : "(no message)");
    }
}

/* first differing line of two texts, for the classification of a failed comparison */
static void
note_diff(const char *tag, const char *a, const char *b)
{
    size_t l;
    const char *prev = "";

    if (!a || !b) return;
    while (*a && *b) {
        size_t la = strcspn(a, "\n"), lb = strcspn(b, "\n");
        if (la != lb || strncmp(a, b, la)) break;
        prev = a;
        a += la + (a[la] == '\n'); b += lb + (b[lb] == '\n');
    }
    l = strlen(msgs);
    snprintf(msgs + l, sizeof msgs - l, "[%s]  %.*s\n[%s] -%.*s\n[%s] +%.*s\n", tag, (int)strcspn(prev, "\n"), prev,
            tag, (int)strcspn(a, "\n"), a, tag, (int)strcspn(b, "\n"), b);
}

static struct ly_ctx *
new_ctx(const char *dirs, struct deps *ds)
{
    struct ly_ctx *ctx = NULL;

    if (ly_ctx_new(dirs[0] ? dirs : NULL, LY_CTX_DISABLE_SEARCHDIR_CWD | LY_CTX_ENABLE_IMP_FEATURES, &ctx)) return NULL;
    ly_ctx_set_module_imp_clb(ctx, imp_clb, ds);
    return ctx;
}

static const char *all_features[] = {"*", NULL};

static struct lys_module *
load(struct ly_ctx *ctx, const char *text, LYS_INFORMAT fmt, LY_ERR *rc)
{
    struct ly_in *in = NULL;
    struct lys_module *m = NULL;

    ly_in_new_memory(text, &in);
    *rc = lys_parse(ctx, in, fmt, all_features, &m);
    ly_in_free(in, 0);
    return *rc ? NULL : m;
}

static char *
print(const struct lys_module *m, LYS_OUTFORMAT f)
{
    char *s = NULL;

    if (lys_print_mem(&s, m, f, 0)) { free(s); return NULL; }
    return s;
}

static char *
print_sub(const struct lysp_submodule *sm, LYS_OUTFORMAT f)
{
    char *s = NULL;
    struct ly_out *out;

    ly_out_new_memory(&s, 0, &out);
    if (lys_print_submodule(out, sm, f, 0, 0)) { ly_out_free(out, NULL, 0); free(s); return NULL; }
    ly_out_free(out, NULL, 0);
    return s;
}

#define SUBSEP "\n// ---submodule---\n"

/* a + SUBSEP + b, freeing a */
static char *
append_sub(char *a, const char *b)
{
    char *r = NULL;

    if (!a) return NULL;
    if (asprintf(&r, "%s" SUBSEP "%s", a, b ? b : "") == -1) r = NULL;
    free(a);
    return r;
}

static int same(const char *a, const char *b) { return a && b && !strcmp(a, b); }
static char verdict(int evaluated, int ok) { return !evaluated ? 'x' : ok ? '1' : '0'; }

/* one re-parse path; returns the re-printed YANG (or NULL). sub_ok: printed submodules reproduce */
static char *
reparse(const char *dirs, struct deps *base, const char *text, LYS_INFORMAT fmt, const struct lys_module *m1, int internal,
        const char *c1, char *v_parse, char *v_comp, char *v_sub, char **subs1)
{
    struct deps ds = *base;
    struct ly_ctx *ctx;
    struct lys_module *m2;
    LY_ERR rc;
    char *c2, *y2 = NULL;
    LY_ARRAY_COUNT_TYPE u;
    const char *tag = fmt == LYS_IN_YANG ? "yang" : "yin";
    char *subprint[MAXDEP] = {0};
    int nsub = 0, subok = 1, subeval = 0;

    *v_parse = *v_comp = *v_sub = 'x';
    /* the module's own submodules in their printed form */
    if (m1->parsed) {
        LY_ARRAY_FOR(m1->parsed->includes, u) {
            if (!m1->parsed->includes[u].submodule || nsub == MAXDEP || ds.n == MAXDEP * 2) continue;
            subprint[nsub] = print_sub(m1->parsed->includes[u].submodule, fmt == LYS_IN_YANG ? LYS_OUT_YANG : LYS_OUT_YIN);
            if (!subprint[nsub]) { subok = 0; subeval = 1; continue; }
            ds.d[ds.n].name = (char *)m1->parsed->includes[u].submodule->name;
            ds.d[ds.n].text = subprint[nsub];
            ds.d[ds.n].fmt = fmt;
            ds.n++; nsub++;
        }
    }
    ctx = new_ctx(dirs, &ds);
    if (!ctx) goto done;
    m2 = load(ctx, text, fmt, &rc);
    if (!m2) {
        if (internal && rc == LY_EEXIST) {
            *v_parse = '1';     /* syntactically accepted; the context already holds this internal module */
        } else {
            *v_parse = '0';
            note_err(fmt == LYS_IN_YANG ? "yang_parse" : "yin_parse", ctx);
        }
        ly_ctx_destroy(ctx);
        goto done;
    }
    *v_parse = '1';
    c2 = print(m2, LYS_OUT_YANG_COMPILED);
    *v_comp = verdict(c1 != NULL, same(c1, c2));
    if (*v_comp == '0') note_diff(fmt == LYS_IN_YANG ? "yang_compiled" : "yin_compiled", c1, c2);
    free(c2);
    y2 = print(m2, LYS_OUT_YANG);
    /* submodules printed again (YANG) must reproduce the first YANG print of the submodules */
    if (m2->parsed && subs1) {
        int k = 0;
        LY_ARRAY_FOR(m2->parsed->includes, u) {
            char *s2;
            if (!m2->parsed->includes[u].submodule || k >= MAXDEP) continue;
            s2 = print_sub(m2->parsed->includes[u].submodule, LYS_OUT_YANG);
            subeval = 1;
            if (fmt == LYS_IN_YANG && !same(subs1[k], s2)) subok = 0;
            if (!s2) subok = 0;
            y2 = append_sub(y2, s2);
            free(s2); k++;
        }
    }
    *v_sub = verdict(subeval, subok);
    ly_ctx_destroy(ctx);
    (void)tag;
done:
    for (int i = 0; i < nsub; i++) free(subprint[i]);
    return y2;
}

int
main(void)
{
    struct vp_req r = {0};
    ly_log_options(LY_LOSTORE);
    while (vp_next(&r)) {
        const char *id = r.tok[0], *op = r.ntok > 2 ? r.tok[2] : "";

        if (r.ntok < 3) { vp_reply(r.ntok ? id : "?", "err BadLine"); continue; }
        if ((!strcmp(op, "roundtrip") || !strcmp(op, "determinism")) && r.ntok >= 5 && (r.ntok - 5) % 2 == 0 && (r.ntok - 5) / 2 <= MAXDEP) {
            size_t n;
            char *dirs = vp_unhex(r.tok[3], &n), *text = vp_unhex(r.tok[4], &n);
            struct deps base = {0};
            struct ly_ctx *c1 = NULL, *c4 = NULL;
            struct lys_module *m1 = NULL, *m4 = NULL;
            LY_ERR rc = LY_SUCCESS;
            int internal = text[0] == '@', i, det = !strcmp(op, "determinism");
            char *y1 = NULL, *yin = NULL, *comp1 = NULL, *tree1 = NULL, *comp1b = NULL, *tree1b = NULL, *y2 = NULL, *y3 = NULL;
            char *comp4 = NULL, *tree4 = NULL, *subs1[MAXDEP] = {0};
            char v[11];
            LY_ARRAY_COUNT_TYPE u;

            msgs[0] = 0;
            memset(v, 'x', sizeof v);
            for (i = 5; i + 1 < r.ntok; i += 2) {
                base.d[base.n].name = vp_unhex(r.tok[i], &n);
                base.d[base.n].text = vp_unhex(r.tok[i + 1], &n);
                base.d[base.n].fmt = LYS_IN_YANG;
                base.n++;
            }
            c1 = new_ctx(dirs, &base);
            if (c1) {
                if (internal) {
                    m1 = ly_ctx_get_module_implemented(c1, text + 1);
                    if (!m1) m1 = ly_ctx_load_module(c1, text + 1, NULL, all_features);
                } else {
                    m1 = load(c1, text, LYS_IN_YANG, &rc);
                }
            }
            if (!m1 || !m1->parsed) {
                note_err("load", c1);
                vp_begin(id, "err"); vp_field_s("Load"); vp_field_hex(msgs, strlen(msgs)); vp_end();
                goto cleanup;
            }
            comp1 = m1->compiled ? print(m1, LYS_OUT_YANG_COMPILED) : NULL;
            if (det) {
                comp1b = m1->compiled ? print(m1, LYS_OUT_YANG_COMPILED) : NULL;
                v[7] = verdict(comp1 != NULL, same(comp1, comp1b));
                tree1 = print(m1, LYS_OUT_TREE);
                tree1b = print(m1, LYS_OUT_TREE);
                v[8] = verdict(1, same(tree1, tree1b));
                goto order;
            }
            y1 = print(m1, LYS_OUT_YANG);
            yin = print(m1, LYS_OUT_YIN);
            {
                int k = 0;
                LY_ARRAY_FOR(m1->parsed->includes, u) {
                    if (!m1->parsed->includes[u].submodule || k >= MAXDEP) continue;
                    subs1[k++] = print_sub(m1->parsed->includes[u].submodule, LYS_OUT_YANG);
                }
            }
            if (y1) {
                y2 = reparse(dirs, &base, y1, LYS_IN_YANG, m1, internal, comp1, &v[0], &v[1], &v[3], subs1);
                if (v[0] == '1' && !(internal && !y2)) {
                    /* y2 carries the re-printed submodules after the main module */
                    size_t l1 = strlen(y1);
                    v[2] = verdict(1, y2 && !strncmp(y1, y2, l1) && (!y2[l1] || !strncmp(y2 + l1, SUBSEP, strlen(SUBSEP))));
                }
            } else {
                v[0] = '0'; note_err("yang_print", c1);
            }
            if (yin) {
                y3 = reparse(dirs, &base, yin, LYS_IN_YIN, m1, internal, comp1, &v[4], &v[5], &v[6], subs1);
            } else {
                v[4] = '0'; note_err("yin_print", c1);
            }
order:
            /* another load order: the request's dependencies (not submodules) loaded explicitly first, in reverse order */
            if (det && !internal && base.n) {
                c4 = new_ctx(dirs, &base);
                for (i = base.n - 1; c4 && i >= 0; i--) {
                    if (!strncmp(base.d[i].text, "submodule", 9)) continue;
                    ly_ctx_load_module(c4, base.d[i].name, NULL, NULL);
                }
                if (c4) m4 = load(c4, text, LYS_IN_YANG, &rc);
                if (m4) {
                    comp4 = m4->compiled ? print(m4, LYS_OUT_YANG_COMPILED) : NULL;
                    tree4 = print(m4, LYS_OUT_TREE);
                    v[9] = verdict(comp1 != NULL, same(comp1, comp4));
                    v[10] = verdict(1, same(tree1, tree4));
                } else {
                    v[9] = '0'; note_err("order_load", c4);
                }
            }
            for (i = 0; !det && y1 && i < MAXDEP && subs1[i]; i++) y1 = append_sub(y1, subs1[i]);
            if (!det && yin && m1->parsed) {
                /* the submodules as they were served to the YIN re-parse */
                LY_ARRAY_FOR(m1->parsed->includes, u) {
                    char *sy;
                    if (!m1->parsed->includes[u].submodule) continue;
                    sy = print_sub(m1->parsed->includes[u].submodule, LYS_OUT_YIN);
                    yin = append_sub(yin, sy);
                    free(sy);
                }
            }
            vp_begin(id, "ok");
            {
                static const char *names[11] = {"yang_parse", "yang_compiled", "yang_reprint", "yang_sub", "yin_parse", "yin_compiled",
                    "yin_sub", "det_compiled", "det_tree", "order_compiled", "order_tree"};
                for (i = det ? 7 : 0; i < (det ? 11 : 7); i++) fprintf(stdout, " %s=%c", names[i], v[i]);
            }
            if (!det) {
                vp_field_hex(y1 ? y1 : "", y1 ? strlen(y1) : 0);
                vp_field_hex(y2 ? y2 : "", y2 ? strlen(y2) : 0);
                vp_field_hex(yin ? yin : "", yin ? strlen(yin) : 0);
                vp_field_hex(y3 ? y3 : "", y3 ? strlen(y3) : 0);
            }
            vp_field_hex(msgs, strlen(msgs));
            vp_end();
cleanup:
            free(y1); free(yin); free(comp1); free(tree1); free(comp1b); free(tree1b); free(y2); free(y3); free(comp4); free(tree4);
            for (i = 0; i < MAXDEP; i++) free(subs1[i]);
            if (c4) ly_ctx_destroy(c4);
            if (c1) ly_ctx_destroy(c1);
            for (i = 0; i < base.n; i++) { free(base.d[i].name); free((char *)base.d[i].text); }
            free(dirs); free(text);
        } else {
            vp_reply(id, "err BadOp");
        }
    }
    free(r.line);
    return 0;
}
