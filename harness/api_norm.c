/* API harness of component `valid`, property C07 (validation is an idempotent normalisation with an exact change set).
 * Public API only.  A request carries a whole history; the harness replays it from an empty tree.
 *
 *   schema <dsl> <yang-hex>                      register the schema                               -> ok <n> <node-summary>*
 *   hist <dsl> <xdsl> <opts> <step>*             run the history, report every validation        -> ok <obs>*
 *   histlaw <dsl> <opts> <step>*                 C07's laws on the implementation per validation  -> ok <law>*      [impl only]
 *   leakcheck                                                                                      -> ok <n>
 *
 * <step>:  C:<addr | ->:<dump>   create the nodes of the dump (lyd_new_*, every node LYD_NEW) below the node at <addr> (- = top level)
 *          D:<addr>              lyd_free_tree() of the node at <addr>
 *          V                     lyd_validate_module(&tree, mod, opts, &diff)  (lyd_validate_all when opts has PRESENT)
 * <addr>:  steps joined by '/':  <sid>  |  <sid>=<value-hex> (leaf-list)  |  <sid>[<key-hex>,...] (list)  |  <sid>#<pos> (position, 1-based)
 *
 * hist observations per V (index i):
 *   on success   T<i>=<tree dump>  D<i>=<diff dump, default flag of non-presence containers printed as 0>  F<i>=<lyd_is_default per node, DFS, 0/1>
 *                W<i>.<printopts>=<dump of the tree printed as XML under LYD_PRINT_WD_* | KEEPEMPTYCONT and parsed back, LYD_NEW masked> (10 of them)
 *   on failure   E<i>=<err>[;<err>]*   and the history ends there
 * histlaw per V:  idem<i>=<empty|nonempty|Exxx>  same<i>=<0|1>  (second validation: change set, tree unchanged)
 *                 apply<i>=<E>  eq<i>=<0|1>  exact<i>=<0|1>  (diff applied to an independent pre-validation copy: lyd_compare_siblings
 *                 FULL_RECURSION|DEFAULTS with the validated tree; exact dump equality without LYD_NEW and non-presence container flags)   */
#define _GNU_SOURCE
#include "treeproto.h"

static const struct { const char *prefix, *kind; } KINDS[] = {
    {"Mandatory node \"", "NoMand"}, {"Mandatory choice \"", "NoMandChoice"}, {"Duplicate instance of \"", "Dup"},
    {"Data for both cases \"", "DupCase"}, {"Unexpected data state node \"", "UnexpState"}, {"Too few \"", "NoMin"},
    {"Too many \"", "NoMax"}, {"Unique data leaf(s) \"", "NoUniq"}, {"Must condition \"", "NoMust"}, {"When condition \"", "NoWhen"},
    {NULL, NULL}
};

static const char *
errkind(const struct ly_err_item *e)
{
    int i;

    for (i = 0; KINDS[i].prefix; i++) {
        if (e->msg && !strncmp(e->msg, KINDS[i].prefix, strlen(KINDS[i].prefix))) return KINDS[i].kind;
    }
    return "Other";
}

static void
errs_to_buf(const struct ly_ctx *ctx, struct tp_buf *b)
{
    const struct ly_err_item *e;
    int n = 0;

    for (e = ly_err_first(ctx); e; e = e->next) {
        if (e->level != LY_LLERR) continue;
        if (n++) tp_buf_add(b, ";", 1);
        tp_buf_printf(b, "%s:%s:", errkind(e), e->apptag ? e->apptag : "-");
        if (e->data_path) tp_buf_hex(b, e->data_path);
        else if (e->schema_path) { tp_buf_add(b, "53", 2); tp_buf_hex(b, e->schema_path); }
        else tp_buf_add(b, "-", 1);
        if (getenv("VERIF_VERBOSE")) fprintf(stderr, "[err] %s\n", e->msg);
    }
}

/* ---- addressing ------------------------------------------------------------------------------------------------ */
static struct lyd_node *
find_step(const struct tp_schema *s, struct lyd_node *first, char *step)
{
    char *p, *vals[8] = {0}, *sv = NULL, *f;
    int sid, nv = 0, pos = 0, mode = 0, i, k;
    struct lyd_node *n, *c, *found = NULL;

    if ((p = strchr(step, '='))) { mode = 1; *p++ = 0; vals[0] = vp_unhex(p, NULL); nv = 1; }
    else if ((p = strchr(step, '#'))) { mode = 2; *p++ = 0; pos = atoi(p); }
    else if ((p = strchr(step, '['))) {
        mode = 3; *p++ = 0;
        if (strchr(p, ']')) *strchr(p, ']') = 0;
        for (f = strtok_r(p, ",", &sv); f && nv < 8; f = strtok_r(NULL, ",", &sv)) vals[nv++] = vp_unhex(f, NULL);
    }
    sid = atoi(step);
    if (sid < 0 || sid >= s->n) goto done;
    k = 0;
    LY_LIST_FOR(first, n) {
        if (n->schema != s->nodes[sid]) continue;
        ++k;
        if (mode == 0) { found = n; break; }
        if (mode == 1) { if (!strcmp(lyd_get_value(n), vals[0])) { found = n; break; } continue; }
        if (mode == 2) { if (k == pos) { found = n; break; } continue; }
        for (c = lyd_child(n), i = 0; c && i < nv; c = c->next, i++) {
            if (!lysc_is_key(c->schema) || strcmp(lyd_get_value(c), vals[i])) break;
        }
        if (i == nv) { found = n; break; }
    }
done:
    for (i = 0; i < 8; i++) free(vals[i]);
    return found;
}

static struct lyd_node *
find_addr(const struct tp_schema *s, struct lyd_node *tree, const char *addr)
{
    char *copy = strdup(addr), *step, *sv = NULL;
    struct lyd_node *cur = NULL, *level = tree;

    for (step = strtok_r(copy, "/", &sv); step; step = strtok_r(NULL, "/", &sv)) {
        cur = find_step(s, level, step);
        if (!cur) break;
        level = lyd_child(cur);
    }
    free(copy);
    return cur;
}

/* ---- create below a parent (same rules as tp_load, which only builds top-level forests) ------------------------------ */
static LY_ERR
load_under(const struct tp_schema *s, struct lyd_node *under, struct lyd_node **tree, const char *text)
{
    struct tp_tok *t = NULL;
    int n, i, j, d;
    struct lyd_node *stack[64] = {0}, *node;
    LY_ERR r = LY_SUCCESS;

    n = tp_parse(s, text, &t);
    if (n < 0) return LY_EINVAL;
    for (i = 0; i < n && !r; i++) {
        const struct lysc_node *sn = s->nodes[t[i].sid];
        struct lyd_node *parent;

        d = t[i].depth;
        if (d < 0 || d >= 62 || (d && !stack[d - 1])) { r = LY_EINVAL; break; }
        parent = d ? stack[d - 1] : under;
        if (t[i].is_key) continue;
        node = NULL;
        if (sn->nodetype == LYS_CONTAINER) {
            r = lyd_new_inner(parent, s->mod, sn->name, 0, &node);
        } else if (sn->nodetype == LYS_LIST) {
            const char *kv[8]; int nk = 0;
            const struct lysc_node *k;

            for (k = lysc_node_child(sn); k && (k->flags & LYS_KEY) && nk < 8; k = k->next) {
                j = i + 1 + nk;
                if (j >= n || t[j].depth != d + 1 || s->nodes[t[j].sid] != k) { r = LY_EINVAL; break; }
                kv[nk++] = t[j].val;
                t[j].is_key = 1;
            }
            if (r) break;
            r = lyd_new_list3(parent, s->mod, sn->name, kv, NULL, 0, &node);
        } else if (sn->nodetype & LYD_NODE_TERM) {
            r = lyd_new_term(parent, s->mod, sn->name, t[i].val, 0, &node);
        } else {
            r = LY_EINVAL;
        }
        if (r) break;
        stack[d] = node;
        stack[d + 1] = NULL;
        if (!parent) {
            r = lyd_insert_sibling(*tree, node, tree);
            if (r) { lyd_free_tree(node); break; }
        }
    }
    tp_toks_free(t, n);
    return r;
}

/* ---- observations ---------------------------------------------------------------------------------------------------- */
static void
mask_flags(struct lyd_node *t, uint32_t clear_all, int strip_np)
{
    struct lyd_node *root, *e;

    LY_LIST_FOR(t, root) {
        LYD_TREE_DFS_BEGIN(root, e) {
            e->flags &= ~clear_all;
            if (strip_np && e->schema && (e->schema->nodetype == LYS_CONTAINER) && !(e->schema->flags & LYS_PRESENCE)) e->flags &= ~LYD_DEFAULT;
            LYD_TREE_DFS_END(root, e);
        }
    }
}

static char *
dumps(const struct tp_schema *s, const struct lyd_node *t)
{
    struct tp_buf b = {0};

    tp_dump(s, t, &b);
    return b.s ? b.s : strdup("");
}

static void
field_dump(const char *name, int i, const struct tp_schema *s, const struct lyd_node *t)
{
    char *d = dumps(s, t);

    fprintf(stdout, " %s%d=", name, i);
    vp_puthex(d, strlen(d));
    free(d);
}

static void
field_isdefault(int i, const struct lyd_node *t)
{
    const struct lyd_node *root;
    struct lyd_node *e;

    fprintf(stdout, " F%d=", i);
    if (!t) fputc('-', stdout);
    LY_LIST_FOR(t, root) {
        LYD_TREE_DFS_BEGIN(root, e) {
            fputc(lyd_is_default(e) ? '1' : '0', stdout);
            LYD_TREE_DFS_END(root, e);
        }
    }
}

static void
field_printed(int i, const struct tp_schema *s, const struct lyd_node *t, uint32_t popts)
{
    char *xml = NULL;
    struct lyd_node *back = NULL;

    fprintf(stdout, " W%d.%u=", i, popts);
    if (!t) { fputc('-', stdout); return; }
    if (lyd_print_mem(&xml, t, LYD_XML, LYD_PRINT_WITHSIBLINGS | LYD_PRINT_SHRINK | popts)) { fputs("PrintErr", stdout); free(xml); return; }
    if (xml && xml[0] && lyd_parse_data_mem(s->ctx, xml, LYD_XML, LYD_PARSE_ONLY | LYD_PARSE_STRICT, 0, &back)) {
        fputs("ParseErr", stdout);
    } else {
        char *d;

        mask_flags(back, LYD_NEW, 0);
        d = dumps(s, back);
        vp_puthex(d, strlen(d));
        free(d);
    }
    free(xml);
    lyd_free_all(back);
}

static LY_ERR
do_validate(const struct tp_schema *s, struct lyd_node **t, uint32_t opts, struct lyd_node **diff)
{
    ly_err_clean(s->ctx, NULL);
    if (opts & LYD_VALIDATE_PRESENT) return lyd_validate_all(t, s->ctx, opts, diff);
    return lyd_validate_module(t, s->mod, opts, diff);
}

static const uint32_t WD[] = {LYD_PRINT_WD_EXPLICIT, LYD_PRINT_WD_TRIM, LYD_PRINT_WD_ALL, LYD_PRINT_WD_ALL_TAG, LYD_PRINT_WD_IMPL_TAG};

/* returns 0 to go on, 1 when the history ends (error reported in the reply), -1 bad step */
static int
edit_step(const struct tp_schema *s, struct lyd_node **tree, char *step)
{
    if (step[0] == 'C' && step[1] == ':') {
        char *addr = step + 2, *dump = strchr(addr, ':'), *text;
        struct lyd_node *under = NULL;
        LY_ERR r;

        if (!dump) return -1;
        *dump++ = 0;
        if (strcmp(addr, "-") && !(under = find_addr(s, *tree, addr))) return -1;
        if (!(text = vp_unhex(dump, NULL))) return -1;
        r = load_under(s, under, tree, text);
        free(text);
        *tree = lyd_first_sibling(*tree);
        return r ? -1 : 0;
    } else if (step[0] == 'D' && step[1] == ':') {
        struct lyd_node *n = find_addr(s, *tree, step + 2);

        if (!n) return -1;
        if (n == *tree) *tree = n->next;
        lyd_free_tree(n);
        return 0;
    }
    return -1;
}

static void
op_hist(const char *id, const struct tp_schema *s, uint32_t opts, char **steps, int nsteps, int law)
{
    struct lyd_node *tree = NULL, *diff = NULL, *pre = NULL, *d2 = NULL;
    int i, vi = 0, rc;
    unsigned m, ke;
    LY_ERR r;

    vp_begin(id, "ok");
    for (i = 0; i < nsteps; i++) {
        if (strcmp(steps[i], "V")) {
            rc = edit_step(s, &tree, steps[i]);
            if (rc) { fprintf(stdout, " BadStep%d", i); break; }
            continue;
        }
        if (law) {
            char *pt = dumps(s, tree);

            tp_load(s, pt, 1, &pre);
            free(pt);
        }
        diff = NULL;
        r = do_validate(s, &tree, opts, &diff);
        tree = lyd_first_sibling(tree);
        if (r) {
            struct tp_buf b = {0};

            errs_to_buf(s->ctx, &b);
            fprintf(stdout, " E%d=%s", vi, b.s ? b.s : "-");
            free(b.s);
            lyd_free_all(diff); diff = NULL;
            lyd_free_all(pre); pre = NULL;
            break;
        }
        if (!law) {
            field_dump("T", vi, s, tree);
            mask_flags(diff, 0, 1);
            field_dump("D", vi, s, diff);
            field_isdefault(vi, tree);
            for (m = 0; m < 5; m++) for (ke = 0; ke < 2; ke++) field_printed(vi, s, tree, WD[m] | (ke ? LYD_PRINT_KEEPEMPTYCONT : 0));
        } else {
            char *t0 = dumps(s, tree), *t1, *a, *b;

            /* second validation: empty change set, nothing changes */
            d2 = NULL;
            r = do_validate(s, &tree, opts, &d2);
            tree = lyd_first_sibling(tree);
            fprintf(stdout, " idem%d=%s", vi, r ? tp_errname(r) : (d2 ? "nonempty" : "empty"));
            t1 = dumps(s, tree);
            fprintf(stdout, " same%d=%d", vi, !strcmp(t0, t1));
            lyd_free_all(d2); d2 = NULL;
            free(t0); free(t1);
            /* the change set applied to the pre-validation copy */
            r = lyd_diff_apply_all(&pre, diff);
            pre = lyd_first_sibling(pre);
            fprintf(stdout, " apply%d=%s", vi, tp_errname(r));
            if (r && getenv("VERIF_VERBOSE")) {
                const struct ly_err_item *e = ly_err_last(s->ctx);
                char *dd;

                fprintf(stderr, "[apply %d] %s | %s\n", vi, e ? e->msg : "?", (e && e->data_path) ? e->data_path : "");
                lyd_print_mem(&dd, diff, LYD_XML, LYD_PRINT_WITHSIBLINGS | LYD_PRINT_WD_ALL);
                fprintf(stderr, "%s\n", dd ? dd : "");
                free(dd);
            }
            if (!r) {
                struct lyd_node *c1 = NULL, *c2 = NULL;

                fprintf(stdout, " eq%d=%d", vi, lyd_compare_siblings(pre, tree, LYD_COMPARE_FULL_RECURSION | LYD_COMPARE_DEFAULTS) == LY_SUCCESS);
                if (pre) lyd_dup_siblings(pre, NULL, LYD_DUP_RECURSIVE | LYD_DUP_WITH_FLAGS, &c1);
                if (tree) lyd_dup_siblings(tree, NULL, LYD_DUP_RECURSIVE | LYD_DUP_WITH_FLAGS, &c2);
                mask_flags(c1, LYD_NEW, 1); mask_flags(c2, LYD_NEW, 1);
                a = dumps(s, c1); b = dumps(s, c2);
                fprintf(stdout, " exact%d=%d", vi, !strcmp(a, b));
                free(a); free(b);
                lyd_free_all(c1); lyd_free_all(c2);
            }
            lyd_free_all(pre); pre = NULL;
        }
        lyd_free_all(diff); diff = NULL;
        ++vi;
    }
    vp_end();
    lyd_free_all(tree);
    lyd_free_all(pre);
}

int
main(void)
{
    struct vp_req r = {0};

    ly_log_options(LY_LOSTORE);

    while (vp_next(&r)) {
        const char *id = r.tok[0], *op = r.ntok > 2 ? r.tok[2] : "";
        struct tp_schema *s = NULL;

        if (r.ntok < 3) { vp_reply(r.ntok ? id : "?", "err BadLine"); continue; }
        if (!strcmp(op, "leakcheck")) { vp_reply(id, "ok %d", VP_LEAKCHECK()); continue; }
        if (!strcmp(op, "schema") && r.ntok == 5) {
            char *yang = vp_unhex(r.tok[4], NULL);
            struct tp_buf b = {0};

            s = yang ? tp_schema_register(r.tok[3], yang) : NULL;
            free(yang);
            if (!s) { vp_reply(id, "err BadSchema"); continue; }
            tp_schema_summary(s, &b);
            vp_reply(id, "ok %d %s", s->n, b.s ? b.s : "");
            free(b.s);
            continue;
        }
        if (r.ntok < 4 || !(s = tp_schema_get(r.tok[3]))) { vp_reply(id, "err NoSchema"); continue; }

        if (!strcmp(op, "hist") && r.ntok >= 6) {
            op_hist(id, s, (uint32_t)atoi(r.tok[5]), r.tok + 6, r.ntok - 6, 0);
        } else if (!strcmp(op, "histlaw") && r.ntok >= 5) {
            op_hist(id, s, (uint32_t)atoi(r.tok[4]), r.tok + 5, r.ntok - 5, 1);
        } else {
            vp_reply(id, "err BadOp");
        }
    }
    free(r.line);
    tp_schema_free_all();
    return 0;
}
