/* API harness of property C16: N threads share one context (public API only).
 *
 *   run <N> <mode> <flags> <iterations> <seed>
 *     mode  (bit mask of what every thread does in every iteration)
 *        1  private trees: parse XML/JSON, lyd_new_path, validate, print XML/JSON/LYB, parse the prints back and compare,
 *           lyd_find_xpath / lyd_find_path, dup, diff (equal and changed), diff apply, free
 *        2  schema reads: lys_find_path, lys_getnext walk over the module, lys_print_mem (YANG, tree) of a module
 *        4  dictionary: lydict_insert / lydict_dup / lydict_remove of strings shared by all threads and of own strings
 *        8  errors: invalid values / malformed documents carrying the thread's own marker; ly_err_last must show the
 *           thread's own record; ly_err_clean now and then
 *       16  ONE shared read-only tree: print XML/JSON/LYB, XPath, path search, compare with a private copy, lyd_get_value
 *     flags
 *        1  warm: every thread's error record is created before the concurrent phase, one thread at a time
 *           (no insert into ctx->err_ht while another thread may hold a record pointer: the regime F8 cannot occur in)
 *        2  prefill: the canonical strings of the shared tree are cached (lyd_get_value on every node) before the
 *           threads start (the regime F9 cannot occur in)
 *        4  the shared tree is parsed from LYB instead of XML
 *        8  LY_LOSTORE instead of LY_LOSTORE_LAST
 *       32  private trees: create a leaf-list instance with lyd_new_path(path without predicate, value) — the one place that
 *           bumps the compiled type's reference count non-atomically (finding F73); otherwise the predicate form is used
 *       16  the shared tree contains union-typed leaves (`u`, and `ip`: inet:ip-address is a union).  Printing such a
 *           value as LYB frees and re-stores the stored member value (lyb_union_print): finding F72
 *   -> ok <N> <equal> <mismatching thread ids|-> <ops per thread> <wrong-error-records> <surplus-dict-refs> <digest thread 0>
 *
 * The N scripts are first run concurrently on context A (all threads released by a barrier), then the same N scripts are
 * run one after the other on an identically built context B; a thread's digest covers every output byte, return code,
 * node-set and error message it saw.  `equal` = number of threads whose concurrent digest equals the serial one.
 * `wrong-error-records` = times ly_err_last() did not show the calling thread's own marker.  `surplus-dict-refs` =
 * references to the shared tree's canonical strings left in dictionary A after everything was freed, minus the same
 * for B.  A sanitizer report aborts the process; the request line is the replay. */
#define _GNU_SOURCE
#include <pthread.h>
#include <stdio.h>
#include <stdlib.h>
#include <string.h>
#include "libyang.h"
#include "proto.h"

static const char *SCH =
    "module vq {namespace urn:vq; prefix vq; yang-version 1.1;"
    " import ietf-inet-types {prefix inet;} import ietf-yang-types {prefix yang;}"
    " identity base-id; identity id-a {base base-id;} identity id-b {base base-id;}"
    " container c {"
    "  leaf s {type string {length \"1..64\";}}"
    "  leaf b {type binary;}"
    "  leaf bi {type bits {bit alpha; bit beta; bit gamma;}}"
    "  leaf-list l {type uint8;}"
    "  list li {key k; leaf k {type string;} leaf v {type int32;} leaf d {type decimal64 {fraction-digits 2;}}}"
    "  leaf u {type union {type int8; type bits {bit one; bit two;} type string;}}"
    "  leaf dt {type yang:date-and-time;}"
    "  leaf ip {type inet:ip-address;}"
    "  leaf ip4 {type inet:ipv4-address-no-zone;}"
    "  leaf ip6 {type inet:ipv6-address;}"
    "  leaf p4 {type inet:ipv4-prefix;}"
    "  leaf p6 {type inet:ipv6-prefix;}"
    "  leaf idr {type identityref {base base-id;}}"
    "  leaf e {type enumeration {enum one; enum two;}}"
    "  leaf bo {type boolean;}"
    "  leaf lr {type leafref {path \"../li/k\";}}"
    "  leaf w {when \"../s\"; type uint16; default 5;}"
    "  leaf m {must \". != 'forbidden'\"; type string;}"
    " }"
    " container st {config false; leaf-list n {type string;}}"
    "}";

/* %s = a marker that differs per thread / iteration (only in the private documents) */
static const char *DOC_FMT =
    "<c xmlns=\"urn:vq\"><s>hello %s</s><b>aGVsbG8=</b><bi>gamma alpha</bi><l>1</l><l>2</l><l>3</l>"
    "<li><k>a</k><v>1</v><d>1.5</d></li><li><k>b</k><v>2</v><d>-0.25</d></li><li><k>%s</k><v>3</v></li>"
    "%s<dt>%s</dt><ip4>198.51.100.7</ip4><ip6>2001:DB8::1</ip6>"
    "<p4>192.0.2.77/24</p4><p6>2001:db8:1::ffff/48</p6><idr>id-a</idr><e>two</e><bo>true</bo><lr>b</lr><m>fine</m></c>";
/* the union-typed leaves (inet:ip-address is a union) */
static const char *DOC_UNIONS = "<u>two one</u><ip>192.0.2.1</ip>";
/* canonical strings of the lazily filled types in the shared tree (probed in the dictionary afterwards) */
static const char *CANON_PROBE[] = {"alpha gamma", "one two", "2001:db8::1", "192.0.2.0/24", "2001:db8:1::/48", NULL};

struct world {
    struct ly_ctx *ctx;
    struct lyd_node *shared;
    const struct lys_module *mod;
};

struct work {
    struct world *w;
    int id, mode, flags, iters, seed;
    uint64_t digest;
    unsigned long ops, wrong_err;
    pthread_t tid;
    int concurrent;
    FILE *trace;            /* VP_TRACE=<dir>: raw bytes that went into the digest */
};

static pthread_barrier_t barrier;
static pthread_mutex_t warm_lock = PTHREAD_MUTEX_INITIALIZER;

#define FNV_INIT 1469598103934665603ULL
static void
dg(struct work *k, const void *p, size_t n)
{
    const unsigned char *b = p;

    if (k->trace) { fprintf(k->trace, "\n#%lu ", k->ops); fwrite(p, 1, n, k->trace); }
    while (n--) { k->digest ^= *b++; k->digest *= 1099511628211ULL; }
    k->ops++;
}
static void dgs(struct work *k, const char *s) { dg(k, s ? s : "(null)", s ? strlen(s) + 1 : 7); }
static void dgi(struct work *k, long v) { dg(k, &v, sizeof v); }

static void
dg_print(struct work *k, const struct lyd_node *t, LYD_FORMAT f, uint32_t opts)
{
    char *s = NULL;
    struct ly_out *out;

    if (ly_out_new_memory(&s, 0, &out)) { dgi(k, -1); return; }
    dgi(k, lyd_print_all(out, t, f, opts));
    dg(k, s ? s : "", ly_out_printed(out));
    ly_out_free(out, NULL, 0);
    free(s);
}

static void
dg_set(struct work *k, struct ly_set *set)
{
    uint32_t i;

    dgi(k, set ? (long)set->count : -1);
    for (i = 0; set && i < set->count; i++) {
        char *p = lyd_path(set->dnodes[i], LYD_PATH_STD, NULL, 0);

        dgs(k, p);
        if (set->dnodes[i]->schema && (set->dnodes[i]->schema->nodetype & LYD_NODE_TERM)) {
            dgs(k, lyd_get_value(set->dnodes[i]));
        }
        free(p);
    }
}

static void
own_error(struct work *k, const char *marker)
{
    const struct ly_err_item *e = ly_err_last(k->w->ctx);

    if (!e || !e->msg || !strstr(e->msg, marker)) {
        k->wrong_err++;
        if (getenv("VP_DEBUG")) fprintf(stderr, "T%d wrong error record, want %s got: %s\n", k->id, marker, e && e->msg ? e->msg : "(none)");
        dgs(k, "WRONG-ERROR-RECORD");
    } else {
        dgs(k, e->msg);
        dgi(k, e->err);
        dgi(k, e->vecode);
        dgs(k, e->data_path);
    }
}

static void
do_private(struct work *k, int it)
{
    struct ly_ctx *ctx = k->w->ctx;
    struct lyd_node *t = NULL, *t2 = NULL, *t3 = NULL, *d = NULL, *back = NULL;
    struct ly_set *set = NULL;
    char doc[2048], marker[48], path[128], dtv[64], *s = NULL;
    struct ly_out *out;
    LY_ERR r;

    snprintf(marker, sizeof marker, "t%d-%d", k->id, (it + k->seed) % 5);
    /* a date-and-time value of its own per thread and iteration: its canonical form goes through the libc time conversion, whose
     * non-reentrant variants share one static result between threads (seed C16r3) */
    snprintf(dtv, sizeof dtv, "%04d-%02d-%02dT%02d:%02d:%02d.%d+%02d:00", 1971 + (k->id * 7 + it) % 60, 1 + (k->id + it) % 12, 1 + (k->id * 3 + it) % 28,
            (k->id * 5 + it) % 24, (k->id * 11 + it) % 60, (k->id * 13 + it) % 60, k->id, (k->id + it) % 12);
    snprintf(doc, sizeof doc, DOC_FMT, marker, marker, DOC_UNIONS, dtv);
    r = lyd_parse_data_mem(ctx, doc, LYD_XML, LYD_PARSE_STRICT, LYD_VALIDATE_PRESENT, &t);
    dgi(k, r);
    if (r || !t) { return; }
    snprintf(path, sizeof path, "/vq:c/li[k='n%d']/v", k->id);
    dgi(k, lyd_new_path(t, ctx, path, "5", 0, NULL));
    if (k->flags & 32) {
        /* leaf-list instance by value argument: lyd_new_path_check_find_lypath() takes a reference to the compiled type (F73) */
        dgi(k, lyd_new_path(t, ctx, "/vq:c/l", (it % 2) ? "200" : "100", 0, NULL));
    } else {
        dgi(k, lyd_new_path(t, ctx, (it % 2) ? "/vq:c/l[.='200']" : "/vq:c/l[.='100']", NULL, 0, NULL));
    }
    dgi(k, lyd_validate_all(&t, ctx, LYD_VALIDATE_PRESENT, NULL));
    dg_print(k, t, LYD_XML, LYD_PRINT_SHRINK | LYD_PRINT_WD_ALL);
    dg_print(k, t, LYD_JSON, LYD_PRINT_SHRINK);
    dg_print(k, t, LYD_LYB, 0);
    /* print -> parse -> compare, alternating formats */
    if (!ly_out_new_memory(&s, 0, &out)) {
        LYD_FORMAT f = (it % 3 == 0) ? LYD_XML : ((it % 3 == 1) ? LYD_JSON : LYD_LYB);

        lyd_print_all(out, t, f, 0);
        ly_out_free(out, NULL, 0);
        r = lyd_parse_data_mem(ctx, s, f, LYD_PARSE_STRICT, LYD_VALIDATE_PRESENT, &back);
        dgi(k, r);
        dgi(k, lyd_compare_siblings(t, back, LYD_COMPARE_FULL_RECURSION | LYD_COMPARE_DEFAULTS));
        free(s);
    }
    snprintf(path, sizeof path, "/vq:c/li[k='%s']/v | /vq:c/l[.='2'] | /vq:c/li[v>1]/k", marker);
    dgi(k, lyd_find_xpath(t, path, &set));
    dg_set(k, set);
    ly_set_free(set, NULL);
    {
        struct lyd_node *m = NULL;

        dgi(k, lyd_find_path(t, "/vq:c/li[k='b']/d", 0, &m));
        dgs(k, m ? lyd_get_value(m) : NULL);
    }
    dgi(k, lyd_dup_siblings(t, NULL, LYD_DUP_RECURSIVE | LYD_DUP_WITH_FLAGS, &t2));
    dgi(k, lyd_diff_siblings(t, t2, 0, &d));
    dgi(k, d ? 1 : 0);
    lyd_free_all(d); d = NULL;
    /* change the copy, diff, apply to a third copy, compare */
    dgi(k, lyd_new_path(t2, ctx, "/vq:c/s", marker, LYD_NEW_PATH_UPDATE, NULL));
    dgi(k, lyd_new_path(t2, ctx, "/vq:c/li[k='zz']/v", "9", 0, NULL));
    {
        struct lyd_node *rm = NULL;

        if (!lyd_find_path(t2, "/vq:c/li[k='a']", 0, &rm) && rm) { lyd_free_tree(rm); }
    }
    dgi(k, lyd_diff_siblings(t, t2, 0, &d));
    dg_print(k, d, LYD_XML, LYD_PRINT_SHRINK);
    dgi(k, lyd_dup_siblings(t, NULL, LYD_DUP_RECURSIVE | LYD_DUP_WITH_FLAGS, &t3));
    dgi(k, lyd_diff_apply_all(&t3, d));
    dgi(k, lyd_compare_siblings(t3, t2, LYD_COMPARE_FULL_RECURSION));
    lyd_free_all(d);
    lyd_free_all(t);
    lyd_free_all(t2);
    lyd_free_all(t3);
    lyd_free_all(back);
}

static void
do_schema(struct work *k, int it)
{
    struct ly_ctx *ctx = k->w->ctx;
    const struct lysc_node *n, *c = NULL;
    char *s = NULL;

    n = lys_find_path(ctx, NULL, (it % 2) ? "/vq:c/li/v" : "/vq:c/p6", 0);
    dgs(k, n ? n->name : NULL);
    n = lys_find_path(ctx, NULL, "/vq:c", 0);
    while (n && (c = lys_getnext(c, n, NULL, 0))) {
        dgs(k, c->name);
        dgi(k, c->nodetype);
        dgi(k, c->flags & (LYS_CONFIG_MASK | LYS_STATUS_MASK | LYS_MAND_TRUE));
    }
    dgi(k, lys_print_mem(&s, k->w->mod, (it % 2) ? LYS_OUT_YANG : LYS_OUT_TREE, 0));
    dgs(k, s);
    free(s);
    s = NULL;
    if (it % 4 == 0) {
        const struct lys_module *m = ly_ctx_get_module_implemented(ctx, "ietf-yang-library");

        dgs(k, m ? m->revision : NULL);
        m = ly_ctx_get_module_latest(ctx, "ietf-inet-types");
        if (m) {
            dgi(k, lys_print_mem(&s, m, LYS_OUT_YANG_COMPILED, 0));
            dgs(k, s);
            free(s);
        }
    }
}

static void
do_dict(struct work *k, int it)
{
    struct ly_ctx *ctx = k->w->ctx;
    const char *p[4] = {0}, *q = NULL, *own = NULL, *dup = NULL;
    char buf[64];
    int i;

    for (i = 0; i < 4; i++) {
        snprintf(buf, sizeof buf, "vq-shared-string-%d", (i + it) % 6);
        dgi(k, lydict_insert(ctx, buf, 0, &p[i]));
        dgs(k, p[i]);
    }
    snprintf(buf, sizeof buf, "vq-shared-string-%d", it % 6);
    dgi(k, lydict_insert(ctx, buf, 0, &q));
    dgi(k, q == p[0]);                                   /* one pointer per string while it is referenced */
    snprintf(buf, sizeof buf, "vq-own-%d-%d", k->id, it);
    dgi(k, lydict_insert(ctx, buf, 0, &own));
    dgi(k, lydict_dup(ctx, own, &dup));
    dgi(k, dup == own);
    dgi(k, lydict_remove(ctx, dup));
    dgi(k, lydict_remove(ctx, own));
    dgi(k, lydict_remove(ctx, q));
    for (i = 0; i < 4; i++) {
        dgi(k, lydict_remove(ctx, p[i]));
    }
    /* zero-copy insert */
    {
        char *z = strdup("vq-zero-copy-string");
        const char *zp = NULL;

        dgi(k, lydict_insert_zc(ctx, z, &zp));
        dgs(k, zp);
        dgi(k, lydict_remove(ctx, zp));
    }
}

static void
do_errors(struct work *k, int it)
{
    struct ly_ctx *ctx = k->w->ctx;
    struct lyd_node *bad = NULL;
    char marker[48], doc[256];
    LY_ERR r;

    snprintf(marker, sizeof marker, "bad-%d-%d", k->id, it);
    r = lyd_new_path(NULL, ctx, "/vq:c/l", marker, 0, &bad);
    dgi(k, r);
    if (!r) { lyd_free_all(bad); bad = NULL; }
    own_error(k, marker);
    snprintf(doc, sizeof doc, "<c xmlns=\"urn:vq\"><s>x</s><nope-%s/></c>", marker);
    r = lyd_parse_data_mem(ctx, doc, LYD_XML, LYD_PARSE_STRICT, LYD_VALIDATE_PRESENT, &bad);
    dgi(k, r);
    lyd_free_all(bad); bad = NULL;
    own_error(k, marker);
    snprintf(doc, sizeof doc, "{\"vq:c\":{\"m\":\"forbidden\",\"s\":\"%s\",\"li\":[{\"k\":\"k1\",\"v\":\"%s\"}]}}", marker, marker);
    r = lyd_parse_data_mem(ctx, doc, LYD_JSON, LYD_PARSE_STRICT, LYD_VALIDATE_PRESENT, &bad);
    dgi(k, r);
    lyd_free_all(bad); bad = NULL;
    own_error(k, marker);
    snprintf(doc, sizeof doc, "/vq:c/li/nothing-%s", marker);
    dgs(k, lys_find_path(ctx, NULL, doc, 0) ? "found" : "none");
    own_error(k, marker);
    if (it % 3 == 2) {
        ly_err_clean(ctx, NULL);
        dgi(k, ly_err_last(ctx) ? 1 : 0);
        dgi(k, ly_err_first(ctx) ? 1 : 0);
    } else {
        const struct ly_err_item *e = ly_err_first(ctx);
        int n = 0;

        for (; e; e = e->next) {
            n++;
            if (!e->msg || !strstr(e->msg, "-")) {
                k->wrong_err++;
                if (getenv("VP_DEBUG")) fprintf(stderr, "T%d list item without marker: %s\n", k->id, e->msg ? e->msg : "(none)");
            }
        }
        dgi(k, n > 0);
    }
}

static void
do_shared(struct work *k, int it)
{
    struct world *w = k->w;
    struct ly_set *set = NULL;
    struct lyd_node *m = NULL, *priv = NULL, *n;
    char doc[2048];

    /* the three formats at the same time in different threads (the first LYB print of a module fills its hash cache) */
    dg_print(k, w->shared, ((it + k->id) % 3 == 0) ? LYD_XML : (((it + k->id) % 3 == 1) ? LYD_JSON : LYD_LYB), LYD_PRINT_SHRINK);
    dgi(k, lyd_find_xpath(w->shared, "/vq:c/li[k='b']/v | /vq:c/l[.='2'] | /vq:c/*[contains(., '2001')] | /vq:c/bi[.='alpha gamma']", &set));
    dg_set(k, set);
    ly_set_free(set, NULL);
    dgi(k, lyd_find_path(w->shared, (it % 2) ? "/vq:c/p6" : "/vq:c/li[k='a']/d", 0, &m));
    dgs(k, m ? lyd_get_value(m) : NULL);
    LYD_TREE_DFS_BEGIN(w->shared, n) {
        if (n->schema && (n->schema->nodetype & LYD_NODE_TERM)) {
            dgs(k, lyd_get_value(n));
        }
        LYD_TREE_DFS_END(w->shared, n);
    }
    snprintf(doc, sizeof doc, DOC_FMT, "shared", "shared", (k->flags & 16) ? DOC_UNIONS : "", "2024-02-29T12:00:00+01:00");
    if (!lyd_parse_data_mem(w->ctx, doc, LYD_XML, LYD_PARSE_STRICT, LYD_VALIDATE_PRESENT, &priv)) {
        dgi(k, lyd_compare_siblings(w->shared, priv, LYD_COMPARE_FULL_RECURSION | LYD_COMPARE_DEFAULTS));
        lyd_free_all(priv);
    }
}

static void
script(struct work *k)
{
    int it;

    k->digest = FNV_INIT;
    k->ops = 0;
    k->wrong_err = 0;
    if (getenv("VP_TRACE")) {
        char fn[256];

        snprintf(fn, sizeof fn, "%s/t%d-%s.txt", getenv("VP_TRACE"), k->id, k->concurrent ? "conc" : "serial");
        k->trace = fopen(fn, "w");
    }
    for (it = 0; it < k->iters; it++) {
        if (k->mode & 16) do_shared(k, it);
        if (k->mode & 8) do_errors(k, it);
        if (k->mode & 1) do_private(k, it);
        if (k->mode & 2) do_schema(k, it);
        if (k->mode & 4) do_dict(k, it);
    }
    if (k->trace) { fclose(k->trace); k->trace = NULL; }
}

static void
warm(struct work *k)
{
    /* create this thread's error record while no other thread is inside libyang */
    pthread_mutex_lock(&warm_lock);
    lys_find_path(k->w->ctx, NULL, "/vq:warm-up-error", 0);
    ly_err_clean(k->w->ctx, NULL);
    pthread_mutex_unlock(&warm_lock);
}

static void *
thread_main(void *arg)
{
    struct work *k = arg;

    if (k->flags & 1) {
        warm(k);
    }
    pthread_barrier_wait(&barrier);
    script(k);
    return NULL;
}

static int
world_new(struct world *w, int flags)
{
    char doc[2048];
    struct lyd_node *n;

    memset(w, 0, sizeof *w);
    if (ly_ctx_new(NULL, 0, &w->ctx)) return -1;
    if (lys_parse_mem(w->ctx, SCH, LYS_IN_YANG, (struct lys_module **)&w->mod)) return -1;
    snprintf(doc, sizeof doc, DOC_FMT, "shared", "shared", (flags & 16) ? DOC_UNIONS : "", "2024-02-29T12:00:00+01:00");
    if (lyd_parse_data_mem(w->ctx, doc, LYD_XML, LYD_PARSE_STRICT, LYD_VALIDATE_PRESENT, &w->shared)) return -1;
    if (flags & 4) {
        char *b = NULL;
        struct lyd_node *t = NULL;

        if (lyd_print_mem(&b, w->shared, LYD_LYB, LYD_PRINT_WITHSIBLINGS)) return -1;
        if (lyd_parse_data_mem(w->ctx, b, LYD_LYB, LYD_PARSE_STRICT, LYD_VALIDATE_PRESENT, &t)) { free(b); return -1; }
        free(b);
        lyd_free_all(w->shared);
        w->shared = t;
    }
    if (flags & 2) {
        char *s = NULL;

        LYD_TREE_DFS_BEGIN(w->shared, n) {
            if (n->schema && (n->schema->nodetype & LYD_NODE_TERM)) {
                lyd_get_value(n);
            }
            LYD_TREE_DFS_END(w->shared, n);
        }
        /* values nested in a union are only cached by a print */
        if (!lyd_print_mem(&s, w->shared, LYD_XML, LYD_PRINT_WITHSIBLINGS)) { free(s); s = NULL; }
        if (!lyd_print_mem(&s, w->shared, LYD_JSON, LYD_PRINT_WITHSIBLINGS)) { free(s); s = NULL; }
        if (!lyd_print_mem(&s, w->shared, LYD_LYB, LYD_PRINT_WITHSIBLINGS)) { free(s); s = NULL; }
    }
    return 0;
}

/* frees the shared tree, then counts (and drops) what is left of its canonical strings in the dictionary */
static long
world_free(struct world *w)
{
    long left = 0;
    int i;
    uint32_t lo;

    lyd_free_all(w->shared);
    lo = ly_log_options(0);
    for (i = 0; CANON_PROBE[i]; i++) {
        while (lydict_remove(w->ctx, CANON_PROBE[i]) == LY_SUCCESS) {
            left++;
            if (left > 100000) break;
        }
    }
    ly_log_options(lo);
    ly_ctx_destroy(w->ctx);
    return left;
}

static void
quiet_clb(LY_LOG_LEVEL level, const char *msg, const char *data_path, const char *schema_path, uint64_t line)
{
    (void)level; (void)msg; (void)data_path; (void)schema_path; (void)line;
}

int
main(void)
{
    struct vp_req r = {0};

    ly_set_log_clb(quiet_clb);
    while (vp_next(&r)) {
        const char *id = r.tok[0], *op = r.ntok > 2 ? r.tok[2] : "";

        if (r.ntok < 3) { vp_reply(r.ntok ? id : "?", "err BadLine"); continue; }
        if (!strcmp(op, "run") && (r.ntok == 8)) {
            int n = atoi(r.tok[3]), mode = atoi(r.tok[4]), flags = atoi(r.tok[5]), iters = atoi(r.tok[6]), seed = atoi(r.tok[7]);
            struct world a, b;
            struct work *conc, *ser;
            int i, equal = 0;
            long la, lb;
            unsigned long wrong = 0;
            char mism[512];
            size_t ml = 0;

            if ((n < 1) || (n > 64) || (iters < 0) || (iters > 100000)) { vp_reply(id, "err BadArgs"); continue; }
            ly_log_options((flags & 8) ? (LY_LOLOG | LY_LOSTORE) : (LY_LOLOG | LY_LOSTORE_LAST));
            if (world_new(&a, flags) || world_new(&b, flags)) { vp_reply(id, "err Setup"); continue; }
            conc = calloc(n, sizeof *conc);
            ser = calloc(n, sizeof *ser);
            pthread_barrier_init(&barrier, NULL, n);
            for (i = 0; i < n; i++) {
                conc[i].w = &a; conc[i].id = i; conc[i].mode = mode; conc[i].flags = flags; conc[i].iters = iters; conc[i].seed = seed;
                ser[i] = conc[i];
                ser[i].w = &b;
                conc[i].concurrent = 1;
                pthread_create(&conc[i].tid, NULL, thread_main, &conc[i]);
            }
            for (i = 0; i < n; i++) {
                pthread_join(conc[i].tid, NULL);
            }
            pthread_barrier_destroy(&barrier);
            for (i = 0; i < n; i++) {
                script(&ser[i]);
                ly_err_clean(b.ctx, NULL);
            }
            mism[0] = 0;
            for (i = 0; i < n; i++) {
                wrong += conc[i].wrong_err + ser[i].wrong_err;
                if ((conc[i].digest == ser[i].digest) && (conc[i].ops == ser[i].ops)) {
                    equal++;
                } else if (ml < sizeof mism - 8) {
                    ml += snprintf(mism + ml, sizeof mism - ml, "%s%d", ml ? "." : "", i);
                }
            }
            la = world_free(&a);
            lb = world_free(&b);
            vp_reply(id, "ok %d %d %s %lu %lu %ld %016llx", n, equal, ml ? mism : "-", conc[0].ops, wrong, la - lb,
                    (unsigned long long)conc[0].digest);
            free(conc);
            free(ser);
        } else if (!strcmp(op, "leakcheck")) {
            vp_reply(id, "ok %d", VP_LEAKCHECK() ? 1 : 0);
        } else {
            vp_reply(id, "err BadOp");
        }
    }
    free(r.line);
    return 0;
}
