/* White-box harness for component `xpath` (C08): node-set ordering and merging of xpath.c on synthetic sets.
 *   sort <items>            set_sort        -> ok <return value> <items>
 *   merge <trg> <src>       set_sorted_merge(trg, src) -> ok <trg items> <trg->used <= trg->size ? 1 : 0>
 *   sortk <keys> / mergek <keys> <keys>    the same with items given as position keys k: pos = k/2 + 1, node = k/2, type = k%2 ? TEXT : ELEM
 *   xplex <expr> / xpparse <expr>          lyxp_expr_parse without / with reparse (see op_xpparse), leakcheck
 * <items> = comma separated `pos:node:type` (type r|e|t), `-` = empty.  Node ids index an array of dummy lyd_node; positions are
 * non-zero so that set_assign_pos() leaves them alone.  xpath.c is included, so the statics are reached without a source hook. */
#define _GNU_SOURCE
#include "xpath.c"
#include "proto.h"

#define MAXN 4096
static struct lyd_node dummy[MAXN];
static struct ly_ctx *ctx;
static struct lyd_node *tree;

static int
parse_items(const char *s, struct lyxp_set *set, int keys)
{
    char *dup = strdup(s), *p, *save = NULL;

    memset(set, 0, sizeof *set);
    set->type = LYXP_SET_NODE_SET;
    set->ctx = ctx;
    set->tree = tree;
    set->root_type = LYXP_NODE_ROOT;
    if (!strcmp(s, "-")) { free(dup); return 0; }
    for (p = strtok_r(dup, ",", &save); p; p = strtok_r(NULL, ",", &save)) {
        unsigned long pos, node; char ty = 'e';
        if (keys) {
            unsigned long k = strtoul(p, NULL, 10);
            pos = k / 2 + 1; node = k / 2; ty = (k % 2) ? 't' : 'e';
        } else if (sscanf(p, "%lu:%lu:%c", &pos, &node, &ty) != 3) { free(dup); return -1; }
        if (node >= MAXN) { free(dup); return -1; }
        set_insert_node(set, &dummy[node], (uint32_t)pos, ty == 'r' ? LYXP_NODE_ROOT : ty == 't' ? LYXP_NODE_TEXT : LYXP_NODE_ELEM, set->used);
    }
    free(dup);
    return 0;
}

static void
put_items(const struct lyxp_set *set, int keys)
{
    uint32_t i;

    fputc(' ', stdout);
    if (!set->used || set->type != LYXP_SET_NODE_SET) { fputc('-', stdout); return; }
    for (i = 0; i < set->used; i++) {
        const struct lyxp_set_node *n = &set->val.nodes[i];
        unsigned long node = (unsigned long)(n->node - dummy);
        if (i) fputc(',', stdout);
        if (keys) fprintf(stdout, "%lu", node * 2 + (n->type == LYXP_NODE_TEXT ? 1 : 0));
        else fprintf(stdout, "%u:%lu:%c", n->pos, node, n->type == LYXP_NODE_ROOT ? 'r' : n->type == LYXP_NODE_TEXT ? 't' : 'e');
    }
}

/* xplex / xpparse: the tokenizer (lyxp_expr_parse without reparse) and tokenizer + reparse_* (grammar check, repeat arrays).
 *   xplex <expr>     -> ok <n> (<kind>:<pos>:<len>)*            | err Lex
 *   xpparse <expr>   -> ok <n> (<kind>:<pos>:<len>:<repeat>)*   | err Lex | err Parse
 * kind = numeric enum lyxp_token, repeat = `-` or the digits of the 0-terminated array of enum lyxp_expr_type in array order. */
static void
op_xpparse(const char *id, const char *hex, int reparse)
{
    struct lyxp_expr *exp = NULL;
    size_t len = 0;
    char *str = vp_unhex(hex, &len);
    uint32_t i, j;

    if (!str || (strlen(str) != len)) { vp_reply(id, "err BadArg"); free(str); return; }
    /* expr_len 0 means strlen() to lyxp_expr_parse and the empty string is refused before that: same result */
    if (lyxp_expr_parse(ctx, str, len, 0, &exp)) { vp_reply(id, "err Lex"); free(str); return; }
    if (reparse) {
        lyxp_expr_free(ctx, exp);
        exp = NULL;
        if (lyxp_expr_parse(ctx, str, len, 1, &exp)) { vp_reply(id, "err Parse"); free(str); return; }
    }
    vp_begin(id, "ok");
    vp_field_u(exp->used);
    for (i = 0; i < exp->used; i++) {
        fprintf(stdout, " %d:%u:%u", (int)exp->tokens[i], exp->tok_pos[i], exp->tok_len[i]);
        if (!reparse) continue;
        fputc(':', stdout);
        if (!exp->repeat || !exp->repeat[i]) { fputc('-', stdout); continue; }
        for (j = 0; exp->repeat[i][j]; j++) fprintf(stdout, "%d", (int)exp->repeat[i][j]);
    }
    vp_end();
    lyxp_expr_free(ctx, exp);
    free(str);
}

int
main(void)
{
    struct vp_req r = {0};
    struct lys_module *m;

    ly_log_options(LY_LOSTORE_LAST);
    if (ly_ctx_new(NULL, LY_CTX_NO_YANGLIBRARY, &ctx)) return 2;
    if (lys_parse_mem(ctx, "module wbx {namespace urn:wbx; prefix w; container c { leaf a {type string;} }}", LYS_IN_YANG, &m)) return 2;
    if (lyd_parse_data_mem(ctx, "<c xmlns=\"urn:wbx\"><a>x</a></c>", LYD_XML, LYD_PARSE_ONLY, 0, &tree)) return 2;

    while (vp_next(&r)) {
        const char *id = r.tok[0], *op = r.ntok > 2 ? r.tok[2] : "";

        if (r.ntok < 3) { vp_reply(r.ntok ? id : "?", "err BadLine"); continue; }
        if ((!strcmp(op, "sort") || !strcmp(op, "sortk")) && r.ntok == 4) {
            struct lyxp_set set; int keys = op[4] == 'k', ret;
            if (parse_items(r.tok[3], &set, keys)) { vp_reply(id, "err BadArg"); lyxp_set_free_content(&set); continue; }
            ret = set_sort(&set);
            fprintf(stdout, "%s ok %d", id, ret); put_items(&set, keys); vp_end();
            lyxp_set_free_content(&set);
        } else if ((!strcmp(op, "merge") || !strcmp(op, "mergek")) && r.ntok == 5) {
            struct lyxp_set trg, src; int keys = op[5] == 'k'; LY_ERR rc;
            if (parse_items(r.tok[3], &trg, keys) || parse_items(r.tok[4], &src, keys)) {
                vp_reply(id, "err BadArg"); lyxp_set_free_content(&trg); lyxp_set_free_content(&src); continue;
            }
            rc = set_sorted_merge(&trg, &src);
            if (rc) vp_reply(id, "err Merge");
            else { fprintf(stdout, "%s ok", id); put_items(&trg, keys); fprintf(stdout, " %d", trg.used <= trg.size ? 1 : 0); vp_end(); }
            lyxp_set_free_content(&trg); lyxp_set_free_content(&src);
        } else if ((!strcmp(op, "xplex") || !strcmp(op, "xpparse")) && r.ntok == 4) {
            op_xpparse(id, r.tok[3], op[2] == 'p');
        } else if (!strcmp(op, "leakcheck")) {
            vp_reply(id, "ok %d", VP_LEAKCHECK());          /* implementation only: 0 = nothing leaked so far */
        } else {
            vp_reply(id, "err BadOp");
        }
    }
    free(r.line);
    lyd_free_all(tree);
    ly_ctx_destroy(ctx);
    return 0;
}
