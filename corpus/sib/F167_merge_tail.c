/* Witness of F167 (public API only; build against libyang, e.g.
 *   clang -fsanitize=address -I<build> -I<build>/libyang -I<repo>/src F167_merge_tail.c <build>/libyang.a -lpcre2-8 -lm -ldl
 *
 * c1 = leaf-list [a b] with a sorting tree; [c .. h] are parsed INTO c1 with LYD_PARSE_ORDERED (appended, not in the tree:
 * F169); the whole list is unlinked (lyd_unlink_siblings) and moved with lyd_insert_child() into c2 = [z] (no tree):
 * lyds_merge_nodes2() merges c .. h through lyds_merge_nodes1() and then stores its stale root.
 *   unrepaired:  c2: a aa b c dd zz d e f g h z
 *   repaired:    c2: a aa b c d dd e f g h z zz
 */
#include <stdio.h>
#include <stdlib.h>
#include <string.h>
#include "libyang.h"
static const char *Y = "module szz { yang-version 1.1; namespace \"urn:szz\"; prefix z; container c { leaf-list sll { type string; } leaf a { type string; } } }";
static void show(const char *t, struct lyd_node *c){ struct lyd_node *n; printf("%s:", t); LY_LIST_FOR(lyd_child(c), n) printf(" %s", lyd_get_value(n)); printf("\n"); }
int main(void){
    struct ly_ctx *ctx; struct lyd_node *c1 = NULL, *c2 = NULL, *n;
    ly_ctx_new(NULL,0,&ctx);
    lys_parse_mem(ctx, Y, LYS_IN_YANG, NULL);
    lyd_parse_data_mem(ctx, "<c xmlns=\"urn:szz\"><sll>b</sll><sll>a</sll></c>", LYD_XML, LYD_PARSE_ONLY, 0, &c1);
    show("c1", c1);
    /* more instances, already sorted and larger, parsed INTO c1 with LYD_PARSE_ORDERED */
    struct ly_in *in; ly_in_new_memory("<sll xmlns=\"urn:szz\">c</sll><sll xmlns=\"urn:szz\">d</sll><sll xmlns=\"urn:szz\">e</sll><sll xmlns=\"urn:szz\">f</sll><sll xmlns=\"urn:szz\">g</sll><sll xmlns=\"urn:szz\">h</sll>", &in);
    printf("parse into: %d\n", lyd_parse_data(ctx, c1, in, LYD_XML, LYD_PARSE_ONLY | LYD_PARSE_ORDERED, 0, NULL));
    ly_in_free(in, 0);
    show("c1", c1);
    lyd_new_path(NULL, ctx, "/szz:c/sll", "z", 0, &c2);
    n = lyd_child(c1);
    lyd_unlink_siblings(n);
    printf("insert_child: %d\n", lyd_insert_child(c2, n));
    show("c2", c2);
    lyd_new_term(c2, NULL, "sll", "aa", 0, NULL);
    lyd_new_term(c2, NULL, "sll", "dd", 0, NULL);
    lyd_new_term(c2, NULL, "sll", "zz", 0, NULL);
    show("c2", c2);
    lyd_free_all(c1); lyd_free_all(c2); ly_ctx_destroy(ctx); return 0;
}
