/* Witness of F168 (public API only; build as F167_merge_tail.c).
 *
 * c1 = leaf-list [a b] with a sorting tree; [c d e] are parsed INTO c1 with LYD_PARSE_ORDERED (appended, not in the tree:
 * F169); lyd_unlink_siblings(d) -> lyds_split(): rb_remove_node() does not find d and leaves its output untouched, the
 * uninitialised pointer goes to free().
 *   unrepaired:  AddressSanitizer: attempting free on address which was not malloc()-ed (rb_free_node <- lyds_split)
 *   repaired:    c1: a b c / rest: d e
 * F169 itself: replace the unlink by lyd_new_term(c1, NULL, "sll", "dd", 0, NULL) -> a b dd c d e.
 */
#include <stdio.h>
#include <stdlib.h>
#include <string.h>
#include "libyang.h"
static const char *Y = "module szz { yang-version 1.1; namespace \"urn:szz\"; prefix z; container c { leaf-list sll { type string; } leaf a { type string; } } }";
static void show(const char *t, struct lyd_node *c){ struct lyd_node *n; printf("%s:", t); LY_LIST_FOR(c, n) printf(" %s", lyd_get_value(n)); printf("\n"); }
int main(void){
    struct ly_ctx *ctx; struct lyd_node *c1 = NULL, *n;
    ly_ctx_new(NULL,0,&ctx);
    lys_parse_mem(ctx, Y, LYS_IN_YANG, NULL);
    lyd_parse_data_mem(ctx, "<c xmlns=\"urn:szz\"><sll>b</sll><sll>a</sll></c>", LYD_XML, LYD_PARSE_ONLY, 0, &c1);
    struct ly_in *in; ly_in_new_memory("<sll xmlns=\"urn:szz\">c</sll><sll xmlns=\"urn:szz\">d</sll><sll xmlns=\"urn:szz\">e</sll>", &in);
    printf("parse into: %d\n", lyd_parse_data(ctx, c1, in, LYD_XML, LYD_PARSE_ONLY | LYD_PARSE_ORDERED, 0, NULL));
    ly_in_free(in, 0);
    show("c1", lyd_child(c1));
    n = lyd_child(c1)->next->next->next; /* d */
    printf("unlink_siblings(d): %d\n", lyd_unlink_siblings(n));
    show("c1", lyd_child(c1)); show("rest", n);
    lyd_free_siblings(n);
    lyd_free_all(c1); ly_ctx_destroy(ctx); return 0;
}
