#include <stdio.h>
#include <stdlib.h>
#include <string.h>
#include "libyang.h"
static const char *SCH = "module pp { namespace urn:pp; prefix p; yang-version 1.1;"
 " leaf-list ll { type uint8; } leaf-list ul { type string; ordered-by user; } leaf-list sl { config false; type string; } }";
static void show(const char *t, struct lyd_node *n){ char *s = NULL; lyd_print_mem(&s, n, LYD_JSON, LYD_PRINT_WITHSIBLINGS|LYD_PRINT_SHRINK); printf("%s: %s\n", t, s ? s : "(null)"); free(s); }
static struct lyd_node *mk(struct ly_ctx *ctx, const char **ll, const char **ul, const char **sl){
  struct lyd_node *t = NULL, *n; const struct lys_module *m = ly_ctx_get_module_implemented(ctx, "pp");
  for (; ll && *ll; ll++) { lyd_new_term(NULL, m, "ll", *ll, 0, &n); lyd_insert_sibling(t, n, &t); }
  for (; ul && *ul; ul++) { lyd_new_term(NULL, m, "ul", *ul, 0, &n); lyd_insert_sibling(t, n, &t); }
  for (; sl && *sl; sl++) { lyd_new_term(NULL, m, "sl", *sl, 0, &n); lyd_insert_sibling(t, n, &t); }
  return t; }
int main(void){ struct ly_ctx *ctx; ly_ctx_new(NULL, 0, &ctx); if (lys_parse_mem(ctx, SCH, LYS_IN_YANG, NULL)) return 2;
  const char *tll[] = {"1","2",0}, *tul[] = {"z","y",0}, *tsl[] = {"q","p",0};
  const char *sll[] = {"1","2","3","4",0}, *sul[] = {"x",0}, *ssl[] = {"o",0};
  for (int destruct = 0; destruct < 2; destruct++) {
    struct lyd_node *T = mk(ctx, tll, tul, tsl), *S = mk(ctx, sll, sul, ssl);
    show("T", T); show("S", S);
    LY_ERR r = lyd_merge_siblings(&T, S, destruct ? LYD_MERGE_DESTRUCT : 0);
    printf("destruct=%d r=%d\n", destruct, r); show("R", T);
    lyd_free_all(T); if (!destruct) lyd_free_all(S);
  }
  ly_ctx_destroy(ctx); return 0; }
