/* F162: lyd_dup_single_to_ctx() of a top-level node defined inside a choice fails with LY_ENOTFOUND */
#include <stdio.h>
#include "libyang.h"
static const char *SCH = "module pp { namespace urn:pp; prefix p; yang-version 1.1; choice ch { case a { leaf f { type string; } } } }";
int main(void){ struct ly_ctx *c1, *c2; struct lyd_node *n = NULL, *d = NULL; const struct lys_module *m;
  ly_ctx_new(NULL, 0, &c1); ly_ctx_new(NULL, 0, &c2);
  if (lys_parse_mem(c1, SCH, LYS_IN_YANG, NULL) || lys_parse_mem(c2, SCH, LYS_IN_YANG, NULL)) return 2;
  m = ly_ctx_get_module_implemented(c1, "pp");
  lyd_new_term(NULL, m, "f", "x", 0, &n);
  printf("dup_to_ctx -> %d (expected 0)\n", lyd_dup_single_to_ctx(n, c2, NULL, 0, &d));
  lyd_free_all(d); lyd_free_all(n); ly_ctx_destroy(c1); ly_ctx_destroy(c2); return 0; }
