#include <stdio.h>
#include <stdlib.h>
#include <string.h>
#include "libyang.h"
static const char *SCH = "module pp { namespace urn:pp; prefix p; yang-version 1.1;"
 " container c { leaf a {type string;} leaf b {type string;} leaf d {type string;} leaf-list ll { type string; } } }";
int main(void){ struct ly_ctx *ctx; struct lyd_node *c, *n, *x = NULL, *m;
  ly_ctx_new(NULL, 0, &ctx); if (lys_parse_mem(ctx, SCH, LYS_IN_YANG, NULL)) return 2;
  lyd_new_path(NULL, ctx, "/pp:c/a", "1", 0, &c);
  lyd_new_path(c, NULL, "/pp:c/b", "1", 0, NULL);
  lyd_new_path(c, NULL, "/pp:c/d", "1", 0, NULL);
  lyd_new_path(c, NULL, "/pp:c/ll", "m", 0, NULL);
  lyd_new_path(c, NULL, "/pp:c/ll", "x", 0, &x);      /* 5 children: the parent has a children hash table */
  lyd_change_term(x, "k");                              /* value change of a sorted leaf-list instance */
  lyd_free_tree(x);
  /* look the old value up */
  lyd_find_sibling_val(lyd_child(c), lyd_child(c)->prev->schema, "x", 0, &m);
  printf("found %p\n", (void *)m);
  lyd_free_all(c); ly_ctx_destroy(ctx); return 0; }
