/* F189 replay: lyd_validate_module is not idempotent when a non-presence container that is a member of a non-default case loses
 * its last explicit child DURING validation.  Build (ASan build of /repo):
 *   B=/var/tmp/verif-build/asan; gcc -fsanitize=address,undefined -I$B/libyang -I$B -I/repo/src F189_np_container_in_case.c $B/libyang.a -lpcre2-8 -lm -lpthread -ldl -o f189 && ./f189
 * Expected (defect present): after v1 the tree is <c/> (flags LYD_DEFAULT), after v2 the tree is EMPTY and diff2 is empty. */
#include <stdio.h>
#include <stdlib.h>
#include <string.h>
#include "libyang.h"
static const char *Y = "module m { namespace \"urn:m\"; prefix m; yang-version 1.1;"
" choice ch1 { case a1 { container c { choice ch2 { case a2 { leaf y {type string;} } case b2 { container c2 { leaf z {type string;} } } } } } case b1 { leaf w {type string;} } } }";
static void show(const char *tag, struct lyd_node *t) {
  char *s = NULL;
  lyd_print_mem(&s, t, LYD_XML, LYD_PRINT_WITHSIBLINGS | LYD_PRINT_WD_ALL_TAG | LYD_PRINT_KEEPEMPTYCONT | LYD_PRINT_SHRINK);
  printf("%s: %s\n", tag, s ? s : "(null)");
  for (struct lyd_node *n = t; n; n = n->next) if (n->schema && !strcmp(n->schema->module->name,"m")) printf("   top %s flags=%x\n", n->schema->name, n->flags);
  free(s);
}
int main(void) {
  struct ly_ctx *ctx; struct lys_module *mod; struct lyd_node *tree = NULL, *diff = NULL;
  ly_ctx_new(NULL, 0, &ctx);
  if (lys_parse_mem(ctx, Y, LYS_IN_YANG, &mod)) return 1;
  if (lyd_new_path(NULL, ctx, "/m:c/y", "v", 0, &tree)) return 2;
  printf("v0=%d\n", lyd_validate_module(&tree, mod, 0, NULL)); show("after v0", tree);
  if (lyd_new_path(tree, NULL, "/m:c/c2", NULL, 0, NULL)) return 3;
  show("after create c2", tree);
  printf("v1=%d\n", lyd_validate_module(&tree, mod, 0, &diff)); show("after v1", tree); show("diff1", diff); lyd_free_all(diff); diff = NULL;
  printf("v2=%d\n", lyd_validate_module(&tree, mod, 0, &diff)); show("after v2", tree); show("diff2", diff); lyd_free_all(diff); diff = NULL;
  printf("v3=%d\n", lyd_validate_module(&tree, mod, 0, &diff)); show("after v3", tree);
  lyd_free_all(tree); ly_ctx_destroy(ctx); return 0;
}
