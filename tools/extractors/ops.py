"""Extractor of component `valid`, operations part (C02 `ops_*` theorems): the facts of the C source the all-state variant
(`LyModel.Valid.stateVariant`) rests on.

(i)   tree_schema.h, macro `lysc_is_dup_inst_list`: EVALUATED on nodes of every kind and config flag combination (none = data of
      an operation, LYS_CONFIG_W, LYS_CONFIG_R) -> table `dupInstTable`; `opLeafListDupAllowed` = its value on a leaf-list without a
      config flag.
(ii)  schema_compile_node.c, `lys_compile_config`: under LYS_COMPILE_NO_CONFIG the config flags are cleared before anything else
      is looked at, the three compile options of rpc input / output / notification content contain that bit, and the compilation
      of input/output and of a notification sets them -> `opConfigIgnored`.
(iii) validation.c, `_lyd_validate_op`: in the LYD_INTOPT_REPLY branch `lyd_validate_new` runs on the children of the operation node
      before their implicit nodes are created (defect F193 when it does not) -> `replyOutputNewValidated`.
"""
import os, re, sys
sys.path.insert(0, os.path.dirname(os.path.dirname(os.path.abspath(__file__))))
import extract as ex   # noqa: E402
import minic           # noqa: E402


def _body(src, name, missing):
    m = re.search(r"^%s\(.*?^}" % re.escape(name), src, re.S | re.M)
    if not m:
        missing.append(name)
        return ""
    return minic.strip_comments(m.group(0))


def _fn_macro(path, name):
    """(parameter, body) of a one-parameter function-like macro"""
    src = minic.strip_comments(open(path).read()).replace("\\\n", " ")
    m = re.search(r"^[ \t]*#[ \t]*define[ \t]+%s\((\w+)\)[ \t]+(.+)$" % re.escape(name), src, re.M)
    if not m:
        raise minic.Unsupported("macro %s not found" % name)
    return m.group(1), m.group(2).strip()


def _eval_c_bool(expr, env, members):
    """a C expression of !, &&, ||, ==, !=, &, |, ?:, integer names and `par->member` -> int, through minic's parser; any other
    construct is refused"""
    def ev(e):
        k = e[0]
        if k == "num":
            return e[1]
        if k == "id":
            if e[1] in env:
                return env[e[1]]
            raise minic.Unsupported("unknown identifier " + e[1])
        if k == "member" and e[1][0] == "id" and (e[1][1], e[2]) in members:
            return members[(e[1][1], e[2])]
        if k == "un" and e[1] == "!":
            return 0 if ev(e[2]) else 1
        if k == "?:":
            return ev(e[2]) if ev(e[1]) else ev(e[3])
        if k == "bin":
            if e[1] == "&&":
                return 1 if (ev(e[2]) and ev(e[3])) else 0
            if e[1] == "||":
                return 1 if (ev(e[2]) or ev(e[3])) else 0
            a, b = ev(e[2]), ev(e[3])
            if e[1] == "==": return int(a == b)
            if e[1] == "!=": return int(a != b)
            if e[1] == "&": return a & b
            if e[1] == "|": return a | b
        raise minic.Unsupported("unsupported construct %r" % (e[:2],))
    return ev(minic.P(minic.tokenize(expr)).expr())


def gen_ops_facts():
    missing = []
    out = [ex.HEADER, "namespace LyModel.Generated\n"]
    mc = ex.Macros(["tree_schema.h", "plugins_exts.h"])
    c = {n: mc.value(n) for n in ["LYS_LIST", "LYS_LEAFLIST", "LYS_LEAF", "LYS_CONTAINER", "LYS_KEYLESS", "LYS_CONFIG_W", "LYS_CONFIG_R",
                                  "LYS_CONFIG_MASK", "LYS_COMPILE_NO_CONFIG", "LYS_COMPILE_RPC_INPUT", "LYS_COMPILE_RPC_OUTPUT",
                                  "LYS_COMPILE_NOTIFICATION"]}

    # (i) the duplicate-instance macro, evaluated
    par, body = _fn_macro(os.path.join(ex.SRC, "tree_schema.h"), "lysc_is_dup_inst_list")
    rows = []
    table = {}
    for kname, nodetype, extra in (("leaflist", c["LYS_LEAFLIST"], 0), ("keylessList", c["LYS_LIST"], c["LYS_KEYLESS"]),
                                   ("keyedList", c["LYS_LIST"], 0), ("leaf", c["LYS_LEAF"], 0), ("container", c["LYS_CONTAINER"], 0)):
        for cname, cfg in (("none", 0), ("w", c["LYS_CONFIG_W"]), ("r", c["LYS_CONFIG_R"])):
            env = dict(c)
            env[par] = 1
            v = _eval_c_bool(body, env, {(par, "nodetype"): nodetype, (par, "flags"): cfg | extra})
            table[(kname, cname)] = bool(v)
            rows.append('  ("%s", "%s", %s)' % (kname, cname, "true" if v else "false"))
    out.append("-- tree_schema.h: lysc_is_dup_inst_list(node) evaluated per (node kind, config flag: none = operation data / w / r)")
    out.append("def dupInstTable : List (String × String × Bool) := [\n" + ",\n".join(rows) + "]")
    out.append("-- a leaf-list without a config flag (rpc input / output, notification content) may repeat a value")
    out.append("def opLeafListDupAllowed : Bool := %s" % ("true" if table[("leaflist", "none")] else "false"))

    # (ii) config is ignored inside operations
    comp = open(os.path.join(ex.SRC, "schema_compile_node.c")).read()
    cfg = _body(comp, "lys_compile_config", missing)
    first_branch = re.search(r"if\s*\(\s*ctx->compile_opts\s*&\s*LYS_COMPILE_NO_CONFIG\s*\)\s*\{\s*node->flags\s*&=\s*~\s*LYS_CONFIG_MASK\s*;\s*\}\s*else", cfg)
    bits = all(c[n] & c["LYS_COMPILE_NO_CONFIG"] for n in ("LYS_COMPILE_RPC_INPUT", "LYS_COMPILE_RPC_OUTPUT", "LYS_COMPILE_NOTIFICATION"))
    inout = _body(comp, "lys_compile_node_action_inout", missing)
    set_inout = re.search(r"ctx->compile_opts\s*\|=\s*\(\s*inout_p->nodetype\s*==\s*LYS_INPUT\s*\)\s*\?\s*LYS_COMPILE_RPC_INPUT\s*:\s*LYS_COMPILE_RPC_OUTPUT\s*;"
                          r".*?lys_compile_node\(", inout, re.S)
    set_notif = re.search(r"case\s+LYS_NOTIF\s*:.*?ctx->compile_opts\s*\|=\s*LYS_COMPILE_NOTIFICATION\s*;", minic.strip_comments(comp), re.S)
    flags_fn = _body(comp, "lys_compile_node_flags", missing)
    called = re.search(r"lys_compile_config\(ctx,\s*node\)", flags_fn)
    out.append("\n-- schema_compile_node.c: lys_compile_config clears the config flags under LYS_COMPILE_NO_CONFIG (first branch), the compile")
    out.append("-- options of rpc input / output / notification content contain that bit and are set before their children are compiled")
    out.append("def opConfigIgnored : Bool := %s" % ("true" if (first_branch and bits and set_inout and set_notif and called) else "false"))
    out.append("def opConfigIgnoredParts : List (String × Bool) := [%s]" % ", ".join(
        '("%s", %s)' % (n, "true" if v else "false") for n, v in (("clears-flags-first", first_branch), ("option-bits", bits),
                                                                     ("inout-sets-option", set_inout), ("notif-sets-option", set_notif),
                                                                     ("flags-call-config", called))))

    # (iii) reply: new-node validation of the output siblings
    val = open(os.path.join(ex.SRC, "validation.c")).read()
    vop = _body(val, "_lyd_validate_op", missing)
    m = re.search(r"if\s*\(\s*int_opts\s*&\s*LYD_INTOPT_REPLY\s*\)\s*\{\s*if\s*\(\s*validate_subtree\s*\)\s*\{(.*?)\}\s*else\s*\{", vop, re.S)
    reply = m.group(1) if m else ""
    if not m:
        missing.append("_lyd_validate_op:reply-branch")
    inew = reply.find("lyd_validate_new(lyd_node_child_p(op_node)")
    iimpl = reply.find("lyd_new_implicit(")
    out.append("\n-- validation.c: _lyd_validate_op runs lyd_validate_new on the output siblings of a reply before lyd_new_implicit (F193 if not)")
    out.append("def replyOutputNewValidated : Bool := %s" % ("true" if (inew >= 0 and (iimpl < 0 or inew < iimpl)) else "false"))
    out.append("\nend LyModel.Generated\n")
    if missing:
        out.insert(1, "-- not found in this tree: " + " ".join(missing))
    return "\n".join(out), missing


EXTRACTORS = {"OpsFacts": gen_ops_facts}
