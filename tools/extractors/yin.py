"""Extractor of component Yin (C10, YIN route): the per-keyword tables the generic statement layer of printer_yin.c and
parser_yin.c consults, read off the C source:

  * `lys_stmt_str` / `lys_stmt_arg` / `lys_stmt_flags` (tree_schema_common.c) for every keyword `lysp_match_kw` can return:
    keyword text -> (YIN argument name, argument is a YIN element?)                                   [printer side]
  * the switch of `yin_parse_extension_instance_arg` (parser_yin.c): keyword -> (attribute the parser accepts, spelled as
    `yin_match_argument_name` spells the YIN_ARG_* constant; or: argument read from the first child element)  [parser side]
  * `is_xmlqnamestartchar` / `is_xmlqnamechar` (xml.h) as inclusive code-point ranges (the macro is *evaluated* for every
    code point, so exclusions such as `c != 0x37e` are carried), `is_xmlws`, `YIN_NS_URI`

Text-level: each piece has exactly the expected shape or the extractor refuses (minic.Unsupported)."""
import os, re, sys

sys.path.insert(0, os.path.dirname(os.path.dirname(os.path.abspath(__file__))))
import minic  # noqa: E402
import extract as ex  # noqa: E402
sys.path.insert(0, os.path.dirname(os.path.abspath(__file__)))
import yangstr as ys  # noqa: E402


def read(f):
    return minic.strip_comments(open(os.path.join(ex.SRC, f)).read())


def switch_returns(src, fname):
    """{enum constant: returned expression text} of a function that is one `switch (stmt) { case A: case B: return X; … }`"""
    body = ys.func_body(src, fname)
    m = re.search(r"switch\s*\(\s*stmt\s*\)\s*\{", body)
    if not m:
        raise minic.Unsupported("%s: switch (stmt) not found" % fname)
    out, pending = {}, []
    for t in re.finditer(r"case\s+(\w+)\s*:|return\s+([^;]+);", body[m.end():]):
        if t.group(1):
            pending.append(t.group(1))
        else:
            for p in pending:
                if p in out:
                    raise minic.Unsupported("%s: %s twice" % (fname, p))
                out[p] = t.group(2).strip()
            pending = []
    return out


def trie_keywords(co):
    """[(keyword text, LY_STMT_* constant)] of lysp_match_kw, source order"""
    body = ys.func_body(co, "lysp_match_kw")
    body = body[body.index("switch (in->current[0])"):]
    out, first, stack = [], None, []
    tok = re.compile(r"case\s+(%s)\s*:|IF_KW_PREFIX_END|IF_KW_PREFIX\(\s*(%s)\s*,\s*\d+\s*\)|IF_KW\(\s*(%s)\s*,\s*\d+\s*,\s*(\w+)\s*\)|(default)\s*:" %
                     (ys.CHARLIT, ys.STRLIT, ys.STRLIT))
    for m in tok.finditer(body):
        if m.group(1):
            first, stack = bytes([ys.cchar(m.group(1))]), []
        elif m.group(0) == "IF_KW_PREFIX_END":
            stack.pop()
        elif m.group(2):
            stack.append(ys.cstr(m.group(2)))
        elif m.group(3):
            out.append((first + b"".join(stack) + ys.cstr(m.group(3)), m.group(4)))
        else:
            break
    if len(out) < 60:
        raise minic.Unsupported("lysp_match_kw: only %d keywords" % len(out))
    return out


def arg_names(pa):
    """{YIN_ARG_*: spelled name} of yin_match_argument_name (READ_INC / ARG_CHECK / ARG_SET macros)"""
    body = ys.func_body(pa, "yin_match_argument_name")
    body = body[body.index("switch (*name)"):]
    out, stack, first, depth_of = {}, [], None, []
    tok = re.compile(r"case\s+(%s)\s*:|ARG_CHECK\(\s*(%s)\s*,\s*(\d+)\s*\)|ARG_SET\(\s*(\w+)\s*\)|(\{)|(\})|(break)\s*;" % (ys.CHARLIT, ys.STRLIT))
    depth = 0
    for m in tok.finditer(body):
        if m.group(1):
            first, stack, depth_of, depth = bytes([ys.cchar(m.group(1))]), [], [], 0
        elif m.group(2):
            s = ys.cstr(m.group(2))
            if len(s) != int(m.group(3)):
                raise minic.Unsupported("yin_match_argument_name: length of %r" % s)
            # an ARG_CHECK is always the condition of an `if (…) {`: its string stays on the stack until that block closes
            stack.append(s); depth_of.append(depth)
        elif m.group(4):
            if first is None:
                raise minic.Unsupported("yin_match_argument_name: ARG_SET outside a case")
            out[m.group(4)] = first + b"".join(stack)
        elif m.group(5):
            depth += 1
        elif m.group(6):
            depth -= 1
            while depth_of and depth_of[-1] >= depth:
                depth_of.pop(); stack.pop()
            if depth < 0:
                break
        elif m.group(7):
            first = None
    if "already_read != len" not in body:
        raise minic.Unsupported("yin_match_argument_name: whole-name check changed")
    if len(out) < 9:
        raise minic.Unsupported("yin_match_argument_name: only %d names" % len(out))
    return out


def parse_arg_switch(pa, names):
    """{LY_STMT_*: (attribute name | None, from child element?)} of yin_parse_extension_instance_arg"""
    body = ys.func_body(pa, "yin_parse_extension_instance_arg")
    m = re.search(r"switch\s*\(\s*parent_stmt\s*\)\s*\{", body)
    if not m:
        raise minic.Unsupported("yin_parse_extension_instance_arg: switch not found")
    rest = body[m.end():]
    out, pending = {}, []
    tok = re.compile(r"case\s+(\w+)\s*:|yin_parse_attribute\(\s*ctx\s*,\s*(\w+)\s*,\s*arg\s*,\s*(\w+)\s*,\s*parent_stmt\s*\)\s*\)\s*;\s*(break\s*;)?|(default)\s*:")
    for t in tok.finditer(rest):
        if t.group(1):
            pending.append(t.group(1))
        elif t.group(2):
            if t.group(3) != "Y_MAYBE_STR_ARG":
                raise minic.Unsupported("yin_parse_extension_instance_arg: value type %s" % t.group(3))
            a = t.group(2)
            if a != "YIN_ARG_NONE" and a not in names:
                raise minic.Unsupported("yin_parse_extension_instance_arg: %s has no spelling" % a)
            elem = t.group(4) is None          # no `break` right after the attribute loop: the child-element branch follows
            for p in pending:
                out[p] = (None if a == "YIN_ARG_NONE" else names[a], elem)
            pending = []
        else:
            break
    elems = sorted(k for k, v in out.items() if v[1])
    if elems and ("LY_VCODE_FIRT_SUBELEM" not in rest or "LY_STMT_ARG_TEXT" not in rest or "LY_STMT_ARG_VALUE" not in rest):
        raise minic.Unsupported("yin_parse_extension_instance_arg: child-element branch changed")
    return out


def c_to_py(expr):
    e = re.sub(ys.CHARLIT, lambda m: str(ys.cchar(m.group(0))), expr)
    e = e.replace("||", " or ").replace("&&", " and ")
    e = re.sub(r"!(?!=)", " not ", e)
    if re.search(r"[^\s\w()<>=!|&]", e.replace(" or ", " ").replace(" and ", " ").replace(" not ", " ")):
        raise minic.Unsupported("character-class macro uses an unexpected operator: %r" % expr)
    return e


def class_ranges(hdr, name):
    src = hdr.replace("\\\n", " ")
    m = re.search(r"#\s*define\s+%s\(c\)\s+(.*)$" % name, src, re.M)
    if not m:
        raise minic.Unsupported("%s not found" % name)
    code = compile("lambda c: (" + c_to_py(m.group(1)) + ")", name, "eval")
    f = eval(code, {"__builtins__": {}})
    ranges, start = [], None
    for c in range(0, 0x110001):
        v = bool(f(c)) if c < 0x110000 else False
        if v and start is None:
            start = c
        elif not v and start is not None:
            ranges.append((start, c - 1)); start = None
    return ranges


def gen_yinargs():
    co, pa, xh = read("tree_schema_common.c"), read("parser_yin.c"), read("xml.h")
    ih = read("tree_schema_internal.h")
    kws = trie_keywords(co)
    strs, args, flags = switch_returns(co, "lys_stmt_str"), switch_returns(co, "lys_stmt_arg"), switch_returns(co, "lys_stmt_flags")
    names = arg_names(pa)
    parg = parse_arg_switch(pa, names)
    m = re.search(r"#\s*define\s+YIN_NS_URI\s+(%s)" % ys.STRLIT, ih)
    if not m:
        raise minic.Unsupported("YIN_NS_URI not found")
    yin_ns = ys.cstr(m.group(1))
    if not any(re.search(r"#\s*define\s+IS_YIN_NS\(\w+\)\s+\(strcmp\(\w+,\s*YIN_NS_URI\)\s*==\s*0\)", read(f))
               for f in sorted(os.listdir(ex.SRC)) if f.endswith((".h", ".c")) and ("yin" in f or "internal" in f)):
        raise minic.Unsupported("IS_YIN_NS changed")

    def opt(b):
        return "none" if b is None else "some " + ex.lean_bytes(b)

    def cstr_or_null(e):
        if e == "NULL":
            return None
        if re.fullmatch(ys.STRLIT, e):
            return ys.cstr(e)
        raise minic.Unsupported("unexpected return expression %r" % e)

    rows_p, rows_r = [], []
    for text, const in kws:
        s = cstr_or_null(strs.get(const, "NULL"))
        if s != text:
            raise minic.Unsupported("lys_stmt_str(%s) = %r but lysp_match_kw spells %r" % (const, s, text))
        a = cstr_or_null(args.get(const, "NULL"))
        fl = flags.get(const)
        if fl not in ("0", "LY_STMT_FLAG_ID", "LY_STMT_FLAG_YIN"):
            raise minic.Unsupported("lys_stmt_flags(%s) = %r" % (const, fl))
        rows_p.append("  (%s /- %s -/, %s, %s)" % (ex.lean_bytes(text), text.decode(), opt(a), "true" if fl == "LY_STMT_FLAG_YIN" else "false"))
        if const in parg:
            an, elem = parg[const]
            rows_r.append("  (%s /- %s -/, %s, %s)" % (ex.lean_bytes(text), text.decode(), opt(an), "true" if elem else "false"))
    # candidate repair of F340 (fixes/F340.diff): yin_parse_element_generic maps the argument-element keywords it can still meet
    gen = ys.func_body(pa, "yin_parse_element_generic")
    r1 = re.search(r"\(\*element\)->kw\s*==\s*LY_STMT_ARG_VALUE\s*\)\s*\{\s*\(\*element\)->kw\s*=\s*LY_STMT_VALUE\s*;", gen)
    r2 = re.search(r"\(\*element\)->kw\s*==\s*LY_STMT_ARG_TEXT\s*\)\s*\{\s*\(\*element\)->kw\s*=\s*LY_STMT_NONE\s*;", gen)
    if bool(r1) != bool(r2) or (not r1 and "LY_STMT_ARG_" in gen):
        raise minic.Unsupported("yin_parse_element_generic: unexpected handling of LY_STMT_ARG_VALUE / LY_STMT_ARG_TEXT")
    # candidate repairs of F342 / F341 (fixes/F342.diff, fixes/F341.diff)
    mk = ys.func_body(pa, "yin_match_keyword")
    exact = re.search(r'name_len\s*==\s*ly_strlen_const\("text"\)\s*\)\s*&&\s*\(\s*strncmp\(start,\s*"text",\s*name_len\)\s*==\s*0', mk)
    if not exact and not re.search(r'if\s*\(\s*strncmp\(start,\s*"text",\s*name_len\)\s*==\s*0\s*\)', mk):
        raise minic.Unsupported("yin_match_keyword: the test for the argument element `text` changed")
    st1 = re.search(r"if\s*\(ctx->xmlctx->value_len\)\s*\{\s*if\s*\(\(\*element\)->kw\s*!=\s*LY_STMT_EXTENSION_INSTANCE\)\s*\{[^}]*ret\s*=\s*LY_EVALID;\s*goto cleanup;", gen)
    st2 = re.search(r"lyxml_ctx_next\(ctx->xmlctx\),\s*cleanup\);\s*if\s*\(ctx->xmlctx->status\s*!=\s*LYXML_ELEM_CLOSE\)\s*\{[^}]*ret\s*=\s*LY_EVALID;\s*goto cleanup;", gen)
    st3 = re.search(r"load closing tag of subelement|LY_CHECK_RET\(lyxml_ctx_next\(ctx->xmlctx\)\);\s*if\s*\(ctx->xmlctx->status\s*!=\s*LYXML_ELEM_CLOSE\)\s*\{[^}]*return LY_EVALID;",
                    ys.func_body(pa, "yin_parse_extension_instance_arg"))
    st3 = re.search(r"LY_CHECK_RET\(lyxml_ctx_next\(ctx->xmlctx\)\);\s*if\s*\(ctx->xmlctx->status\s*!=\s*LYXML_ELEM_CLOSE\)\s*\{[^}]*return LY_EVALID;",
                    ys.func_body(pa, "yin_parse_extension_instance_arg"))
    if bool(st1) != bool(st2) or bool(st1) != bool(st3):
        raise minic.Unsupported("yin_parse_element_generic: text-content checks only partly present")
    out = [ex.HEADER, "import LyModel.Base", "namespace LyModel.Generated\n"]
    out.append("/-- parser_yin.c, yin_match_keyword: the argument element must be spelled `text` exactly (repair of F342); `false`: every")
    out.append("    name the keyword trie does not consume and that is a prefix of `text` (`strncmp(start, \"text\", name_len)`) -/")
    out.append("def yinTextExact : Bool := %s\n" % ("true" if exact else "false"))
    out.append("/-- parser_yin.c, yin_parse_element_generic: text content of a YANG statement element and mixed content are refused (repair of F341) -/")
    out.append("def yinTextStrict : Bool := %s\n" % ("true" if st1 else "false"))
    out.append("/-- parser_yin.c, yin_parse_element_generic: an element matched as `LY_STMT_ARG_VALUE` is read as a `value` statement and one")
    out.append("    matched as `LY_STMT_ARG_TEXT` is refused as unknown (repair of F340); `false`: both end in `LOGINT` -/")
    out.append("def yinArgRemap : Bool := %s\n" % ("true" if r1 else "false"))
    out.append("/-- `YIN_NS_URI` -/\ndef yinNsUri : Bytes := %s\n" % ex.lean_bytes(yin_ns))
    out.append("/-- printer side: keyword (as `lysp_match_kw` and `lys_stmt_str` spell it) -> (`lys_stmt_arg`, `lys_stmt_flags & LY_STMT_FLAG_YIN`) -/")
    out.append("def yinStmtTable : List (Bytes × Option Bytes × Bool) := [\n" + ",\n".join(rows_p) + "\n]\n")
    out.append("/-- parser side, `yin_parse_extension_instance_arg`: keyword -> (the one unprefixed attribute `yin_parse_attribute` accepts,")
    out.append("    spelled as `yin_match_argument_name` spells it; `none` = YIN_ARG_NONE; argument read from the first child element?) -/")
    out.append("def yinParseArgTable : List (Bytes × Option Bytes × Bool) := [\n" + ",\n".join(rows_r) + "\n]\n")
    out.append("/-- `yin_match_argument_name`: the attribute names it recognises -/")
    out.append("def yinArgNames : List Bytes := [\n" + ",\n".join("  %s /- %s -/" % (ex.lean_bytes(v), v.decode()) for k, v in sorted(names.items(), key=lambda kv: kv[1])) + "\n]\n")
    for macro, lean in (("is_xmlqnamestartchar", "xmlNameStartRanges"), ("is_xmlqnamechar", "xmlNameCharRanges"), ("is_xmlws", "xmlWsRanges")):
        out.append("/-- `%s(c)`: inclusive code-point ranges (the macro evaluated for every code point) -/" % macro)
        out.append("def %s : List (Nat × Nat) := [\n" % lean + ",\n".join("  (0x%x, 0x%x)" % r for r in class_ranges(xh, macro)) + "\n]\n")
    out.append("end LyModel.Generated\n")
    return "\n".join(out), []


EXTRACTORS = {"YinArgs": gen_yinargs}
