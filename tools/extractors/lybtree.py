"""Extractor for the LYB tree level (component `lybtree`, property C01) -> Generated/LybTree.lean.

Read off the C source, separately for the printer (printer_lyb.c) and the parser (parser_lyb.c), so that the round-trip theorem
`lyb_tree_roundtrip` needs the *facts* `P_x = R_x` (closed by `rfl`/`decide` on the generated values): an edit that changes the width
of a field on one side only (finding F33 was such an edit) breaks the proof, one that changes both changes the byte image the model
produces, which is compared byte for byte with libyang's.

 * the width in bytes of every length / count / flags field of the tree level
 * enum lylyb_node_type (lyb.h)
 * `.plugin.lyb_data_len` of every built-in type plug-in (plugins_types/*.c): fixed-size vs length-prefixed term values
 * the magic number bytes
Refuses (reports `missing`) when a statement does not have the shape the model mirrors.
"""
import os, re, sys

sys.path.insert(0, os.path.dirname(os.path.dirname(os.path.abspath(__file__))))
import minic            # noqa: E402
import extract as ex    # noqa: E402

SIZEOF = {"uint8_t": 1, "uint16_t": 2, "uint32_t": 4, "uint64_t": 8, "int8_t": 1, "int16_t": 2, "int32_t": 4, "int64_t": 8}


def squash(s):
    return re.sub(r"\s+", "", minic.strip_comments(s))


def body(path, fn):
    _, b = minic.function_source(path, fn)
    return squash(b)


def width(tok, locals_=None):
    """`sizeof(uint16_t)` | `sizeofx` (x a local of known type) | decimal literal"""
    m = re.fullmatch(r"sizeof\((\w+)\)", tok)
    if m and m.group(1) in SIZEOF:
        return SIZEOF[m.group(1)]
    m = re.fullmatch(r"sizeof\*?(\w+)", tok)
    if m and locals_ and m.group(1) in locals_:
        return SIZEOF[locals_[m.group(1)]]
    if re.fullmatch(r"\d+", tok):
        return int(tok)
    return None


def gen_lybtree():
    pr = os.path.join(ex.SRC, "printer_lyb.c")
    pa = os.path.join(ex.SRC, "parser_lyb.c")
    missing = []
    vals = []

    def want(name, fn_path, fn, regex, locals_=None, doc=""):
        b = body(fn_path, fn)
        m = re.search(regex, b)
        v = width(m.group(1), locals_) if m else None
        if v is None:
            missing.append("%s (%s)" % (name, fn))
            return
        vals.append((name, v, "%s: %s" % (fn, doc)))

    # ---- printer
    want("P_MODCOUNT", pr, "lyb_print_data_models", r"lyb_write_number\(set->count,(\w+),out,lybctx\)", doc="module count")
    want("P_MODNAME", pr, "lyb_print_model", r"lyb_write_string\(mod->name,0,(sizeof\(\w+\)),out,lybctx\)", doc="module name length")
    want("P_REV", pr, "lyb_print_model", r"lyb_write_number\(revision,(sizeofrevision),out,lybctx\)", {"revision": "uint16_t"}, "revision word")
    want("P_FEATCOUNT", pr, "lyb_print_model", r"lyb_write_number\(feat_set\.count,(sizeof\(\w+\)),out,lybctx\)", doc="enabled feature count")
    want("P_FEATNAME", pr, "lyb_print_model", r"lyb_write_string\(f->name,0,(sizeof\(\w+\)),out,lybctx\)", doc="feature name length")
    want("P_NODETYPE", pr, "lyb_print_lyb_type", r"lyb_write_number\(lyb_type,(\w+),out,lybctx->lybctx\)", doc="node type")
    want("P_METACOUNT", pr, "lyb_print_metadata", r"lyb_write\(out,&count,(\w+),lybctx->lybctx\)", doc="metadata count")
    want("P_METANAME", pr, "lyb_print_metadata", r"lyb_write_string\(iter->name,0,(sizeof\(\w+\)),out,lybctx->lybctx\)", doc="annotation name length")
    want("P_METAVAL", pr, "lyb_print_metadata", r"lyb_write_string\(lyd_get_meta_value\(iter\),0,(sizeof\(\w+\)),out,lybctx->lybctx\)", doc="metadata value length")
    # the with-defaults annotation block of lyb_print_metadata (finding F330: fixes/F330.diff removes it)
    b = body(pr, "lyb_print_metadata")
    wd_get = 'wd_mod=ly_ctx_get_module_latest(node->schema->module->ctx,"ietf-netconf-with-defaults");' in b
    wd_cond = ("if(((node->flags&LYD_DEFAULT)&&(lybctx->print_options&(LYD_PRINT_WD_ALL_TAG|LYD_PRINT_WD_IMPL_TAG)))||"
               "((lybctx->print_options&LYD_PRINT_WD_ALL_TAG)&&lyd_is_default(node))){") in b
    wd_write = "if(wd_mod){LY_CHECK_RET(lyb_print_model(out,wd_mod,0,lybctx->lybctx));" in b
    wd_annot = None
    if wd_get and wd_cond and wd_write and "if(wd_mod){++count;}" in b:
        wd_annot = True
        want("P_WDNAME", pr, "lyb_print_metadata", r"lyb_write_string\(\"default\",0,(sizeof\(\w+\)),out,lybctx->lybctx\)", doc="wd default annotation name length")
        want("P_WDVAL", pr, "lyb_print_metadata", r"lyb_write_string\(\"true\",0,(sizeof\(\w+\)),out,lybctx->lybctx\)", doc="wd default annotation value length")
    elif "wd_mod" not in b and "with-defaults" not in b and "LYD_PRINT_WD" not in b:
        wd_annot = False
        vals.append(("P_WDNAME", 2, "lyb_print_metadata: (no with-defaults annotation in this tree; width of an annotation name)"))
        vals.append(("P_WDVAL", 8, "lyb_print_metadata: (no with-defaults annotation in this tree; width of an annotation value)"))
    else:
        missing.append("lyb_print_metadata: with-defaults block of an unknown shape")
    b = body(pr, "lyb_print_node_header")
    if "lyb_write_number(node->flags,sizeofnode->flags,out,lybctx->lybctx)" in b and re.search(r"uint32_t\s+flags;", open(os.path.join(ex.SRC, "tree_data.h")).read()):
        vals.append(("P_FLAGS", 4, "lyb_print_node_header: sizeof node->flags (uint32_t flags in struct lyd_node)"))
    else:
        missing.append("P_FLAGS")
    want("P_TERMLEN", pr, "lyb_print_term_value", r"lyb_write_number\(value_len,(sizeof\(\w+\)),out,lybctx\)", doc="length of a variable-size term value")
    b = body(pr, "lyb_print_term_value")
    if not ("if(lyb_data_len<0){" in b and "value_len=lyb_data_len;" in b and "if(value_len>0){ret=lyb_write(out,value,value_len,lybctx);" in b
            and "if(value_len>UINT32_MAX){" in b):
        missing.append("lyb_print_term_value: fixed/variable decision of an unknown shape")
    b = body(pr, "lyb_print_schema_hash")
    if not ("LY_CHECK_RET(lyb_write(out,&hash,sizeofhash,lybctx));if(hash&LYB_HASH_COLLISION_ID){returnLY_SUCCESS;}" in b
            and "for(i=0;!(hash&(LYB_HASH_COLLISION_ID>>i));++i){}for(;i;--i){hash=lyb_get_hash(schema,i-1);" in b):
        missing.append("lyb_print_schema_hash: shape")
    b = body(pr, "lyb_print_magic_number")
    m = re.search(r"charmagic_number\[\]=\{'(.)','(.)','(.)'\};LY_CHECK_RET\(ly_write_\(out,magic_number,3\)\);", b)
    magic = [ord(c) for c in m.groups()] if m else None
    if not magic:
        missing.append("lyb_print_magic_number")

    # ---- parser
    want("R_MODCOUNT", pa, "lyb_parse_data_models", r"lyb_read_number\(&count,sizeofcount,(\w+),lybctx\)", doc="module count")
    want("R_MODNAME", pa, "lyb_read_model", r"lyb_read_number\(&length,2,(\w+),lybctx\);if\(!length\)", doc="module name length")
    want("R_REV", pa, "lyb_read_model", r"lyb_read_number\(&rev,sizeofrev,(\w+),lybctx\)", doc="revision word")
    want("R_FEATCOUNT", pa, "lyb_read_model", r"lyb_read_number\(&length,sizeoflength,(sizeoflength),lybctx\)", {"length": "uint16_t"}, "enabled feature count")
    want("R_FEATNAME", pa, "lyb_read_model", r"lyb_read_string\(&str,(sizeoflength),lybctx\)", {"length": "uint16_t"}, "feature name length")
    want("R_NODETYPE", pa, "lyb_parse_node", r"lyb_read_number\(&lyb_type,sizeoflyb_type,(\w+),lybctx->lybctx\)", doc="node type")
    want("R_METACOUNT", pa, "lyb_parse_metadata", r"lyb_read\(&count,(\w+),lybctx->lybctx\)", doc="metadata count")
    want("R_METANAME", pa, "lyb_parse_metadata", r"lyb_read_string\(&meta_name,(sizeof\(\w+\)),lybctx->lybctx\)", doc="annotation name length")
    want("R_METAVAL", pa, "lyb_parse_metadata", r"lyb_read_string\(&meta_value,(sizeof\(\w+\)),lybctx->lybctx\)", doc="metadata value length")
    want("R_METASKIPNAME", pa, "lyb_parse_metadata", r"if\(!mod\)\{lyb_skip_string\((sizeof\(\w+\)),lybctx->lybctx\);", doc="skip branch (module of the annotation not in the context): annotation name length")
    want("R_METASKIPVAL", pa, "lyb_parse_metadata", r"if\(!mod\)\{lyb_skip_string\(sizeof\(\w+\),lybctx->lybctx\);lyb_skip_string\((sizeof\(\w+\)),lybctx->lybctx\);continue;\}", doc="skip branch: metadata value length (finding F331: 2 on the pinned tree, printed on 8)")
    want("R_FLAGS", pa, "lyb_parse_node_header", r"lyb_read_number\(flags,sizeof\*flags,(sizeof\*flags),lybctx->lybctx\)", {"flags": "uint32_t"}, "node flags")
    want("R_TERMLEN", pa, "lyb_read_term_value", r"lyb_read_number\(term_value_len,sizeof\*term_value_len,(sizeof\*term_value_len),lybctx\)",
         {"term_value_len": "uint64_t"}, "length of a variable-size term value")
    b = body(pa, "lyb_read_term_value")
    if not ("if(lyb_data_len<0){" in b and "*term_value_len=lyb_data_len;" in b and "if(*term_value_len>0){lyb_read(*term_value,*term_value_len,lybctx);}" in b):
        missing.append("lyb_read_term_value: fixed/variable decision of an unknown shape")
    b = body(pa, "lyb_read_hashes")
    if not ("lyb_read(&hash[0],sizeof*hash,lybctx);if(!hash[0]){" in b and "for(i=0;!(hash[0]&(LYB_HASH_COLLISION_ID>>i));++i){" in b
            and "for(j=i;j;--j){lyb_read(&hash[j-1],sizeof*hash,lybctx);" in b):
        missing.append("lyb_read_hashes: shape")
    for fn, loop in (("lyb_parse_siblings", "while(LYB_LAST_SIBLING(lybctx->lybctx).written){LY_CHECK_RET(lyb_parse_node(lybctx,parent,first_p,parsed));"),
                     ("lyb_parse_node_leaflist", "while(LYB_LAST_SIBLING(lybctx->lybctx).written){ret=lyb_parse_node_leaf(lybctx,parent,snode,first_p,parsed);"),
                     ("lyb_parse_node_list", "while(LYB_LAST_SIBLING(lybctx->lybctx).written){ret=lyb_parse_node_header(lybctx,snode,&flags,&meta);")):
        if loop not in body(pa, fn):
            missing.append(fn + ": loop shape")
    pm = body(pa, "lyb_parse_magic_number")
    rmagic = [ord(c) for c in re.findall(r"if\(magic_byte!='(.)'\)", pm)]
    if len(rmagic) != 3:
        missing.append("lyb_parse_magic_number")

    # ---- node types
    hdr = minic.strip_comments(open(os.path.join(ex.SRC, "lyb.h")).read())
    m = re.search(r"enum\s+lylyb_node_type\s*\{(.*?)\}", hdr, re.S)
    types = [t.strip() for t in m.group(1).split(",") if t.strip()] if m else []
    if types[:4] != ["LYB_NODE_TOP", "LYB_NODE_CHILD", "LYB_NODE_OPAQ", "LYB_NODE_EXT"]:
        if not (set(["LYB_NODE_TOP", "LYB_NODE_CHILD", "LYB_NODE_OPAQ", "LYB_NODE_EXT"]) <= set(types)) or any("=" in t for t in types):
            missing.append("enum lylyb_node_type")

    # ---- plug-ins
    plug = []
    pdir = os.path.join(ex.SRC, "plugins_types")
    for f in sorted(os.listdir(pdir)):
        if not f.endswith(".c"):
            continue
        src = minic.strip_comments(open(os.path.join(pdir, f)).read())
        for mm in re.finditer(r"\.module\s*=\s*\"\"\s*,(.*?)\.plugin\.lyb_data_len\s*=\s*(-?\w+)", src, re.S):
            mid, ln = mm.group(1), mm.group(2)
            nmm = re.search(r"\.name\s*=\s*(\w+|\"[^\"]*\")\s*,", mid)
            if ".module" in mid or not nmm:
                continue
            try:
                v = int(ln)
            except ValueError:
                continue        # symbolic: not a built-in of the modelled family
            nm = nmm.group(1)
            nm = {"LY_TYPE_BINARY_STR": "binary", "LY_TYPE_UINT8_STR": "uint8", "LY_TYPE_UINT16_STR": "uint16", "LY_TYPE_UINT32_STR": "uint32",
                  "LY_TYPE_UINT64_STR": "uint64", "LY_TYPE_STRING_STR": "string", "LY_TYPE_BITS_STR": "bits", "LY_TYPE_BOOL_STR": "boolean",
                  "LY_TYPE_DEC64_STR": "decimal64", "LY_TYPE_EMPTY_STR": "empty", "LY_TYPE_ENUM_STR": "enumeration",
                  "LY_TYPE_IDENT_STR": "identityref", "LY_TYPE_INST_STR": "instance-identifier", "LY_TYPE_LEAFREF_STR": "leafref",
                  "LY_TYPE_UNION_STR": "union", "LY_TYPE_INT8_STR": "int8", "LY_TYPE_INT16_STR": "int16", "LY_TYPE_INT32_STR": "int32",
                  "LY_TYPE_INT64_STR": "int64"}.get(nm, nm.strip('"'))
            if all(p[0] != nm for p in plug):
                plug.append((nm, v))
    need = ["int8", "int16", "int32", "int64", "uint8", "uint16", "uint32", "uint64", "string", "boolean", "decimal64", "enumeration", "bits", "empty"]
    for n in need:
        if all(p[0] != n for p in plug):
            missing.append("plugin " + n)

    out = [ex.HEADER.replace("tools/extract.py", "tools/extractors/lybtree.py"), "namespace LyModel.Generated.LybTree\n"]
    for name, v, doc in vals:
        out.append("/-- %s -/" % doc)
        out.append("def %s : Nat := %d" % (name, v))
    out.append("\n/-- printer: lyb_print_magic_number -/")
    out.append("def P_MAGIC : List Nat := %s" % (magic or []))
    out.append("/-- parser: lyb_parse_magic_number -/")
    out.append("def R_MAGIC : List Nat := %s" % (rmagic or []))
    out.append("/-- lyb_print_metadata writes the ietf-netconf-with-defaults:default annotation under ALL_TAG / IMPL_TAG (finding F330; false once fixes/F330.diff is applied) -/")
    out.append("def lybWdAnnot : Bool := %s" % ("true" if wd_annot else "false"))
    try:
        vm = ex.Macros(["lyb.h"]).value("LYB_VERSION_MASK")
        out.append("def LYB_VERSION_MASK : Nat := %d" % vm)
    except Exception:
        missing.append("LYB_VERSION_MASK")
    out.append("\n-- enum lylyb_node_type (lyb.h)")
    for i, t in enumerate(types):
        out.append("def %s : Nat := %d" % (t, i))
    out.append("\n/-- `.plugin.lyb_data_len` of the built-in type plug-ins (plugins_types/*.c); negative = variable size -/")
    out.append("def pluginLybDataLen : List (String × Int) := [%s]" % ", ".join('("%s", %d)' % p for p in plug))
    out.append("\nend LyModel.Generated.LybTree\n")
    return "\n".join(out), missing


EXTRACTORS = {"LybTree": gen_lybtree}
