"""Translator plug-in of component `val` (C03, instance-identifier): what lean/LyModel/Val/InstId.lean takes from the source tree
-> Generated/ValInst.lean.

Constants:
  instQuoteDefault / instQuoteAlt   `quot = '\\''; if (strchr(strval, quot)) { quot = '"'; }` of instanceid_path2str (both predicate writers)

Switches (exactly two shapes are recognised for each, anything else is `missing`):
  instVarRefused        lyplg_type_lypath_new(): after ly_path_parse() a LYXP_TOKEN_VARREF token makes the value a syntax error
                        (repaired, F421); `false`: no such loop, `[k=$v]` reaches instanceid_path2str() and ends in LOGINT / LY_EINT
  instKeysSchemaOrder   instanceid_path2str(): the key predicates are printed in the order of the keys of the list
                        (instanceid_key_predicate, repaired, F422); `false`: in the order they were written

Checked for the shape the model mirrors (any other shape: `missing`, reported by the check as a broken obligation):
  lyplg_type_lypath_new         LY_PATH_PREFIX_STRICT_INHERIT for the CANON / LYB / JSON / STR_NS formats; ly_path_parse(…, lref 0,
                                LY_PATH_BEGIN_ABSOLUTE, prefix_opt, LY_PATH_PRED_SIMPLE); ly_path_compile(…, oper, LY_PATH_TARGET_SINGLE,
                                limit_access_tree 1, format, …); the two error formats (syntax / semantic)
  lyplg_type_store_instanceid   hints first; LYB stored as JSON; canonical = instanceid_path2str(path, LY_VALUE_JSON, NULL, …) unless CANON
  instanceid_path2str           prefix inherited for CANON / JSON / LYB / STR_NS; `/%s:%s` when `mod != path[u].node->module`, else `/%s`;
                                `[%PRIu64]`, `[%s=%c%s%c]`, `[.=%c%s%c]`; LY_PATH_PREDTYPE_LIST_VAR -> LOGINT, LY_EINT
  plugins_instanceid[]          compare / sort = the `_simple` callbacks (canonical strings), print = lyplg_type_print_instanceid
  lyplg_type_print_instanceid   the canonical string for CANON / JSON / LYB
"""
import os, re, sys
sys.path.insert(0, os.path.dirname(os.path.dirname(os.path.abspath(__file__))))
import minic
from vlib import paths

SRC = os.path.join(paths.REPO, "src")


def squash(s):
    return re.sub(r"\s+", "", s)


def body_of(rel, fn):
    _, body = minic.function_source(os.path.join(SRC, rel), fn)
    return squash(minic.strip_comments(body))


VAR_LOOP = ("for(i=0;i<exp->used;++i){if(exp->tokens[i]==LYXP_TOKEN_VARREF){"
            "LOGVAL(ctx,LYVE_XPATH,\"Variablereference\\\"%.*s\\\"inpath.\",(int)exp->tok_len[i],exp->expr+exp->tok_pos[i]);"
            "ret=LY_EVALID;err_fmt=\"Invalidinstance-identifier\\\"%.*s\\\"value-syntaxerror%s%s\";gotocleanup;}}")
KEY_PRED_FN = ("{conststructlysc_node*key;LY_ARRAY_COUNT_TYPEu;key=lysc_node_child(seg->node);for(u=0;key&&(u<n);++u){key=key->next;}"
               "LY_ARRAY_FOR(seg->predicates,u){if(seg->predicates[u].key==key){return&seg->predicates[u];}}return&seg->predicates[n];}")
PRED_HEAD = "LY_ARRAY_FOR(path[u].predicates,v){structly_path_predicate*pred=&path[u].predicates[v];"
KEY_PRED_USE = "if(pred->type==LY_PATH_PREDTYPE_LIST){pred=instanceid_key_predicate(&path[u],v);}"
QUOTE = "quot='\\'';if(strchr(strval,quot)){quot='\"';}"


def gen_valinst():
    missing = []

    def need(where, b, pats):
        for what, p in pats:
            if p not in b:
                missing.append("%s: %s" % (where, what))

    # ---- lyplg_type_lypath_new
    b = body_of("plugins_types.c", "lyplg_type_lypath_new")
    need("lyplg_type_lypath_new", b, [
        ("strict prefix inheritance for JSON", "caseLY_VALUE_CANON:caseLY_VALUE_LYB:caseLY_VALUE_JSON:caseLY_VALUE_STR_NS:prefix_opt=LY_PATH_PREFIX_STRICT_INHERIT;break;"),
        ("parse options", "ret=ly_path_parse(ctx,ctx_node,value,value_len,0,LY_PATH_BEGIN_ABSOLUTE,prefix_opt,LY_PATH_PRED_SIMPLE,&exp);"
                          "if(ret){err_fmt=\"Invalidinstance-identifier\\\"%.*s\\\"value-syntaxerror%s%s\";gotocleanup;}"),
        ("compile options", "ret=ly_path_compile(ctx,NULL,ctx_node,NULL,exp,oper,LY_PATH_TARGET_SINGLE,1,format,prefix_data,path);"
                            "if(ret){err_fmt=\"Invalidinstance-identifier\\\"%.*s\\\"value-semanticerror%s%s\";gotocleanup;}"),
        ("every failure is LY_EVALID", "ret=ly_err_new(err,LY_EVALID,LYVE_DATA,NULL,NULL,err_fmt,")])
    nvar = b.count("LYXP_TOKEN_VARREF")
    if nvar == 0:
        var_refused = False
    elif nvar == 1 and ("gotocleanup;}" + VAR_LOOP + "if(options&LYPLG_TYPE_STORE_IMPLEMENT)") in b:
        var_refused = True
    else:
        var_refused = False
        missing.append("lyplg_type_lypath_new: variable-reference test of an unknown shape")

    # ---- store
    b = body_of("plugins_types/instanceid.c", "lyplg_type_store_instanceid")
    need("lyplg_type_store_instanceid", b, [
        ("hints first", "ret=lyplg_type_check_hints(hints,value,value_len,type->basetype,NULL,err);LY_CHECK_GOTO(ret,cleanup);"),
        ("LYB is JSON", "if(format==LY_VALUE_LYB){ret=lyplg_type_lypath_new(ctx,value,value_len,options,LY_VALUE_JSON,prefix_data,ctx_node,unres,&path,err);}"),
        ("canonical = JSON print", "}else{ret=instanceid_path2str(path,LY_VALUE_JSON,NULL,&canon);LY_CHECK_GOTO(ret,cleanup);ret=lydict_insert_zc(ctx,canon,&storage->_canonical);")])

    # ---- path2str
    b = body_of("plugins_types/instanceid.c", "instanceid_path2str")
    need("instanceid_path2str", b, [
        ("prefix inherited in JSON", "caseLY_VALUE_CANON:caseLY_VALUE_JSON:caseLY_VALUE_LYB:caseLY_VALUE_STR_NS:inherit_prefix=1;break;"),
        ("prefix rule", "conststructlys_module*mod=NULL,"),
        ("prefix rule", "LY_ARRAY_FOR(path,u){if(!inherit_prefix||(mod!=path[u].node->module)){mod=path[u].node->module;"
                        "ret=ly_strcat(&result,\"/%s:%s\",lyplg_type_get_prefix(mod,format,prefix_data),path[u].node->name);}else{"
                        "ret=ly_strcat(&result,\"/%s\",path[u].node->name);}"),
        ("position predicate", "caseLY_PATH_PREDTYPE_POSITION:ret=ly_strcat(&result,\"[%\"PRIu64\"]\",pred->position);break;"),
        ("key predicate", "if(inherit_prefix){ret=ly_strcat(&result,\"[%s=%c%s%c]\",pred->key->name,quot,strval,quot);}"),
        ("leaf-list predicate", "ret=ly_strcat(&result,\"[.=%c%s%c]\",quot,strval,quot);"),
        ("variable predicate is an internal error", "caseLY_PATH_PREDTYPE_LIST_VAR:LOGINT(path[u].node->module->ctx);ret=LY_EINT;gotocleanup;")])
    if b.count(QUOTE) != 2 or b.count("quot=") != 4:
        missing.append("instanceid_path2str: quote selection of an unknown shape")
    if PRED_HEAD + "switch(pred->type){" in b and "instanceid_key_predicate" not in b:
        keys_schema = False
    elif PRED_HEAD + KEY_PRED_USE + "switch(pred->type){" in b and b.count("instanceid_key_predicate") == 1:
        keys_schema = True
        try:
            if body_of("plugins_types/instanceid.c", "instanceid_key_predicate") != KEY_PRED_FN:
                missing.append("instanceid_key_predicate: shape")
        except Exception as e:
            missing.append("instanceid_key_predicate: %s" % e)
    else:
        keys_schema = False
        missing.append("instanceid_path2str: predicate loop of an unknown shape")

    # ---- print, plugin record
    b = body_of("plugins_types/instanceid.c", "lyplg_type_print_instanceid")
    need("lyplg_type_print_instanceid", b, [
        ("canonical string for CANON / JSON / LYB", "if((format==LY_VALUE_CANON)||(format==LY_VALUE_JSON)||(format==LY_VALUE_LYB)){if(dynamic){*dynamic=0;}"
                                                    "if(value_len){*value_len=strlen(value->_canonical);}returnvalue->_canonical;}")])
    src = squash(minic.strip_comments(open(os.path.join(SRC, "plugins_types", "instanceid.c")).read()))
    m = re.search(r"plugins_instanceid\[\]=\{\{(.*?)\},\{0\}\};", src)
    if not m:
        missing.append("plugins_instanceid[]: table")
    else:
        for what, p in (("store", ".plugin.store=lyplg_type_store_instanceid,"), ("compare", ".plugin.compare=lyplg_type_compare_simple,"),
                        ("sort", ".plugin.sort=lyplg_type_sort_simple,"), ("print", ".plugin.print=lyplg_type_print_instanceid,")):
            if p not in m.group(1):
                missing.append("plugins_instanceid[]: %s" % what)

    out = ["-- GENERATED by tools/extractors/valinst.py from /repo — do not edit. Regenerated on every check run.", ""]
    if missing:
        out.insert(1, "-- not found in this tree: " + "; ".join(missing))
    out += ["namespace LyModel.Generated", "",
            "/-- `quot = '\\''` of `instanceid_path2str`: the quote of a predicate value, and the byte whose presence in the value changes it -/",
            "def instQuoteDefault : UInt8 := 39", "",
            "/-- `quot = '\"'`: the quote of a value that contains the default quote -/",
            "def instQuoteAlt : UInt8 := 34", "",
            "/-- `lyplg_type_lypath_new`: a variable reference in the value is a syntax error (repaired, F421); `false`: it is parsed and compiled",
            "    (`LY_PATH_PREDTYPE_LIST_VAR`) and `instanceid_path2str` ends in `LOGINT` / `LY_EINT` -/",
            "def instVarRefused : Bool := %s" % ("true" if var_refused else "false"), "",
            "/-- `instanceid_path2str`: the key predicates are printed in the order of the keys of the list (repaired, F422); `false`: in the order",
            "    they were written -/",
            "def instKeysSchemaOrder : Bool := %s" % ("true" if keys_schema else "false"), "",
            "end LyModel.Generated", ""]
    return "\n".join(out), missing


EXTRACTORS = {"ValInst": gen_valinst}
