"""Extractor of component YangStr (C10): the escape switch of `ypr_encode`, the unescape switch of
`read_qstring`, the keyword trie of `lysp_match_kw` (flattened, source order), and a few constants.

Text-level (regex over the comment-stripped source): each piece either has exactly the expected shape or the
extractor refuses (minic.Unsupported), which vcheck reports as a broken obligation of C10."""
import os, re, sys

sys.path.insert(0, os.path.dirname(os.path.dirname(os.path.abspath(__file__))))
import minic  # noqa: E402
import extract as ex  # noqa: E402

CH = {"\\n": 10, "\\t": 9, "\\\"": 34, "\\\\": 92, "\\'": 39, "\\r": 13, "\\0": 0}


def cchar(lit):
    """'x' or '\\n' -> byte"""
    body = lit[1:-1]
    if body in CH:
        return CH[body]
    if len(body) == 1:
        return ord(body)
    raise minic.Unsupported("char literal %s" % lit)


def cstr(lit):
    """"..." -> bytes"""
    body, out, i = lit[1:-1], bytearray(), 0
    while i < len(body):
        if body[i] == "\\":
            k = body[i:i + 2]
            if k not in CH:
                raise minic.Unsupported("string escape %s" % k)
            out.append(CH[k]); i += 2
        else:
            out.append(ord(body[i])); i += 1
    return bytes(out)


def func_body(src, name):
    m = re.search(r"^%s\s*\([^)]*\)\s*\{" % re.escape(name), src, re.M)
    if not m:
        raise minic.Unsupported("function %s not found" % name)
    i, depth = m.end(), 1
    while depth and i < len(src):
        c = src[i]
        if c == '"' or c == "'":
            q = c; i += 1
            while src[i] != q:
                i += 2 if src[i] == "\\" else 1
        elif c == "{":
            depth += 1
        elif c == "}":
            depth -= 1
        i += 1
    return src[m.end():i - 1]


CHARLIT = r"'(?:\\.|[^'\\])'"
STRLIT = r'"(?:\\.|[^"\\])*"'


def enc_table(src):
    body = func_body(src, "ypr_encode")
    sw = re.findall(r"switch\s*\(([^)]*)\)\s*\{", body)
    if sw != ["text[i]", "special"]:
        raise minic.Unsupported("ypr_encode: expected the two switches on text[i] and special, got %r" % sw)
    first, second = re.split(r"switch\s*\(special\)", body, 1)
    first = first[first.index("switch"):]
    m = re.search(r"((?:case\s+%s\s*:\s*)+)special\s*=\s*text\[i\]\s*;\s*break\s*;\s*default\s*:\s*\+\+start_len\s*;\s*break\s*;" % CHARLIT, first)
    if not m:
        raise minic.Unsupported("ypr_encode: first switch has an unexpected shape")
    specials = [cchar(x) for x in re.findall(CHARLIT, m.group(1))]
    table = {}
    for cm in re.finditer(r"case\s+(%s)\s*:\s*ly_write_\(out,\s*(%s),\s*(\d+)\)\s*;\s*break\s*;" % (CHARLIT, STRLIT), second):
        b, s, n = cchar(cm.group(1)), cstr(cm.group(2)), int(cm.group(3))
        if n != len(s):
            raise minic.Unsupported("ypr_encode: length %d of %r" % (n, s))
        table[b] = s
    if sorted(table) != sorted(specials):
        raise minic.Unsupported("ypr_encode: special set %r differs from the emitting switch %r" % (specials, sorted(table)))
    if "ly_write_(out, start, start_len)" not in body:
        raise minic.Unsupported("ypr_encode: plain-run write not found")
    return table


def unesc_table(src):
    body = func_body(src, "read_qstring")
    m = re.search(r"case\s+STRING_DOUBLE_QUOTED_ESCAPED\s*:(.*?)case\s+STRING_PAUSED_NEXTSTRING\s*:", body, re.S)
    if not m:
        raise minic.Unsupported("read_qstring: escaped state not found")
    part = m.group(1)
    sm = re.search(r"switch\s*\(ctx->in->current\[0\]\)\s*\{(.*?)default\s*:", part, re.S)
    if not sm:
        raise minic.Unsupported("read_qstring: escape switch not found")
    table, pending = {}, []
    for tok in re.finditer(r"case\s+(%s)\s*:|ctx->in->current\s*=\s*(%s)\s*;|(break)\s*;" % (CHARLIT, STRLIT), sm.group(1)):
        if tok.group(1):
            pending.append(cchar(tok.group(1)))
            cur = None
        elif tok.group(2):
            s = cstr(tok.group(2))
            if len(s) != 1:
                raise minic.Unsupported("read_qstring: escape substitutes %r" % s)
            for p in pending:
                table[p] = s[0]
            pending = ["done"]
        else:
            for p in pending:
                if p != "done":
                    table[p] = p
            pending = []
    if pending:
        raise minic.Unsupported("read_qstring: escape switch falls through")
    return table


def keywords(src):
    """The IF_KW / IF_KW_PREFIX trie of lysp_match_kw: [(first byte, [node])], node = ("kw", bytes) | ("pre", bytes, [node]).
    Alternatives are tried in order; a matched prefix is entered without backtracking (as the macros expand)."""
    body = func_body(src, "lysp_match_kw")
    body = body[body.index("switch (in->current[0])"):]
    cases, stack, count = [], None, 0
    tok = re.compile(r"case\s+(%s)\s*:|IF_KW_PREFIX_END|IF_KW_PREFIX\(\s*(%s)\s*,\s*(\d+)\s*\)|IF_KW\(\s*(%s)\s*,\s*(\d+)\s*,\s*(\w+)\s*\)|(default)\s*:|(MOVE_IN\(1\))" % (CHARLIT, STRLIT, STRLIT))
    moved = True
    for m in tok.finditer(body):
        if m.group(1):
            if not moved:
                raise minic.Unsupported("lysp_match_kw: case without MOVE_IN(1)")
            top = []
            cases.append((cchar(m.group(1)), top)); stack = [top]; moved = False
        elif m.group(8):
            moved = True
        elif m.group(0) == "IF_KW_PREFIX_END":
            stack.pop()
        elif m.group(2):
            s = cstr(m.group(2))
            if len(s) != int(m.group(3)):
                raise minic.Unsupported("lysp_match_kw: length of %r" % s)
            sub = []
            stack[-1].append(("pre", s, sub)); stack.append(sub)
        elif m.group(4):
            s = cstr(m.group(4))
            if len(s) != int(m.group(5)):
                raise minic.Unsupported("lysp_match_kw: length of %r" % s)
            stack[-1].append(("kw", s)); count += 1
        else:
            break
    if count < 60:
        raise minic.Unsupported("lysp_match_kw: only %d keywords recognised" % count)
    if "isalnum(in->current[0])" not in body or "in->current = start" not in body:
        raise minic.Unsupported("lysp_match_kw: termination check changed")
    return cases


def lean_trie(nodes, ind):
    rows = []
    for n in nodes:
        if n[0] == "kw":
            rows.append("%s.kw %s /- %s -/" % (ind, ex.lean_bytes(n[1]), n[1].decode()))
        else:
            rows.append("%s.pre %s /- %s -/ [\n%s]" % (ind, ex.lean_bytes(n[1]), n[1].decode(), lean_trie(n[2], ind + "  ")))
    return ",\n".join(rows)


def yangchar_ranges():
    """is_yangutf8char(c) as a list of inclusive ranges, exactly as the macro spells them (including any range
    that can never match)."""
    src = minic.strip_comments(open(os.path.join(ex.SRC, "tree_schema_internal.h")).read()).replace("\\\n", " ")
    m = re.search(r"#\s*define\s+is_yangutf8char\(c\)\s+\((.*)\)\s*$", src, re.M)
    if not m:
        raise minic.Unsupported("is_yangutf8char not found")
    rest, ranges = m.group(1), []
    pat = re.compile(r"\(\s*c\s*>=\s*(0x[0-9a-fA-F]+|\d+)\s*&&\s*c\s*<=\s*(0x[0-9a-fA-F]+|\d+)\s*\)|c\s*==\s*(0x[0-9a-fA-F]+|\d+)")
    pos = 0
    for t in pat.finditer(rest):
        between = rest[pos:t.start()].strip()
        if between not in ("", "||"):
            raise minic.Unsupported("is_yangutf8char: unexpected %r" % between)
        pos = t.end()
        if t.group(1):
            ranges.append((int(t.group(1), 0), int(t.group(2), 0)))
        else:
            ranges.append((int(t.group(3), 0), int(t.group(3), 0)))
    if rest[pos:].strip():
        raise minic.Unsupported("is_yangutf8char: trailing %r" % rest[pos:])
    return ranges


def gen_yangstr():
    py = minic.strip_comments(open(os.path.join(ex.SRC, "printer_yang.c")).read())
    pa = minic.strip_comments(open(os.path.join(ex.SRC, "parser_yang.c")).read())
    co = minic.strip_comments(open(os.path.join(ex.SRC, "tree_schema_common.c")).read())
    enc, un, kws = enc_table(py), unesc_table(pa), keywords(co)
    mc = ex.Macros(["tree_schema_internal.h", "tree_schema.h", "printer_yang.c"])
    missing = []
    out = [ex.HEADER, "import LyModel.Base", "namespace LyModel.Generated\n"]
    for n in ["Y_TAB_SPACES", "LYS_SINGLEQUOTED", "LYS_DOUBLEQUOTED", "LYS_YIN_ATTR", "LYS_YIN_ARGUMENT",
              "LYS_YPR_TEXT_SINGLELINE", "LYS_YPR_TEXT_SINGLEQUOTED"]:
        try:
            out.append("def %s : Nat := %d" % (n, mc.value(n)))
        except Exception:
            missing.append(n)
    out.append("\n/-- `ypr_encode`: bytes replaced by an escape sequence (all others are copied). -/")
    out.append("def yangEncExceptions : List (UInt8 × Bytes) := [")
    out.append(",\n".join("  (%d, %s)" % (b, ex.lean_bytes(s)) for b, s in sorted(enc.items())))
    out.append("]\n")
    out.append("/-- `read_qstring`, state `STRING_DOUBLE_QUOTED_ESCAPED`: character after the backslash -> stored byte")
    out.append("    (any other character is the error \"unknown special character\"). -/")
    out.append("def yangUnescTable : List (UInt8 × UInt8) := [")
    out.append(",\n".join("  (%d, %d)" % (k, v) for k, v in sorted(un.items())))
    out.append("]\n")
    out.append("/-- `is_yangutf8char(c)`: inclusive ranges, as the macro spells them. -/")
    out.append("def yangCharRanges : List (Nat × Nat) := [")
    out.append(",\n".join("  (0x%x, 0x%x)" % r for r in yangchar_ranges()))
    out.append("]\n")
    out.append("/-- `lysp_match_kw`: the keyword trie as the IF_KW / IF_KW_PREFIX macros spell it (after the first byte, which")
    out.append("    selects the `case` and is consumed by `MOVE_IN(1)`): alternatives in order, a matched prefix is entered")
    out.append("    without backtracking. -/")
    out.append("inductive KwNode where\n  | kw (s : Bytes)\n  | pre (s : Bytes) (alts : List KwNode)\n")
    out.append("def yangKwTrie : List (UInt8 × List KwNode) := [")
    out.append(",\n".join("  (%d /- %s -/, [\n%s])" % (c, chr(c), lean_trie(nodes, "    ")) for c, nodes in kws))
    out.append("]\n\nend LyModel.Generated\n")
    return "\n".join(out), missing


EXTRACTORS = {"YangStr": gen_yangstr}
