"""Extractor for component `lyb`: constants of the LYB format that are not in Generated/Consts.lean.

 * revision packing masks/shifts (lyb.h), LYB_VERSION_NUM, LYS_NODE_HASH_COUNT (tree_schema.h)
 * the shift amounts of the one-at-a-time Jenkins hash, read from the statements of lyht_hash_multi()
   (hash_table.c) — the theorems `absorb_byte_injective` etc. are stated over these generated values, so an
   edit of the hash function is re-checked by `lake build` (and refuses to translate when the statement
   shapes change).
"""
import os, re, sys

sys.path.insert(0, os.path.dirname(os.path.dirname(os.path.abspath(__file__))))
import minic            # noqa: E402
import extract as ex    # noqa: E402


def gen_lybconsts():
    out = [ex.HEADER, "namespace LyModel.Generated\n"]
    missing = []
    groups = [
        ("lyb.h", ["LYB_VERSION_NUM", "LYB_REV_YEAR_OFFSET", "LYB_REV_YEAR_MASK", "LYB_REV_YEAR_SHIFT", "LYB_REV_MONTH_MASK",
                   "LYB_REV_MONTH_SHIFT", "LYB_REV_DAY_MASK", "LYB_SIBLING_STEP"]),
        ("tree_schema.h", ["LYS_NODE_HASH_COUNT"]),
    ]
    for f, names in groups:
        mc = ex.Macros([f])
        out.append("-- %s" % f)
        for n in names:
            try:
                v = mc.value(n)
            except Exception:
                missing.append(n)
                continue
            if isinstance(v, int) and v >= 0:
                out.append("def %s : Nat := %d" % (n, v))
            else:
                missing.append(n)

    # lyht_hash_multi: the byte step and the final avalanche
    src = minic.strip_comments(open(os.path.join(ex.SRC, "hash_table.c")).read())
    m = re.search(r"lyht_hash_multi\s*\(uint32_t hash, const char \*key_part, size_t len\)\s*\{(.*?)\n\}", src, re.S)
    if not m:
        raise minic.Unsupported("lyht_hash_multi not found")
    body = re.sub(r"\s+", " ", m.group(1))
    want = (r"if \(key_part && len\) \{ for \(i = 0; i < len; \+\+i\) \{ hash \+= key_part\[i\]; "
            r"hash \+= \(hash << (\d+)\); hash \^= \(hash >> (\d+)\); \} \} else \{ "
            r"hash \+= \(hash << (\d+)\); hash \^= \(hash >> (\d+)\); hash \+= \(hash << (\d+)\); \} return hash;")
    mm = re.search(want, body)
    if not mm:
        raise minic.Unsupported("lyht_hash_multi has an unexpected shape: " + body[:200])
    out.append("-- hash_table.c lyht_hash_multi: h += b; h += h << A; h ^= h >> B   /  h += h << C; h ^= h >> D; h += h << E")
    for n, v in zip(["JENK_STEP_SHL", "JENK_STEP_SHR", "JENK_FIN_SHL1", "JENK_FIN_SHR", "JENK_FIN_SHL2"], mm.groups()):
        out.append("def %s : Nat := %s" % (n, v))
    # `const char *key_part` : plain char, signed on the platforms the harness is built for (x86-64, aarch64 differs!)
    out.append("\nend LyModel.Generated\n")
    return "\n".join(out), missing


EXTRACTORS = {"LybConsts": gen_lybconsts}
