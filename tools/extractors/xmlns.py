"""Translator plug-in of component `xmltree` (v2): which variant of xml_print_ns() (printer_xml.c) the source tree has, for the
two repairs the opaque-node model is parametrised by -> Generated/XmlNsFixes.lean.

  numbered   the `do { ... asprintf(&uniq_prefix, "%s%" PRIu32, new_prefix, ++k) ... } while (...)` loop that replaces a suggested
             prefix some entry of the stack binds (fix: a170b92)
  reserved   xml_prefix_is_reserved() exists, walks the value prefix data of pctx->opaq and of its attributes, and is consulted
             both where an entry is reused for a suggestion and in the loop (fix: f1b607e)

The rest of the function is checked for the shape the model mirrors (search from the innermost entry, default-namespace search,
the shadow loop, REQUIRED bypassing the reserved check); anything else makes the extractor refuse, and the check reports the
refusal as a broken obligation."""
import os, re, sys
sys.path.insert(0, os.path.dirname(os.path.dirname(os.path.abspath(__file__))))
import minic
from vlib import paths

SRC = os.path.join(paths.REPO, "src")


def squash(s):
    return re.sub(r"\s+", "", s)


def gen_xmlns():
    path = os.path.join(SRC, "printer_xml.c")
    src = minic.strip_comments(open(path).read())
    _, body = minic.function_source(path, "xml_print_ns")
    b = squash(minic.strip_comments(body))
    missing = []
    # the parts both variants share
    for what, pat in (("search from the innermost entry", "for(i=pctx->ns.count;i>0;--i){"),
                      ("default-namespace search", "if(!new_prefix){if(!pctx->prefix.objs[i-1]){if(!strcmp(pctx->ns.objs[i-1],ns)){returnpctx->prefix.objs[i-1];}break;}}"),
                      ("same prefix or any", "if(!strcmp(pctx->prefix.objs[i-1],new_prefix)||!(prefix_opts&LYXML_PREFIX_REQUIRED)){"),
                      ("shadow check against the prefix of the entry to be reused",
                       "for(j=i;j<pctx->ns.count;++j){if(pctx->prefix.objs[j]&&!strcmp(pctx->prefix.objs[j],pctx->prefix.objs[i-1])){break;}}"),
                      ("declaration pushed", "ly_set_add(&pctx->prefix,(void*)new_prefix,1,NULL)")):
        if pat not in b:
            missing.append("xml_print_ns: " + what)
    has_fn = re.search(r"^xml_prefix_is_reserved\(", src, re.M) is not None
    reuse_fixed = "if((j==pctx->ns.count)&&((prefix_opts&LYXML_PREFIX_REQUIRED)||!xml_prefix_is_reserved(pctx,pctx->prefix.objs[i-1],ns))){returnpctx->prefix.objs[i-1];}" in b
    reuse_plain = "if(j==pctx->ns.count){returnpctx->prefix.objs[i-1];}" in b
    loop = re.search(r"if\(new_prefix&&!\(prefix_opts&LYXML_PREFIX_REQUIRED\)\)\{prefix=new_prefix;do\{(.*?)\}while\((.*?)\);new_prefix=prefix;\}", b)
    numbered = False
    loop_reserved = False
    if loop:
        inner, cond = loop.group(1), loop.group(2)
        if 'asprintf(&uniq_prefix,"%s%"PRIu32,new_prefix,++k)' not in inner:
            missing.append("xml_print_ns: numbered-prefix loop of an unknown shape")
        numbered = True
        if cond == "retry" and "retry=(i<pctx->ns.count)||xml_prefix_is_reserved(pctx,prefix,ns);" in inner:
            loop_reserved = True
        elif cond == "i<pctx->ns.count":
            loop_reserved = False
        else:
            missing.append("xml_print_ns: loop condition of an unknown shape")
    elif "asprintf" in b or "do{" in b:
        missing.append("xml_print_ns: numbered-prefix loop of an unknown shape")
    if reuse_fixed == reuse_plain:
        missing.append("xml_print_ns: reuse condition of an unknown shape")
    if reuse_fixed and not has_fn:
        missing.append("xml_prefix_is_reserved")
    if numbered and (reuse_fixed != loop_reserved):
        missing.append("xml_print_ns: the reserved check is consulted in only one of its two places")
    reserved = reuse_fixed
    if has_fn:
        _, rb = minic.function_source(path, "xml_prefix_is_reserved")
        rb = squash(minic.strip_comments(rb))
        for pat in ("if(!pctx->opaq){return0;}", "set=(pctx->opaq->format==LY_VALUE_XML)?pctx->opaq->val_prefix_data:NULL;",
                    "if(val_ns->prefix&&!strcmp(val_ns->prefix,prefix)&&strcmp(val_ns->uri,ns)){return1;}",
                    "set=(attr->format==LY_VALUE_XML)?attr->val_prefix_data:NULL;attr=attr->next;"):
            if pat not in rb:
                missing.append("xml_prefix_is_reserved: shape")
                break
    # xml_print_opaq_open: the default namespace of the element, and (repair of F300) the undeclaration for an element in no namespace
    _, ob = minic.function_source(path, "xml_print_opaq_open")
    ob = squash(minic.strip_comments(ob))
    plain = "if(node->name.prefix||node->name.module_ns){xml_print_ns_opaq(pctx,node->format,&node->name,LYXML_PREFIX_DEFAULT);}rc=xml_print_attr(pctx,node);"
    fixed = ("if(node->name.prefix||node->name.module_ns){xml_print_ns_opaq(pctx,node->format,&node->name,LYXML_PREFIX_DEFAULT);}"
             "elseif((node->format==LY_VALUE_XML)&&xml_default_ns_in_scope(pctx)){xml_print_ns(pctx,\"\",NULL,0);}rc=xml_print_attr(pctx,node);")
    undeclare = fixed in ob
    if not undeclare and plain not in ob:
        missing.append("xml_print_opaq_open: default namespace of the element of an unknown shape")
    if "pctx->opaq=node;" not in ob or "pctx->opaq=NULL;" not in ob:
        missing.append("xml_print_opaq_open: pctx->opaq")
    if undeclare:
        if re.search(r"^xml_default_ns_in_scope\(", src, re.M) is None:
            missing.append("xml_default_ns_in_scope")
        else:
            _, db = minic.function_source(path, "xml_default_ns_in_scope")
            db = squash(minic.strip_comments(db))
            if "for(i=pctx->ns.count;i>0;--i){if(!pctx->prefix.objs[i-1]){return((constchar*)pctx->ns.objs[i-1])[0]?1:0;}}return0;" not in db:
                missing.append("xml_default_ns_in_scope: shape")
    # xml_print_term: the modules of the prefixes inside the value, raw or (repair of F301) through xml_print_ns
    _, tb = minic.function_source(path, "xml_print_term")
    tb = squash(minic.strip_comments(tb))
    raw = 'for(i=1;i<ns_list.count;++i){mod=ns_list.objs[i];ly_print_(pctx->out,"xmlns:%s=\\"",mod->prefix);lyxml_dump_text(pctx->out,mod->ns,1);ly_print_(pctx->out,"\\"");}'
    via = "for(i=1;i<ns_list.count;++i){mod=ns_list.objs[i];xml_print_ns(pctx,mod->ns,mod->prefix,LYXML_PREFIX_REQUIRED);}"
    term_ns = via in tb
    if not term_ns and raw not in tb:
        missing.append("xml_print_term: namespaces of the value's prefixes of an unknown shape")
    if "xml_print_node_open(pctx,&node->node);" not in tb or tb.index("xml_print_node_open(pctx,&node->node);") > tb.index("for(i=1;i<ns_list.count;++i)"):
        missing.append("xml_print_term: order of open tag and value namespaces")
    # xml_print_meta: REQUIRED for the annotation module and the value modules, a suggestion for the with-defaults attribute
    _, mb = minic.function_source(path, "xml_print_meta")
    mb = squash(minic.strip_comments(mb))
    for what, pat in (("with-defaults attribute", 'ly_print_(pctx->out,"%s:default=\\"true\\"",xml_print_ns(pctx,mod->ns,mod->prefix,0));'),
                      ("value modules", "for(i=1;i<ns_list.count;++i){mod=ns_list.objs[i];xml_print_ns(pctx,mod->ns,mod->prefix,1);}"),
                      ("annotation module", 'ly_print_(pctx->out,"%s:%s=\\"",xml_print_ns(pctx,mod->ns,mod->prefix,1),meta->name);')):
        if pat not in mb:
            missing.append("xml_print_meta: " + what)
    out = ["-- GENERATED by tools/extractors/xmlns.py from /repo — do not edit. Regenerated on every check run.", "",
           "namespace LyModel.Generated", "",
           "/-- printer_xml.c, xml_print_ns: a suggested prefix that is already bound is replaced by `prefix<k>` (the do/while loop) -/",
           "def xmlNsNumbered : Bool := %s" % ("true" if numbered else "false"),
           "/-- printer_xml.c: xml_prefix_is_reserved exists and is consulted when a prefix is reused for / suggested by an attribute name -/",
           "def xmlNsReserved : Bool := %s" % ("true" if reserved else "false"),
           "/-- printer_xml.c, xml_print_opaq_open: `xmlns=\\\"\\\"` is written for an element in no namespace when a default namespace is in scope (F300) -/",
           "def xmlNsUndeclare : Bool := %s" % ("true" if undeclare else "false"),
           "/-- printer_xml.c, xml_print_term: the modules of the prefixes inside a value are declared through xml_print_ns (F301) -/",
           "def xmlNsTermNs : Bool := %s" % ("true" if term_ns else "false"),
           "", "end LyModel.Generated", ""]
    if missing:
        out.insert(1, "-- not recognised in this tree: " + "; ".join(missing))
    return "\n".join(out), missing


EXTRACTORS = {"XmlNsFixes": gen_xmlns}
