"""Translator plug-in of component `val` (C03, second part): the control flow of the union / identityref / string-pattern plug-ins
that lean/LyModel/Val/{Union,Ident}.lean mirror, read off the C source -> Generated/ValExt.lean.

Switches (two variants of the source are recognised, the model is parametrised by them):
  identBaseAll      identityref_check_base(): does the loop over type->bases require derivation from EVERY base (repaired, F410) or
                    does it stop at the first base the identity is derived from (pinned tree)?
  identSortModule   lyplg_type_sort_identityref(): is the module name compared when the identity names are equal (repaired, F411)?
  dtSortClamped     lyplg_type_sort_date_and_time(): sign of the time difference (repaired, F413) or `(int)difftime(..)` (pinned tree)?
  dtZoneSignFromChar / dtZoneHourLowerBound   ly_time_str2time(): sign of the zone minutes also from the '-' character (repaired, F415),
                    zone hours below -23 refused (repaired, F416)
Constant:
  unionIdxSize      TYPE_IDX_SIZE of union.c (bytes of the member index in the LYB form)

Everything else is checked for the shape the model mirrors; any other shape makes the extractor refuse (`missing`), which the
check reports as a broken obligation:
  union_find_type           members tried in ascending order, `break` at the first store that returns LY_SUCCESS / LY_EINCOMPLETE
  lyplg_type_compare_union  different realtype -> LY_ENOT, else the member's compare
  lyplg_type_sort_union     same realtype -> the member's sort; else walk the types array: val1's member first -> 1, val2's first -> -1
  lyb_union_validate        size < TYPE_IDX_SIZE and index >= count are the two errors
  lyb_union_print           index (little endian) then the member's LYB value
  lyplg_type_store_string   length check, then lyplg_type_validate_patterns on the whole value, both unless STORE_ONLY
  lyplg_type_validate_patterns   every pattern, violated when (no match and not inverted) or (match and inverted)
  identityref_str2ident     split at the first ':', empty name refused, module lookup, name lookup by whole-name comparison
  lyplg_type_identity_isderived  recursion through base->derived
  lyplg_type_compare_identityref same identity
  lys_compile_type_union    members of a member union are copied in place"""
import os, re, sys
sys.path.insert(0, os.path.dirname(os.path.dirname(os.path.abspath(__file__))))
import minic
from vlib import paths

SRC = os.path.join(paths.REPO, "src")


def squash(s):
    return re.sub(r"\s+", "", s)


def body_of(rel, fn):
    _, body = minic.function_source(os.path.join(SRC, rel), fn)
    return squash(minic.strip_comments(body))


def gen_valext():
    missing = []

    def need(where, b, pats):
        for what, p in pats:
            if p not in b:
                missing.append("%s: %s" % (where, what))

    # ---------------------------------------------------------------------------------------------- union.c
    usrc = minic.strip_comments(open(os.path.join(SRC, "plugins_types/union.c")).read())
    m = re.search(r"#define\s+TYPE_IDX_SIZE\s+(\d+)", usrc)
    idx_size = int(m.group(1)) if m else 0
    if not m:
        missing.append("union.c: TYPE_IDX_SIZE")
    b = body_of("plugins_types/union.c", "union_find_type")
    need("union_find_type", b, [
        ("members in ascending order, first success wins",
         "for(u=0;u<LY_ARRAY_COUNT(type_u->types);++u){ret=union_store_type(ctx,type_u,u,subvalue,options,resolve,ctx_node,tree,unres,&e);"
         "if((ret==LY_SUCCESS)||(ret==LY_EINCOMPLETE)){break;}errs[u]=e;}"),
        ("no member -> error", "if(u==LY_ARRAY_COUNT(type_u->types)){"),
        ("index of the member reported", "elseif(type_idx){*type_idx=u;}")])
    b = body_of("plugins_types/union.c", "lyplg_type_compare_union")
    if b != "{if(val1->subvalue->value.realtype!=val2->subvalue->value.realtype){returnLY_ENOT;}" \
            "returnval1->subvalue->value.realtype->plugin->compare(ctx,&val1->subvalue->value,&val2->subvalue->value);}":
        missing.append("lyplg_type_compare_union: shape")
    b = body_of("plugins_types/union.c", "lyplg_type_sort_union")
    need("lyplg_type_sort_union", b, [
        ("same member: the member's sort",
         "if(val1->subvalue->value.realtype==val2->subvalue->value.realtype){returnval1->subvalue->value.realtype->plugin->sort(ctx,&val1->subvalue->value,&val2->subvalue->value);}"),
        ("result", "returnrc;}")])
    # different members: position in the types array, the earlier member is the greater one; repaired (F424): a leafref member is looked up by the
    # type of its target (the realtype of the values it stores)
    loop_pinned = "LY_ARRAY_FOR(types,u){if(types[u]==val1->subvalue->value.realtype){rc=1;break;}elseif(types[u]==val2->subvalue->value.realtype){rc=-1;break;}}"
    loop_fixed = ("LY_ARRAY_FOR(types,u){conststructlysc_type*type=types[u];if(type->basetype==LY_TYPE_LEAFREF){type=((structlysc_type_leafref*)type)->realtype;}"
                  "if(type==val1->subvalue->value.realtype){rc=1;break;}elseif(type==val2->subvalue->value.realtype){rc=-1;break;}}")
    sort_lref = loop_fixed in b
    if (loop_pinned in b) == sort_lref:
        missing.append("lyplg_type_sort_union: loop over the types array of an unknown shape")
    b = body_of("plugins_types/union.c", "lyb_union_validate")
    need("lyb_union_validate", b, [("size check", "if(lyb_data_len<TYPE_IDX_SIZE){"), ("index check", "if(type_idx>=LY_ARRAY_COUNT(type_u->types)){"),
                                   ("little-endian index", "memcpy(&type_idx,lyb_data,TYPE_IDX_SIZE);type_idx=le64toh(type_idx);")])
    b = body_of("plugins_types/union.c", "lyb_union_print")
    need("lyb_union_print", b, [("member looked up again", "r=union_find_type(ctx,type_u,&tmp,0,0,NULL,NULL,&type_idx,NULL,&err);"),
                                ("index then member value", "num=type_idx;num=htole64(num);memcpy(ret,&num,TYPE_IDX_SIZE);memcpy((char*)ret+TYPE_IDX_SIZE,pval,pval_len);")])
    b = body_of("plugins_types/union.c", "union_store_type")
    need("union_store_type", b, [
        ("the member stores the original text with the kept format / prefix data / hints",
         "rc=type->plugin->store(ctx,type,value,value_len,opts,format,prefix_data,subvalue->hints,subvalue->ctx_node,&subvalue->value,unres,err);"),
        ("a member that answered LY_EINCOMPLETE is validated when the caller asks for it",
         "if(validate&&(rc==LY_EINCOMPLETE)){rc=type->plugin->validate(ctx,type,ctx_node,tree,&subvalue->value,err);if(rc){type->plugin->free(ctx,&subvalue->value);}}returnrc;}")])
    b = body_of("plugins_types/union.c", "lyplg_type_validate_union")
    need("lyplg_type_validate_union", b, [
        ("text formats: all members tried again with resolution", "if(!validated){rc=union_find_type(ctx,type_u,subvalue,0,1,ctx_node,tree,NULL,NULL,err);if(rc){subvalue->value=orig;returnrc;}}"),
        ("canonical value of the member that holds the value now", "LY_CHECK_RET(lydict_insert(ctx,subvalue->value._canonical,0,&storage->_canonical));")])
    b = body_of("plugins_types/leafref.c", "lyplg_type_store_leafref")
    need("lyplg_type_store_leafref", b, [
        ("stored by the plug-in of the target's type", "rc=type_lr->realtype->plugin->store(ctx,type_lr->realtype,value,value_len,options,format,prefix_data,hints,ctx_node,storage,unres,err);"),
        ("require-instance: to be resolved", "if(type_lr->require_instance){returnLY_EINCOMPLETE;}else{returnLY_SUCCESS;}}")])
    b = body_of("plugins_types/leafref.c", "lyplg_type_validate_leafref")
    need("lyplg_type_validate_leafref", b, [
        ("nothing to resolve without require-instance", "if(!type_lr->require_instance){returnLY_SUCCESS;}"),
        ("resolved against the tree", "rc=lyplg_type_resolve_leafref(type_lr,ctx_node,storage,tree,")])
    for fn, cb in (("lyplg_type_compare_leafref", "compare"), ("lyplg_type_sort_leafref", "sort")):
        b = body_of("plugins_types/leafref.c", fn)
        if b != "{returnval1->realtype->plugin->%s(ctx,val1,val2);}" % cb:
            missing.append("%s: shape" % fn)
    b = body_of("plugins_types/union.c", "lyb_fill_subvalue")
    need("lyb_fill_subvalue", b, [("only the member named by the index", "ret=union_store_type(ctx,type_u,type_idx,subvalue,*options,0,NULL,NULL,unres,err);")])
    b = body_of("plugins_types/union.c", "lyplg_type_store_union")
    need("lyplg_type_store_union", b, [("canonical value of the member", "r=lydict_insert(ctx,subvalue->value._canonical,0,&storage->_canonical);"),
                                       ("text formats: first usable member", "ret=union_find_type(ctx,type_u,subvalue,options,0,NULL,NULL,NULL,unres,err);")])
    b = body_of("schema_compile_node.c", "lys_compile_type_union")
    need("lys_compile_type_union", b, [("nested union replaced by its members in place",
                                        "for(LY_ARRAY_COUNT_TYPEv=0;v<LY_ARRAY_COUNT(un_aux->types);++v){utypes[u+additional]=un_aux->types[v];")])

    # ---------------------------------------------------------------------------------------------- string.c / patterns
    b = body_of("plugins_types/string.c", "lyplg_type_store_string")
    need("lyplg_type_store_string", b, [
        ("length, then patterns of the compiled type, unless STORE_ONLY",
         "if(!(options&LYPLG_TYPE_STORE_ONLY)){if(type_str->length){ret=lyplg_type_validate_range(LY_TYPE_STRING,type_str->length,ly_utf8len(value,value_len),value,value_len,err);"
         "LY_CHECK_GOTO(ret,cleanup);}ret=lyplg_type_validate_patterns(type_str->patterns,value,value_len,err);LY_CHECK_GOTO(ret,cleanup);}")])
    b = body_of("schema_compile_node.c", "lys_compile_type_patterns")
    need("lys_compile_type_patterns", b, [
        ("the patterns of the base type come first, then the type's own, in order",
         "if(base_patterns){*patterns=lysc_patterns_dup(ctx->ctx,base_patterns);LY_CHECK_ERR_RET(!(*patterns),LOGMEM(ctx->ctx),LY_EMEM);}"
         "LY_ARRAY_FOR(patterns_p,u){LY_ARRAY_NEW_RET(ctx->ctx,(*patterns),pattern,LY_EMEM);")])
    b = body_of("plugins_types.c", "lyplg_type_validate_patterns")
    need("lyplg_type_validate_patterns", b, [
        ("every pattern of the array", "LY_ARRAY_FOR(patterns,u){r=ly_pattern_code_match(patterns[u]->code,str,str_len,err);"),
        ("invert-match", "if(((r==LY_ENOT)&&!patterns[u]->inverted)||((r==LY_SUCCESS)&&patterns[u]->inverted)){")])

    # ---------------------------------------------------------------------------------------------- identityref.c
    b = body_of("plugins_types/identityref.c", "identityref_check_base")
    any_shape = "LY_ARRAY_FOR(type->bases,u){if(!lyplg_type_identity_isderived(type->bases[u],ident)){break;}}if(u==LY_ARRAY_COUNT(type->bases)){"
    all_shape = "LY_ARRAY_FOR(type->bases,u){if(lyplg_type_identity_isderived(type->bases[u],ident)){break;}}if(u<LY_ARRAY_COUNT(type->bases)){"
    base_all = all_shape in b
    if (any_shape in b) == base_all:
        missing.append("identityref_check_base: loop over the bases of an unknown shape")
    b = body_of("plugins_types/identityref.c", "lyplg_type_sort_identityref")
    if b == "{returnstrcmp(val1->ident->name,val2->ident->name);}":
        sort_module = False
    elif b == "{intcmp;cmp=strcmp(val1->ident->name,val2->ident->name);if(!cmp){cmp=strcmp(val1->ident->module->name,val2->ident->module->name);}returncmp;}":
        sort_module = True
    else:
        sort_module = False
        missing.append("lyplg_type_sort_identityref: shape")
    b = body_of("plugins_types/identityref.c", "lyplg_type_compare_identityref")
    if b != "{if(val1->ident==val2->ident){returnLY_SUCCESS;}returnLY_ENOT;}":
        missing.append("lyplg_type_compare_identityref: shape")
    b = body_of("plugins_types/identityref.c", "identityref_str2ident")
    need("identityref_str2ident", b, [
        ("split at the first colon", "for(prefix_len=0;(prefix_len<value_len)&&(value[prefix_len]!=':');++prefix_len){}"),
        ("name after the colon / whole value", "if(prefix_len<value_len){id_name=&value[prefix_len+1];id_len=value_len-(prefix_len+1);}else{prefix_len=0;id_name=value;id_len=value_len;}"),
        ("empty name refused", "if(!id_len){"),
        ("module of the prefix", "mod=lyplg_type_identity_module(ctx,ctx_node,prefix,prefix_len,format,prefix_data);if(!mod){"),
        ("whole-name comparison", "LY_ARRAY_FOR(identities,u){if(!ly_strncmp(identities[u].name,id_name,id_len)){id=&identities[u];break;}}")])
    b = body_of("plugins_types/identityref.c", "lyplg_type_store_identityref")
    need("lyplg_type_store_identityref", b, [
        ("order: hints, identity, enabled, bases", "ret=lyplg_type_check_hints(hints,value,value_len,type->basetype,NULL,err);LY_CHECK_GOTO(ret,cleanup);"
         "ret=identityref_str2ident(value,value_len,format,prefix_data,ctx,ctx_node,&ident,err);LY_CHECK_GOTO(ret,cleanup);"
         "ret=identityref_check_ident(ident,value,value_len,options,unres,err);LY_CHECK_GOTO(ret,cleanup);"
         "ret=identityref_check_base(ident,type_ident,value,value_len,err);LY_CHECK_GOTO(ret,cleanup);"),
        ("canonical module:name", 'if(asprintf(&canon,"%s:%s",ident->module->name,ident->name)==-1){')])
    b = body_of("plugins_types.c", "lyplg_type_identity_isderived")
    need("lyplg_type_identity_isderived", b, [
        ("recursion through the derived arrays", "LY_ARRAY_FOR(base->derived,u){if(der==base->derived[u]){returnLY_SUCCESS;}"
         "if(!lyplg_type_identity_isderived(base->derived[u],der)){returnLY_SUCCESS;}}returnLY_ENOTFOUND;")])

    # ---------------------------------------------------------------------------------------------- date_and_time.c / ly_time_str2time
    b = body_of("plugins_types/date_and_time.c", "lyplg_type_sort_date_and_time")
    cast_shape = "dt=difftime(v1->time,v2->time);if(dt!=0){returndt;}returnlyplg_type_sort_by_fractions(v1->fractions_s,v2->fractions_s);}"
    sign_shape = "dt=difftime(v1->time,v2->time);if(dt<0){return-1;}elseif(dt>0){return1;}returnlyplg_type_sort_by_fractions(v1->fractions_s,v2->fractions_s);}"
    dt_sort_clamped = sign_shape in b
    if (cast_shape in b) == dt_sort_clamped:
        missing.append("lyplg_type_sort_date_and_time: comparison of the timestamps of an unknown shape")
    b = body_of("tree_data_common.c", "ly_time_str2time")
    hour_up = "shift=strtol(value,&ptr,10);if(shift>23){"
    hour_both = "shift=strtol(value,&ptr,10);if((shift<-23)||(shift>23)){"
    dt_zone_lower = hour_both in b
    if (hour_up in b) == dt_zone_lower:
        missing.append("ly_time_str2time: range check of the zone hour of an unknown shape")
    sign_num = "if(shift<0){shift_m*=-1;}"
    sign_chr = "shift_neg=((shift<0)||(value[0]=='-'))?1:0;shift=shift*60*60;"
    dt_zone_sign_char = sign_chr in b and "if(shift_neg){shift_m*=-1;}" in b
    if ((sign_num in b) and "shift_neg" not in b) == dt_zone_sign_char:
        missing.append("ly_time_str2time: sign of the zone minutes of an unknown shape")
    need("ly_time_str2time", b, [
        ("fields read with atoi at the fixed offsets", "tm.tm_year=atoi(&value[0])-1900;tm.tm_mon=atoi(&value[5])-1;tm.tm_mday=atoi(&value[8]);tm.tm_hour=atoi(&value[11]);"
         "tm.tm_min=atoi(&value[14]);tm.tm_sec=atoi(&value[17]);"),
        ("range checks", "if((tm.tm_mon<0)||(tm.tm_mon>11)){"), ("day 1..31", "if((tm.tm_mday<1)||(tm.tm_mday>31)){"),
        ("hours", "if(tm.tm_hour>23){"), ("minutes", "if(tm.tm_min>59){"), ("seconds", "if(tm.tm_sec>60){"),
        ("timegm, fraction at offset 19", "t=timegm(&tm);i=19;if(value[i]=='.'){++i;frac=&value[i];for(frac_len=0;isdigit(frac[frac_len]);++frac_len){}if(!frac_len){"),
        ("Z or numeric zone", "if((value[i]=='Z')||(value[i]=='z')){shift=0;}else{value+=i;shift=strtol(value,&ptr,10);"),
        ("colon after the zone hour", "}elseif(ptr[0]!=':'){"),
        ("zone minutes 0..59", "value=ptr+1;shift_m=strtol(value,NULL,10);if((shift_m<0)||(shift_m>59)){"),
        ("shift applied", "shift=shift+shift_m;}t-=shift;*time=t;")])
    b = body_of("plugins_types/date_and_time.c", "lyplg_type_store_date_and_time")
    need("lyplg_type_store_date_and_time", b, [
        ("order: hints, ly_time_str2time, restrictions of the type", "ret=lyplg_type_check_hints(hints,value,value_len,type->basetype,NULL,err);LY_CHECK_GOTO(ret,cleanup);"
         "if(ly_time_str2time(value,&val->time,&val->fractions_s)){"),
        ("patterns unless STORE_ONLY", "ret=lyplg_type_validate_patterns(type_dat->patterns,value,value_len,err);LY_CHECK_GOTO(ret,cleanup);}"),
        ("unknown zone from the last 6 bytes", 'if(!strncmp(((char*)value+value_len)-6,"-00:00",6)){val->unknown_tz=1;}'),
        ("LYB: size, digits from offset 9", "if(value_len<8){"), ("LYB digits", "for(i=9;i<value_len;++i){c=((char*)value)[i];if(!isdigit(c)){")])
    b = body_of("plugins_types/date_and_time.c", "lyplg_type_compare_date_and_time")
    need("lyplg_type_compare_date_and_time", b, [
        ("instant and unknown-zone flag", "if((v1->time!=v2->time)||(v1->unknown_tz!=v2->unknown_tz)){returnLY_ENOT;}"),
        ("fractions as strings", "if((!v1->fractions_s&&!v2->fractions_s)||(v1->fractions_s&&v2->fractions_s&&!strcmp(v1->fractions_s,v2->fractions_s))){returnLY_SUCCESS;}returnLY_ENOT;")])

    out = ["-- GENERATED by tools/extractors/valx.py from /repo — do not edit. Regenerated on every check run.", "",
           "namespace LyModel.Generated", "",
           "/-- union.c `TYPE_IDX_SIZE`: bytes of the member index in the LYB form of a union value -/",
           "def unionIdxSize : Nat := %d" % idx_size,
           "/-- identityref.c `identityref_check_base`: the identity must be derived from EVERY base of the type (false on the pinned tree:",
           "    the loop stops at the first base it is derived from, finding F410) -/",
           "def identBaseAll : Bool := %s" % ("true" if base_all else "false"),
           "/-- identityref.c `lyplg_type_sort_identityref`: the module name is compared when the identity names are equal (false on the pinned",
           "    tree: names only, finding F411) -/",
           "def identSortModule : Bool := %s" % ("true" if sort_module else "false"),
           "/-- union.c `lyplg_type_sort_union`: a leafref member is looked up by its target's type (false on the pinned tree: values of leafref",
           "    members are never found, finding F424) -/",
           "def unionSortLeafrefTarget : Bool := %s" % ("true" if sort_lref else "false"),
           "/-- date_and_time.c `lyplg_type_sort_date_and_time`: the sign of the time difference is returned (repaired, F413); false on the pinned",
           "    tree: `(int)difftime(..)`, undefined for instants 2^31 s or more apart -/",
           "def dtSortClamped : Bool := %s" % ("true" if dt_sort_clamped else "false"),
           "/-- `ly_time_str2time`: the zone minutes are negative also for the hours `-00` (repaired, F415); false on the pinned tree: the sign",
           "    is taken from the value of the hours -/",
           "def dtZoneSignFromChar : Bool := %s" % ("true" if dt_zone_sign_char else "false"),
           "/-- `ly_time_str2time`: zone hours below -23 are refused (repaired, F416); false on the pinned tree: only `> 23` is checked -/",
           "def dtZoneHourLowerBound : Bool := %s" % ("true" if dt_zone_lower else "false"),
           "", "end LyModel.Generated", ""]
    return "\n".join(out), missing


EXTRACTORS = {"ValExt": gen_valext}

if __name__ == "__main__":
    t, m = gen_valext()
    print(t)
    print("missing:", m, file=sys.stderr)
