"""Extractor for the module-level YIN route (C10): for a few statement kinds, (a) the `subelems` table the YIN parser hands to
yin_parse_content (keyword, YIN_SUBELEM_MANDATORY, YIN_SUBELEM_UNIQUE) — both spellings: a `struct yin_subelement subelems[] = {...}`
initialiser and a `subelems_allocator(ctx, n, parent, &subelems, ...)` call — and (b) the emission pattern of the YIN printer for the
same statement: the sequence of child statements the yprp_* function writes, each `always` (0), `optional` (1: ypr_substmt with a
possibly-NULL text, flag-driven helpers) or `many` (2: inside LY_ARRAY_FOR / LY_LIST_FOR, extension instances, if-features; 3: any number too, in one group
with the preceding entry — the alternatives of one dispatching call, in any order among themselves).
Calls that print no child statement are on an allow list; an unknown call makes the extractor refuse."""
import os, re, sys

sys.path.insert(0, os.path.dirname(os.path.dirname(os.path.abspath(__file__))))
import minic  # noqa: E402
import extract as ex  # noqa: E402
sys.path.insert(0, os.path.dirname(os.path.abspath(__file__)))
import yangstr as ys  # noqa: E402
import yin as yx  # noqa: E402

FLAGS_RE = r"(?:0|YIN_SUBELEM_\w+(?:\s*\|\s*YIN_SUBELEM_\w+)*)"

# printer calls -> [(statement constant or keyword, mode)]; mode None = take from context (optional / many inside a loop)
# (a `case` is printed by yprp_node only under a choice: not a child of the statements handled here)
DATA_NODES = ["container", "leaf", "leaf-list", "list", "choice", "anydata", "anyxml", "uses"]
CALLS = {
    "yprp_extension_instances": [("", 2)], "yprp_type": [("type", 0)], "yprp_when": [("when", 1)], "yprp_iffeatures": [("if-feature", 2)],
    "ypr_status": [("status", 1)], "ypr_description": [("description", 1)], "ypr_reference": [("reference", 1)], "ypr_config": [("config", 1)],
    "ypr_mandatory": [("mandatory", 1)], "yprp_typedef": [("typedef", None)], "yprp_grouping": [("grouping", None)],
    "yprp_node": [(k, 2) for k in DATA_NODES], "yprp_action": [("action", None)], "yprp_notification": [("notification", None)],
    "yprp_revision": [("revision", None)], "yprp_import": [("import", None)], "yprp_include": [("include", None)],
    "yprp_extension": [("extension", None)], "yprp_feature": [("feature", None)], "yprp_identity": [("identity", None)],
    "yprp_augment": [("augment", None)], "yprp_deviation": [("deviation", None)],
}
EXPAND = {"yprp_node_common1", "yprp_node_common2", "yin_print_parsed_linkage", "yin_print_parsed_body"}
SILENT = {"ypr_open", "ypr_close", "ypr_close_parent", "ly_print_", "ly_print_flush", "ypr_xmlns", "ypr_import_xmlns", "lys_nodetype2str",
          "lyplg_ext_nodetype2stmt", "lysp_node_when", "LY_ARRAY_FOR", "LY_LIST_FOR", "if", "while", "for", "switch", "return", "sizeof",
          "LY_ARRAY_COUNT", "lysp_node_actions", "lysp_node_notifs", "yprp_rpc_action", "ly_strlen", "strcmp", "lysp_node_groupings",
          "lysp_node_children", "lysp_node_typedefs"}


def subelems_of(pa, fname, kwtext):
    body = ys.func_body(pa, fname)
    rows = []
    m = re.search(r"struct\s+yin_subelement\s+subelems\[\]\s*=\s*\{(.*?)\}\s*;", body, re.S)
    if m:
        for e in re.finditer(r"\{\s*(LY_STMT_\w+)\s*,\s*[^{}]*?,\s*(%s)\s*\}" % FLAGS_RE, m.group(1)):
            rows.append((e.group(1), e.group(2)))
    else:
        m = re.search(r"subelems_allocator\(\s*ctx\s*,\s*subelems_size\s*=\s*(\d+)\s*,[^,]*,\s*&subelems\s*,(.*?)\)\s*\)\s*;", body, re.S)
        if not m:
            raise minic.Unsupported("%s: no subelems table" % fname)
        args = [a.strip() for a in m.group(2).split(",")]
        cur = None
        for a in args:
            if re.fullmatch(r"LY_STMT_\w+", a):
                cur = a
            elif re.fullmatch(FLAGS_RE, a) and cur:
                rows.append((cur, a)); cur = None
        if len(rows) != int(m.group(1)):
            raise minic.Unsupported("%s: %d entries recognised, subelems_size = %s" % (fname, len(rows), m.group(1)))
    if len(rows) < 3:
        raise minic.Unsupported("%s: subelems table not recognised" % fname)
    out = []
    for const, fl in rows:
        kw = b"" if const == "LY_STMT_EXTENSION_INSTANCE" else kwtext.get(const)
        if kw is None:
            raise minic.Unsupported("%s: no keyword text for %s" % (fname, const))
        out.append((kw, "YIN_SUBELEM_MANDATORY" in fl, "YIN_SUBELEM_UNIQUE" in fl))
    return out


def emission_of(py, fname, kwtext, depth=0, kind=None):
    if depth > 3:
        raise minic.Unsupported("printer call expansion too deep")
    body = ys.func_body(py, fname)
    # a block guarded by the node type of the statement being printed: kept only for the kinds it names
    def guard(m):
        return m.group(2) if kind and ("LYS_" + kind.upper().replace("-", "")) in re.findall(r"LYS_\w+", m.group(1)) else ""
    body = re.sub(r"if\s*\(\s*node->nodetype\s*&\s*\(([^)]*)\)\s*\)\s*\{([^{}]*)\}", guard, body)
    out, loops, brace = [], [], 0
    tok = re.compile(r"(LY_ARRAY_FOR|LY_LIST_FOR)\s*\([^)]*\)\s*\{|(\{)|(\})|\b(\w+)\s*\(")
    for m in tok.finditer(body):
        if m.group(1):
            brace += 1; loops.append(brace)
        elif m.group(2):
            brace += 1
        elif m.group(3):
            if loops and loops[-1] == brace:
                loops.pop()
            brace -= 1
        else:
            name = m.group(4)
            inloop = bool(loops)
            if name == "ypr_substmt":
                a = re.match(r"\s*pctx\s*,\s*(LY_STMT_\w+)\s*,\s*[^,]*,\s*([^,]*),", body[m.end():])
                if not a or a.group(1) not in kwtext:
                    raise minic.Unsupported("%s: ypr_substmt call not recognised" % fname)
                # the module's namespace and prefix are never NULL (struct lys_module invariant): printed always
                always = a.group(2).strip() in ("module->ns", "module->prefix")
                out.append((kwtext[a.group(1)], 2 if inloop else 0 if always else 1))
            elif name == "yprp_restr":
                a = re.match(r"[^;]*?(LY_STMT_\w+)", body[m.end():])
                if not a or a.group(1) not in kwtext:
                    raise minic.Unsupported("%s: yprp_restr call not recognised" % fname)
                out.append((kwtext[a.group(1)], 2 if inloop else 1))
            elif name in CALLS:
                # several alternatives from ONE call (yprp_node dispatches on the node type): the first entry opens a repeatable group
                # (mode 2), the others continue it (mode 3) — any number of each, in any order among themselves
                for j, (kw, mode) in enumerate(CALLS[name]):
                    out.append((kw.encode(), 3 if j else (mode if mode is not None else (2 if inloop else 1))))
            elif name in EXPAND:
                sub = emission_of(py, name, kwtext, depth + 1, kind)
                out += [(k, 2 if inloop else md) for k, md in sub]
            elif name in SILENT or name.isupper():
                pass
            else:
                raise minic.Unsupported("%s: unknown call %s()" % (fname, name))
    return out


KINDS = [("leaf", "yin_parse_leaf", "yprp_leaf"), ("typedef", "yin_parse_typedef", "yprp_typedef"),
         ("container", "yin_parse_container", "yprp_container")]
# module: yin_print_parsed_linkage writes the substatements of import / include inline — the flat call recogniser cannot tell children
# from grandchildren there; left out (OPEN)


def gen_yincard():
    co, pa, py = yx.read("tree_schema_common.c"), yx.read("parser_yin.c"), yx.read("printer_yin.c")
    kwtext = {const: text for text, const in yx.trie_keywords(co)}

    def rows(l, f):
        return ",\n".join("  (%s /- %s -/, %s)" % (ex.lean_bytes(r[0]), r[0].decode() or "extension instance", f(r)) for r in l)
    out = [ex.HEADER, "import LyModel.Base", "namespace LyModel.Generated\n"]
    for kind, pf, prf in KINDS:
        sub = subelems_of(pa, pf, kwtext)
        em = emission_of(py, prf, kwtext, 0, kind)
        out.append("/-- `%s`: the `subelems` table given to `yin_parse_content` — (keyword, `[]` = extension instance; MANDATORY; UNIQUE) -/" % pf)
        out.append("def yinSubelems_%s : List (Bytes × Bool × Bool) := [\n%s\n]\n" % (kind, rows(sub, lambda r: "%s, %s" % (str(r[1]).lower(), str(r[2]).lower()))))
        out.append("/-- `%s`: child statements in emission order — (keyword; 0 always, 1 optional, 2 any number, 3 any number, interleaved with the preceding entry) -/" % prf)
        out.append("def yinEmit_%s : List (Bytes × Nat) := [\n%s\n]\n" % (kind, rows(em, lambda r: str(r[1]))))
    out.append("end LyModel.Generated\n")
    return "\n".join(out), []


EXTRACTORS = {"YinCard": gen_yincard}
