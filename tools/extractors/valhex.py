"""Translator plug-in of component `val` (C03, hex-string plug-in): what lean/LyModel/Val/HexStr.lean takes from the source tree
-> Generated/ValHex.lean.

Constants (read off models/ietf-yang-types@2013-07-15.yang, for every typedef src/plugins_types/hex_string.c registers):
  hexTypedefs   name, compiled length parts, pattern array (argument text as bytes, invert-match) — the typedef must be a direct
                restriction of the built-in `string` (so its patterns ARE the whole chain); anything else makes the extractor refuse.

Checked for the shape the model mirrors (any other shape: `missing`, reported by the check as a broken obligation):
  lyplg_type_store_hex_string   hints check first; strndup copy for the non-canonical formats; the loop that lower-cases every byte
                                and stops at the first NUL, value_len = the index it stopped at; the lower-cased copy becomes the
                                canonical value; then (unless STORE_ONLY) length in characters and lyplg_type_validate_patterns on
                                the lower-cased value; no string_check_chars / ly_checkutf8 call
  plugins_hex_string[]          the record of every typedef: store = lyplg_type_store_hex_string, compare / sort / print = the
                                `_simple` callbacks, lyb_data_len = -1
  lyplg_type_compare_simple     same dictionary pointer of the canonical values
  lyplg_type_sort_simple        strcmp of the canonical values
  lyplg_type_print_simple       the canonical string for every format (LYB included)
  ly_pattern_code_match         a PCRE2 error other than NOMATCH (UTF-8 validity of the subject under PCRE2_UTF) is an error of its own
"""
import os, re, sys
sys.path.insert(0, os.path.dirname(os.path.dirname(os.path.abspath(__file__))))
import minic
from vlib import paths

SRC = os.path.join(paths.REPO, "src")
YANG = os.path.join(paths.REPO, "models", "ietf-yang-types@2013-07-15.yang")
U64_MAX = 2**64 - 1


def squash(s):
    return re.sub(r"\s+", "", s)


def body_of(rel, fn):
    _, body = minic.function_source(os.path.join(SRC, rel), fn)
    return squash(minic.strip_comments(body))


# ------------------------------------------------------------------------------------------------ YANG tokens
def yang_tokens(text):
    """-> list of (kind, value): kind 's' quoted string (value = the string after YANG unescaping), 'w' unquoted word, 'p' one of { } ; +"""
    out, i, n = [], 0, len(text)
    while i < n:
        c = text[i]
        if c in " \t\r\n":
            i += 1
        elif text.startswith("//", i):
            j = text.find("\n", i)
            i = n if j < 0 else j
        elif text.startswith("/*", i):
            j = text.find("*/", i + 2)
            i = n if j < 0 else j + 2
        elif c == "'":
            j = text.index("'", i + 1)
            out.append(("s", text[i + 1:j]))
            i = j + 1
        elif c == '"':
            j, buf = i + 1, []
            while text[j] != '"':
                if text[j] == "\\" and text[j + 1] in 'nt"\\':
                    buf.append({"n": "\n", "t": "\t", '"': '"', "\\": "\\"}[text[j + 1]])
                    j += 2
                else:
                    buf.append(text[j])
                    j += 1
            out.append(("s", "".join(buf)))
            i = j + 1
        elif c in "{};":
            out.append(("p", c))
            i += 1
        else:
            j = i
            while j < n and text[j] not in " \t\r\n{};\"'" and not text.startswith("//", j) and not text.startswith("/*", j):
                j += 1
            w = text[i:j]
            out.append(("p", "+") if w == "+" else ("w", w))
            i = j
    return out


def block_end(toks, i):
    """toks[i] is '{': index of the matching '}'"""
    depth = 0
    while True:
        if toks[i] == ("p", "{"):
            depth += 1
        elif toks[i] == ("p", "}"):
            depth -= 1
            if depth == 0:
                return i
        i += 1


def statements(toks):
    """statements of a block body: list of (keyword, argument or None, sub-statements)"""
    out, i = [], 0
    while i < len(toks):
        kw = toks[i][1]
        i += 1
        arg = None
        if i < len(toks) and toks[i][0] in "sw":
            quoted = toks[i][0] == "s"
            arg = toks[i][1]
            i += 1
            while quoted and i + 1 < len(toks) and toks[i] == ("p", "+") and toks[i + 1][0] == "s":
                arg += toks[i + 1][1]
                i += 2
        if toks[i] == ("p", ";"):
            out.append((kw, arg, []))
            i += 1
        elif toks[i] == ("p", "{"):
            e = block_end(toks, i)
            out.append((kw, arg, statements(toks[i + 1:e])))
            i = e + 1
        else:
            raise ValueError("YANG statement %r: unexpected token %r" % (kw, toks[i]))
    return out


def length_parts(arg):
    parts = []
    for p in arg.split("|"):
        p = p.strip()
        lo, _, hi = p.partition("..")
        lo = lo.strip()
        hi = hi.strip() if _ else lo
        val = lambda x: 0 if x == "min" else U64_MAX if x == "max" else int(x)
        parts.append((val(lo), val(hi)))
    return parts


def typedef_of(stmts, name, missing):
    for kw, arg, sub in stmts:
        if kw == "typedef" and arg == name:
            ty = [s for s in sub if s[0] == "type"]
            if len(ty) != 1 or ty[0][1] != "string":
                missing.append("typedef %s: not a direct restriction of the built-in string" % name)
                return None
            length, pats = [], []
            for k, a, ss in ty[0][2]:
                if k == "length":
                    length = length_parts(a)
                elif k == "pattern":
                    inv = any(x[0] == "modifier" and x[1] == "invert-match" for x in ss)
                    pats.append((a.encode("utf-8"), inv))
                else:
                    missing.append("typedef %s: statement %s in the type" % (name, k))
            return length, pats
    missing.append("typedef %s: not found in %s" % (name, os.path.basename(YANG)))
    return None


# ------------------------------------------------------------------------------------------------ the plug-in
def gen_valhex():
    missing = []

    def need(where, b, pats, ordered=False):
        last = -1
        for what, p in pats:
            at = b.find(p)
            if at < 0:
                missing.append("%s: %s" % (where, what))
            elif ordered:
                if at < last:
                    missing.append("%s: %s out of order" % (where, what))
                last = at

    b = body_of("plugins_types/hex_string.c", "lyplg_type_store_hex_string")
    need("lyplg_type_store_hex_string", b, [
        ("hints first", "ret=lyplg_type_check_hints(hints,value,value_len,type->basetype,NULL,err);LY_CHECK_GOTO(ret,cleanup);"),
        ("copy that ends at the first NUL", "if((format!=LY_VALUE_CANON)&&!(options&LYPLG_TYPE_STORE_DYNAMIC)){value=strndup(value,value_len);"),
        ("every byte up to the first NUL through tolower, the length is where the loop stopped",
         "if(format!=LY_VALUE_CANON){for(i=0;(i<value_len)&&((char*)value)[i];++i){((char*)value)[i]=tolower(((char*)value)[i]);}value_len=i;"),
        ("the lower-cased copy is the canonical value", "ret=lydict_insert_zc(ctx,(char*)value,&storage->_canonical);"),
        ("the checks read the canonical value", "value=storage->_canonical;}else{"),
        ("length in characters, then every pattern, unless STORE_ONLY",
         "if(!(options&LYPLG_TYPE_STORE_ONLY)){if(type_str->length){ret=lyplg_type_validate_range(LY_TYPE_STRING,type_str->length,ly_utf8len(value,value_len),value,value_len,err);"
         "LY_CHECK_GOTO(ret,cleanup);}ret=lyplg_type_validate_patterns(type_str->patterns,value,value_len,err);LY_CHECK_GOTO(ret,cleanup);}cleanup:")], ordered=True)
    # repair switch (finding F423): a value with an embedded NUL byte is refused right after the hints check
    nul_shape = "LY_CHECK_GOTO(ret,cleanup);if(value_len&&memchr(value,'\\0',value_len)){ret=ly_err_new(err,LY_EVALID,LYVE_DATA,NULL,NULL,\"Invalidcharacter0x00.\");gotocleanup;}"
    nul_refused = nul_shape in b
    if "memchr" in b and not nul_refused:
        missing.append("lyplg_type_store_hex_string: NUL check of an unknown shape")
    for forbidden in ("string_check_chars", "ly_checkutf8", "ly_getutf8", "toupper"):
        if forbidden in b:
            missing.append("lyplg_type_store_hex_string: calls %s (the model has no such step)" % forbidden)

    src = squash(minic.strip_comments(open(os.path.join(SRC, "plugins_types/hex_string.c")).read()))
    m = re.search(r"plugins_hex_string\[\]=\{(.*)\{0\}\};", src)
    names = []
    if not m:
        missing.append("plugins_hex_string[]: table")
    else:
        for rec in re.findall(r"\{(\.module=.*?)\},", m.group(1)):
            nm = re.search(r'\.name="([^"]*)"', rec)
            if not nm:
                missing.append("plugins_hex_string[]: record without a name")
                continue
            name = nm.group(1)
            names.append(name)
            for what, p in (("module", '.module="ietf-yang-types",.revision="2013-07-15",'), ("store", ".plugin.store=lyplg_type_store_hex_string,"),
                            ("no validate callback", ".plugin.validate=NULL,"), ("compare", ".plugin.compare=lyplg_type_compare_simple,"),
                            ("sort", ".plugin.sort=lyplg_type_sort_simple,"), ("print", ".plugin.print=lyplg_type_print_simple,"),
                            ("duplicate", ".plugin.duplicate=lyplg_type_dup_simple,"), ("LYB size", ".plugin.lyb_data_len=-1,")):
                if p not in rec:
                    missing.append("plugins_hex_string[] %s: %s" % (name, what))
    if not names:
        missing.append("plugins_hex_string[]: no record")

    b = body_of("plugins_types.c", "lyplg_type_compare_simple")
    if b != "{constchar*can1,*can2;can1=lyd_value_get_canonical(ctx,val1);can2=lyd_value_get_canonical(ctx,val2);if(can1==can2){returnLY_SUCCESS;}returnLY_ENOT;}":
        missing.append("lyplg_type_compare_simple: shape")
    b = body_of("plugins_types.c", "lyplg_type_sort_simple")
    need("lyplg_type_sort_simple", b, [("strcmp of the canonical values", "if(can1&&can2){cmp=strcmp(can1,can2);returncmp;}")])
    b = body_of("plugins_types.c", "lyplg_type_print_simple")
    need("lyplg_type_print_simple", b, [("the canonical string, any format", "if(value_len){*value_len=ly_strlen(value->_canonical);}returnvalue->_canonical;}")])
    b = body_of("tree_data_common.c", "ly_pattern_code_match")
    need("ly_pattern_code_match", b, [
        ("anchored match of the whole value", "r=pcre2_match(pcode,(PCRE2_SPTR)str,str_len,0,match_opts,match_data,NULL);"),
        ("any PCRE2 error but NOMATCH is reported with the PCRE2 message", "if((r!=PCRE2_ERROR_NOMATCH)&&(r<0)){"),
        ("verdict", "return(r==PCRE2_ERROR_NOMATCH)?LY_ENOT:LY_SUCCESS;")])

    stmts = []
    try:
        top = statements(yang_tokens(open(YANG, encoding="utf-8").read()))
        stmts = top[0][2] if top and top[0][0] == "module" else []
    except (OSError, ValueError, IndexError) as e:
        missing.append("ietf-yang-types: %s" % e)
    rows = []
    for name in sorted(names):
        t = typedef_of(stmts, name, missing)
        if t is None:
            continue
        length, pats = t
        rows.append('  ("%s", [%s], [%s])' % (
            name, ", ".join("(%d, %d)" % p for p in length),
            ", ".join("([%s], %s)" % (", ".join(str(x) for x in p), "true" if inv else "false") for p, inv in pats)))

    out = ["-- GENERATED by tools/extractors/valhex.py from /repo — do not edit. Regenerated on every check run.", ""]
    if missing:
        out.insert(1, "-- not found in this tree: " + "; ".join(missing))
    out += ["namespace LyModel.Generated", "",
            "/-- the typedefs of ietf-yang-types@2013-07-15 that `plugins_hex_string[]` (hex_string.c) registers, each a direct restriction of",
            "    `string`: name, compiled length parts, pattern array (argument as UTF-8 bytes, `invert-match`) -/",
            "def hexTypedefs : List (String × List (Int × Int) × List (List UInt8 × Bool)) := [",
            ",\n".join(rows) + "]", "",
            "/-- hex_string.c: a value with an embedded NUL byte is refused after the hints check (false on the pinned tree: `strndup` truncates,",
            "    finding F423) -/",
            "def hexNulRefused : Bool := %s" % ("true" if nul_refused else "false"),
            "", "end LyModel.Generated", ""]
    return "\n".join(out), missing


EXTRACTORS = {"ValHex": gen_valhex}
