"""Extractor of component `valid`: option bits of validation / implicit-node creation, node flags, and which variant of the
code is present for the defects the component wrote repairs for (the model follows the tree it is run against)."""
import os, re, sys
sys.path.insert(0, os.path.dirname(os.path.dirname(os.path.abspath(__file__))))
import extract as ex   # noqa: E402


def gen_valid_consts():
    groups = [
        ("parser_data.h", ["LYD_VALIDATE_NO_STATE", "LYD_VALIDATE_PRESENT", "LYD_VALIDATE_MULTI_ERROR", "LYD_VALIDATE_OPERATIONAL",
                           "LYD_VALIDATE_NO_DEFAULTS", "LYD_VALIDATE_NOT_FINAL"]),
        ("tree_data.h", ["LYD_DEFAULT", "LYD_WHEN_TRUE", "LYD_NEW", "LYD_IMPLICIT_NO_STATE", "LYD_IMPLICIT_NO_CONFIG", "LYD_IMPLICIT_OUTPUT",
                         "LYD_IMPLICIT_NO_DEFAULTS"]),
    ]
    out = [ex.HEADER, "namespace LyModel.Generated\n"]
    missing = []
    for f, names in groups:
        try:
            mc = ex.Macros([f])
        except OSError:
            missing += names
            continue
        out.append("-- %s" % f)
        for n in names:
            try:
                v = mc.value(n)
            except Exception:
                missing.append(n)
                continue
            out.append("def %s : Nat := %d" % (n, v))
    # code variants (see findings F60, F17 of component `valid`): a repaired tree has the helper the fix introduces
    src = open(os.path.join(ex.SRC, "validation.c")).read()
    out.append("\n-- validation.c: does lyd_validate_unique fall back to a leaf's schema default whatever its ancestors (finding F60)?")
    out.append("def uniqueDefaultAlways : Bool := %s" % ("false" if "lyd_val_uniq_dflt_in_use" in src else "true"))
    src2 = open(os.path.join(ex.SRC, "tree_data_common.c")).read()
    out.append("-- tree_data_common.c: does lyd_is_default compare a leaf-list instance with any single default (finding F17)?")
    out.append("def isDefaultAnyOne : Bool := %s" % ("false" if "lyd_is_default_llist" in src2 else "true"))
    out.append("\nend LyModel.Generated\n")
    if missing:
        out.insert(1, "-- not found in this tree: " + " ".join(missing))
    return "\n".join(out), missing


EXTRACTORS = {"ValidConsts": gen_valid_consts}
