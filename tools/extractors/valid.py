"""Extractor of component `valid`: option bits of validation / implicit-node creation, node flags, and which variant of the
code is present for the defects the component wrote repairs for (the model follows the tree it is run against)."""
import os, re, sys
sys.path.insert(0, os.path.dirname(os.path.dirname(os.path.abspath(__file__))))
import extract as ex   # noqa: E402


def gen_valid_consts():
    groups = [
        ("parser_data.h", ["LYD_VALIDATE_NO_STATE", "LYD_VALIDATE_PRESENT", "LYD_VALIDATE_MULTI_ERROR", "LYD_VALIDATE_OPERATIONAL",
                           "LYD_VALIDATE_NO_DEFAULTS", "LYD_VALIDATE_NOT_FINAL"]),
        ("tree_data.h", ["LYD_DEFAULT", "LYD_WHEN_TRUE", "LYD_NEW", "LYD_IMPLICIT_NO_STATE", "LYD_IMPLICIT_NO_CONFIG", "LYD_IMPLICIT_OUTPUT",
                         "LYD_IMPLICIT_NO_DEFAULTS"]),
    ]
    out = [ex.HEADER, "namespace LyModel.Generated\n"]
    missing = []
    for f, names in groups:
        try:
            mc = ex.Macros([f])
        except OSError:
            missing += names
            continue
        out.append("-- %s" % f)
        for n in names:
            try:
                v = mc.value(n)
            except Exception:
                missing.append(n)
                continue
            out.append("def %s : Nat := %d" % (n, v))
    # code variants (findings F175, F178, F180, F188, F17 of component `valid`): the model follows the tree it is checked against
    val = open(os.path.join(ex.SRC, "validation.c")).read()
    new = open(os.path.join(ex.SRC, "tree_data_new.c")).read()
    com = open(os.path.join(ex.SRC, "tree_data_common.c")).read()

    def body(src, name):
        m = re.search(r"^%s\(.*?^}" % re.escape(name), src, re.S | re.M)
        if not m:
            missing.append(name)
            return ""
        return m.group(0)
    uniq = body(val, "lyd_val_uniq_list_equal") + body(val, "lyd_validate_unique")
    out.append("\n-- validation.c: lyd_validate_unique falls back to a leaf's schema default whatever its ancestors (F175)")
    out.append("def uniqueDefaultAlways : Bool := %s" % ("true" if re.search(r"=\s*(slist->)?uniques\[u\]\[v\]->dflt;", uniq) else "false"))
    out.append("-- tree_data_new.c: lyd_new_implicit completes node->schema->parent, the innermost case of the data node it found (F180)")
    out.append("def implicitInnerCase : Bool := %s" % ("true" if re.search(r"first,\s*node->schema->parent,", body(new, "lyd_new_implicit")) else "false"))
    out.append("-- validation.c: lyd_validate_autodel_case_dflt looks at the innermost case only (F188)")
    out.append("def autodelDirectCase : Bool := %s" % ("false" if re.search(r"for\s*\(scase", body(val, "lyd_validate_autodel_case_dflt")) else "true"))
    out.append("-- validation.c: lyd_val_diff_add gives only a create of a user-ordered node its anchor (F178)")
    out.append("def valDiffNoDeleteAnchor : Bool := %s" % ("true" if re.search(r"\(op == LYD_DIFF_OP_CREATE\) && lysc_is_userordered", body(val, "lyd_val_diff_add")) else "false"))
    out.append("-- validation.c: lyd_validate_autodel_case_dflt records the removal of a leftover default non-presence container through its children only (F179 b)")
    out.append("def caseDfltNpViaKids : Bool := %s" % ("false" if re.search(r"lyd_validate_autodel_node_del\(first,\s*\*node,\s*mod,\s*1,", body(val, "lyd_validate_autodel_case_dflt")) else "true"))
    out.append("-- validation.c: lyd_validate_cases takes default-flagged nodes (a client-given empty non-presence container) for data of a case (F321)")
    out.append("def casesCountDefault : Bool := %s" % ("false" if re.search(r"match->flags\s*&\s*LYD_DEFAULT\)\s*\{[^}]*?continue;", body(val, "lyd_validate_cases"), re.S) else "true"))
    out.append("-- tree_data_common.c: lyd_is_default compares a leaf-list instance with each single default (F17)")
    out.append("def isDefaultAnyOne : Bool := %s" % ("true" if re.search(r"compare with each possible default value", body(com, "lyd_is_default")) else "false"))
    out.append("\nend LyModel.Generated\n")
    if missing:
        out.insert(1, "-- not found in this tree: " + " ".join(missing))
    return "\n".join(out), missing


EXTRACTORS = {"ValidConsts": gen_valid_consts}
