"""Extractor for component `diff13` (C13): facts about lyd_diff_merge_* / lyd_diff_reverse_all read from src/diff.c.

 * the order of `enum lyd_diff_op` (the model's `Op.code`)
 * the 4 x 4 operation table: for each of lyd_diff_merge_none / _replace / _create / _delete (= operation of the SOURCE node)
   the labels of its `switch (cur_op)` whose body does not end in LOGERR_MERGEOP (= accepted current operations of the TARGET
   node).  `Props/C13.lean: merge_table_matches_source` proves that the model rejects exactly the other cells.
 * `mergeDfltNeedsDeletedDflt`: whether the LYD_DIFF_MERGE_DEFAULTS branch of lyd_diff_merge_create ("the created value is the
   schema default -> operation none") also requires the DELETED value to be the schema default (the repair of finding F18(b));
   the model's `mergeCreate` follows this flag, the theorems about the cell are stated for both values.
 * `reverseUserordRepaired`: whether lyd_diff_reverse_all finishes with the second pass lyd_diff_reverse_userord_r (the repair of
   finding F15 (a)/(b): anchors of reversed create/delete renamed, nested anchors added/removed, runs of user-ordered
   instances put in reverse order) and reverses position metadata with lyd_diff_reverse_position (F15 (c)); the model's `Diff.reverse` follows this flag (Diff/Reverse.lean).
The translation refuses (minic.Unsupported) when the statements have another shape than the two known ones.
"""
import os, re, sys

sys.path.insert(0, os.path.dirname(os.path.dirname(os.path.abspath(__file__))))
import minic            # noqa: E402
import extract as ex    # noqa: E402

OPS = ["LYD_DIFF_OP_CREATE", "LYD_DIFF_OP_DELETE", "LYD_DIFF_OP_REPLACE", "LYD_DIFF_OP_NONE"]


def func_body(src, name):
    m = re.search(r"\n" + name + r"\s*\([^)]*\)\s*\{", src)
    if not m:
        raise minic.Unsupported("%s not found" % name)
    i = m.end()
    depth = 1
    while depth and i < len(src):
        if src[i] == "{":
            depth += 1
        elif src[i] == "}":
            depth -= 1
        i += 1
    return src[m.end():i - 1]


def switch_labels(body, what):
    """[(labels, body text)] of the first `switch (<what>)` in body: only the labels of that switch (depth 1)"""
    m = re.search(r"switch\s*\(\s*" + re.escape(what) + r"\s*\)\s*\{", body)
    if not m:
        raise minic.Unsupported("switch (%s) not found" % what)
    i, depth, seg, groups, labels = m.end(), 1, [], [], []
    text = body
    while i < len(text) and depth:
        c = text[i]
        if c == "{":
            depth += 1
        elif c == "}":
            depth -= 1
            if not depth:
                break
        if depth == 1:
            lm = re.match(r"(case\s+(\w+)|default)\s*:", text[i:])
            if lm and (i == 0 or not (text[i - 1].isalnum() or text[i - 1] == "_")):
                if "".join(seg).strip():
                    groups.append((labels, "".join(seg)))
                    labels = []
                seg = []
                labels.append(lm.group(2) or "default")
                i += lm.end()
                continue
        seg.append(c)
        i += 1
    groups.append((labels, "".join(seg)))
    return groups


def gen_diff13():
    src = minic.strip_comments(open(os.path.join(ex.SRC, "diff.c")).read())
    hdr = minic.strip_comments(open(os.path.join(ex.SRC, "diff.h")).read())
    out = [ex.HEADER, "namespace LyModel.Generated.Diff13\n"]
    missing = []
    # enum order
    m = re.search(r"enum\s+lyd_diff_op\s*\{(.*?)\}", hdr, re.S)
    if not m:
        raise minic.Unsupported("enum lyd_diff_op not found")
    names = [x.strip().split("=")[0].strip() for x in m.group(1).split(",") if x.strip()]
    if sorted(names) != sorted(OPS):
        raise minic.Unsupported("enum lyd_diff_op has other members: %s" % names)
    out.append("-- diff.h: enum lyd_diff_op, in declaration order (create delete replace none as 0 1 2 3 in the model's Op.code)")
    out.append("def opOrder : List Nat := [%s]" % ", ".join(str(OPS.index(n)) for n in names))
    # the table
    out.append("\n-- diff.c: (source operation, current operation of the target) cells that lyd_diff_merge_<source> accepts")
    cells = []
    for fn, sop in (("lyd_diff_merge_none", 3), ("lyd_diff_merge_replace", 2), ("lyd_diff_merge_create", 0), ("lyd_diff_merge_delete", 1)):
        body = func_body(src, fn)
        seen = set()
        for labels, text in switch_labels(body, "cur_op"):
            rejected = "LOGERR_MERGEOP" in text
            for l in labels:
                if l == "default":
                    if not rejected:
                        raise minic.Unsupported("%s: default branch does not reject" % fn)
                    continue
                if l not in OPS:
                    raise minic.Unsupported("%s: label %s" % (fn, l))
                seen.add(l)
                if not rejected:
                    cells.append((sop, OPS.index(l)))
        if not seen:
            missing.append(fn)
    out.append("def mergeAccepted : List (Nat × Nat) := [%s]" % ", ".join("(%d, %d)" % c for c in sorted(cells)))
    # the LYD_DIFF_MERGE_DEFAULTS branch of lyd_diff_merge_create
    body = re.sub(r"\s+", " ", func_body(src, "lyd_diff_merge_create"))
    cmp_src = r"!sleaf->dflt->realtype->plugin->compare\(ctx, sleaf->dflt, &\(\(struct lyd_node_term \*\)src_diff\)->value\)"
    cmp_trg = r"!sleaf->dflt->realtype->plugin->compare\(ctx, sleaf->dflt, &\(\(struct lyd_node_term \*\)\*diff_match\)->value\)"
    if re.search(r"if \(sleaf && sleaf->dflt && " + cmp_src + r"\) \{", body):
        flag = "false"
    elif re.search(r"if \(sleaf && sleaf->dflt && \(\*diff_match\)->schema && " + cmp_src + " && " + cmp_trg + r"\) \{", body):
        flag = "true"
    else:
        raise minic.Unsupported("lyd_diff_merge_create: the LYD_DIFF_MERGE_DEFAULTS branch has an unexpected condition")
    out.append("\n-- diff.c lyd_diff_merge_create, LYD_DIFF_MERGE_DEFAULTS: does 'created value = schema default -> none' also require")
    out.append("-- the deleted value to be the schema default?  (false: finding F18(b))")
    out.append("def mergeDfltNeedsDeletedDflt : Bool := %s" % flag)
    # the second pass of lyd_diff_reverse_all over user-ordered nodes (repair of F15 (a)/(b))
    rev_all = re.sub(r"\s+", " ", func_body(src, "lyd_diff_reverse_all"))
    called = re.search(r"ret = lyd_diff_reverse_userord_r\(diff, mod\)", rev_all) is not None
    defined = re.search(r"\nlyd_diff_reverse_userord_r\s*\(", src) is not None
    if called != defined:
        raise minic.Unsupported("lyd_diff_reverse_userord_r is %s but %s" % ("called" if called else "not called", "defined" if defined else "not defined"))
    # (c): position metadata of a moved instance of a duplicate-instance list reversed by lyd_diff_reverse_position
    pos_def = re.search(r"\nlyd_diff_reverse_position\s*\(", src) is not None
    pos_use = len(re.findall(r"if \(lysc_is_dup_inst_list\(elem->schema\)\) \{ LY_CHECK_GOTO\(ret = lyd_diff_reverse_position\(elem, mod\), cleanup\);",
                             rev_all))
    old_use = len(re.findall(r"lyd_diff_reverse_meta\(elem, mod, \"orig-position\", \"position\"\)", rev_all))
    if called:
        if not pos_def or pos_use != 2 or old_use:
            raise minic.Unsupported("lyd_diff_reverse_all: second pass present but the position metadata is not reversed by lyd_diff_reverse_position")
        pbody = re.sub(r"\s+", " ", func_body(src, "lyd_diff_reverse_position"))
        for pat in [r"cur_pos = \(pos <= orig_pos\) \? pos : pos - 1;", r"pos = \(orig_pos > cur_pos\) \? orig_pos \+ 1 : orig_pos;",
                    r"lyd_change_meta\(meta1, cur_pos \? buf : \"\"\)", r"lyd_change_meta\(meta2, pos \? buf : \"\"\)"]:
            if not re.search(pat, pbody):
                raise minic.Unsupported("lyd_diff_reverse_position has another shape than the modelled one: /%s/ not found" % pat)
    elif pos_def or pos_use or old_use != 2:
        raise minic.Unsupported("lyd_diff_reverse_all: position metadata reversed in an unexpected way")
    if called:
        pos_loop = rev_all.find("LYD_TREE_DFS_END(root, elem)")
        if pos_loop < 0 or rev_all.find("lyd_diff_reverse_userord_r(diff, mod)") < pos_loop:
            raise minic.Unsupported("lyd_diff_reverse_all: lyd_diff_reverse_userord_r is not called after the DFS loop")
        body = re.sub(r"\s+", " ", func_body(src, "lyd_diff_reverse_userord_r"))
        need = [r"lyd_diff_reverse_userord_anchor\(node, mod, op == LYD_DIFF_OP_DELETE\)",
                r"if \(op == LYD_DIFF_OP_CREATE\) \{ LY_CHECK_RET\(lyd_diff_add_create_nested_userord\(elem\)\); \} else \{ "
                r"lyd_diff_del_meta\(elem, lyd_diff_userord_meta_name\(elem->schema, 0\)\); \}",
                r"lyd_diff_reverse_userord_r\(lyd_node_child_p\(node\), mod\)",
                r"while \(lysc_is_userordered\(node->schema\) && node->next && \(node->next->schema == node->schema\)\) \{",
                r"lyd_insert_before\(head, elem\)"]
        for pat in need:
            if not re.search(pat, body):
                raise minic.Unsupported("lyd_diff_reverse_userord_r has another shape than the modelled one: /%s/ not found" % pat)
    out.append("\n-- diff.c lyd_diff_reverse_all: is the reversed diff finished by lyd_diff_reverse_userord_r (anchors of user-ordered")
    out.append("-- create/delete renamed, runs of user-ordered instances in reverse order)?  (false: finding F15 (a)/(b))")
    out.append("def reverseUserordRepaired : Bool := %s" % ("true" if called else "false"))
    out.append("\nend LyModel.Generated.Diff13\n")
    return "\n".join(out), missing


EXTRACTORS = {"Diff13": gen_diff13}
