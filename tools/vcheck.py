#!/usr/bin/env python3
"""Entry point of every registered check:  python3 tools/vcheck.py Cxx --tier quick|thorough

Order of work (DESIGN.md §2.4): translator -> Lean build of the property's modules -> axiom audit ->
forbidden-construct grep -> sanitised build of /repo's working tree + harnesses -> corpus and generated
cases through implementation and model -> classification, known findings, evidence, exit code.
"""
import argparse, collections, hashlib, importlib, json, os, random, sys, time, traceback

sys.path.insert(0, os.path.dirname(os.path.abspath(__file__)))
from vlib import paths, build, leanb, proto  # noqa: E402

MAX_VIOLATION_LINES = 5


class Cx:
    """What a check module (tools/checks/cxx.py) sees."""

    def __init__(self, prop, tier, seed):
        self.prop, self.tier, self.seed = prop, tier, seed
        self.rng = random.Random("%s/%d" % (prop, seed))
        self.evaluations = 0
        self.distinct = set()
        self.dist = collections.Counter()
        self.samples = []
        self.disagreements = []
        self.failures = []          # property fails on the implementation (law / sanitizer / crash)
        self.known_seen = collections.OrderedDict()
        self.notes = []
        self.exhaustive = None
        self.rules = []
        self.findings = load_findings()
        self._lydrv = None
        self.module = None
        self.t0 = time.time()

    # ---- budgets -------------------------------------------------------------------------
    def n(self, quick, thorough):
        return thorough if self.tier == "thorough" else quick

    def sub_rng(self, tag):
        return random.Random("%s/%d/%s" % (self.prop, self.seed, tag))

    # ---- processes -----------------------------------------------------------------------
    def harness(self, name, config="asan", extra=None):
        return build.harness(name, config, extra)

    def tool(self, name, config="asan"):
        return build.tool(name, config)

    def lydrv(self):
        if self._lydrv is None:
            self._lydrv = leanb.driver()
        return self._lydrv

    def run_impl(self, name, lines, config="asan", timeout=900, env=None, crash_is_failure=True, component=None):
        exe = self.harness(name, config)
        def on_crash(c):
            if crash_is_failure:
                self.fail(component or name, "harness aborted (%s rc=%s): %s" % (c.get("kind"), c.get("rc"), sanitizer_summary(c.get("stderr", ""))),
                          {"line": c.get("line"), "stderr": c.get("stderr", "")[-1500:], "crash": True})
        replies, crashes = proto.run_lines([exe], lines, timeout=timeout, env=env, per_crash=on_crash)
        for c in crashes:
            if c.get("at_exit") and crash_is_failure:
                self.fail(component or name, "harness exit status %s after the last request: %s" % (c.get("rc"), sanitizer_summary(c.get("stderr", ""))),
                          {"line": None, "stderr": c.get("stderr", "")[-1500:], "crash": True, "at_exit": True})
        return replies

    def run_model(self, lines, timeout=900):
        replies, crashes = proto.run_lines([self.lydrv()], lines, timeout=timeout, env={})
        for c in crashes:
            self.notes.append("model driver died on: %s" % (c.get("line"),))
        return replies

    # ---- accounting ----------------------------------------------------------------------
    def count(self, case_key=None, nontrivial=True, kind=None, n=1):
        self.evaluations += n
        if kind is not None:
            self.dist[kind] += n
        if nontrivial and case_key is not None:
            self.distinct.add(hashlib.sha1(repr(case_key).encode()).digest()[:8])

    def sample(self, s, cap=8):
        if len(self.samples) < cap:
            self.samples.append(s)

    def rule(self, text):
        if text not in self.rules:
            self.rules.append(text)

    def differential(self, component, lines, impl_name, config="asan", nontrivial=None, canon=None, kind=None, timeout=900):
        """Same request lines to implementation harness and model driver; replies must be equal."""
        if not lines:
            return {}, {}
        ri = self.run_impl(impl_name, lines, config=config, component=component, timeout=timeout)
        rm = self.run_model(lines, timeout=timeout)
        for l in lines:
            i = l.split()[0]
            a, b = ri.get(i, ["err", "NoReply"]), rm.get(i, ["err", "NoReply"])
            if canon:
                a, b = canon(a), canon(b)
            nt = True if nontrivial is None else nontrivial(l, a)
            k = kind(l, a) if kind else (component + ":" + (a[0] if a[0] == "ok" else " ".join(a[:2])))
            self.count(" ".join(l.split()[1:]), nt, k)
            if a != b:
                if a[:2] == ["err", "Crash"] or a[:2] == ["err", "Timeout"]:
                    continue  # already recorded as a failure
                self.disagree(component, l, a, b)
        if lines:
            self.sample(lines[self.rng.randrange(len(lines))])
        return ri, rm

    def disagree(self, component, line, impl, model):
        self.disagreements.append({"component": component, "line": line, "impl": impl, "model": model})

    def fail(self, component, what, case):
        """The property itself fails on the implementation for this concrete case."""
        fid = None
        if self.module is not None and hasattr(self.module, "classify"):
            try:
                fid = self.module.classify(component, what, case)
            except Exception:
                fid = None
        f = self.findings.get(fid) if fid else None
        if f is not None and f.get("status") == "known" and self.prop in f.get("property", []):
            self.known_seen.setdefault(fid, f)
            self.dist["known-finding:" + fid] += 1
            return fid
        self.failures.append({"component": component, "what": what, "case": case, "finding": fid})
        return None

    def known(self, fid):
        """Witness of a listed finding reproduced."""
        f = self.findings.get(fid)
        if f is not None and f.get("status") == "known":
            self.known_seen.setdefault(fid, f)
            self.dist["known-finding:" + fid] += 1
            return True
        return False


def sanitizer_summary(err):
    for l in err.split("\n"):
        if "ERROR: AddressSanitizer" in l or "runtime error:" in l or "ERROR: LeakSanitizer" in l or "WARNING: ThreadSanitizer" in l:
            return l.strip()[:300]
    tail = [l for l in err.strip().split("\n") if l.strip()]
    return tail[-1][:300] if tail else ""


def load_findings():
    res = {}
    files = [paths.FINDINGS]
    dd = os.path.join(paths.VERIF, "findings.d")      # branches in flight; merged into known_findings.json by the integrator
    if os.path.isdir(dd):
        files += [os.path.join(dd, f) for f in sorted(os.listdir(dd)) if f.endswith(".json")]
    for fn in files:
        try:
            d = json.load(open(fn))
        except OSError:
            continue
        for f in d.get("findings", []):
            res[f["id"]] = f
    return res


def write_replay(prop, seed, n, payload):
    d = os.path.join(paths.REPLAYS, prop)
    os.makedirs(d, exist_ok=True)
    p = os.path.join(d, "s%d-%d.json" % (seed, n))
    json.dump(payload, open(p, "w"), indent=1, default=str)
    return p


def main():
    ap = argparse.ArgumentParser()
    ap.add_argument("prop", nargs="?")
    ap.add_argument("--tier", default=os.environ.get("VERIF_TIER", "quick"), choices=["quick", "thorough"])
    ap.add_argument("--replay")
    ap.add_argument("--setup", action="store_true")
    ap.add_argument("--no-lean", action="store_true", help="development only: skip the Lean stages")
    a = ap.parse_args()
    seed = int(os.environ.get("VERIF_SEED", "0") or 0)

    if a.setup:
        return setup()

    prop = a.prop
    mod = importlib.import_module("checks." + prop.lower())
    replay_payload, replay_sig = None, None
    if a.replay:
        replay_payload = json.load(open(a.replay))
        if not hasattr(mod, "replay"):
            # generic replay: every random choice of a check derives from (seed, tier), so the recorded run is repeated exactly
            # and only the recorded failure is looked for
            seed = int(replay_payload.get("seed", seed))
            a.tier = replay_payload.get("tier", a.tier) if replay_payload.get("tier") in ("quick", "thorough") else a.tier
            f0 = replay_payload.get("failure") or {}
            replay_sig = (f0.get("component"), (f0.get("what") or "")[:80]) if f0 else None
    cx = Cx(prop, a.tier, seed)
    cx.module = mod
    t0 = time.time()
    proof_broken = []       # names of theorems / obligations that no longer check
    lean_log = ""
    obligations, discharged, axioms_seen = 0, 0, {}
    ex_report = {}

    # 1. translator
    try:
        ex_report = leanb.extract()
    except Exception as e:
        proof_broken.append("translator: " + repr(e)[:300])
        cx.notes.append(traceback.format_exc()[-1500:])

    for g in getattr(mod, "GENERATED", []):
        if g in ex_report.get("errors", {}):
            proof_broken.append("translator refused Generated/%s: %s" % (g, ex_report["errors"][g][:200]))

    # 2.-4. Lean
    if not a.no_lean:
        ok, lean_log, failed = leanb.build(list(mod.LEAN_TARGETS) + ["lydrv"])
        if not ok:
            proof_broken += failed or ["lake build " + " ".join(mod.LEAN_TARGETS)]
        rc, res, wanted, out = leanb.audit(mod.AUDIT)
        obligations = len(wanted)
        got = dict(res)
        for w in wanted:
            full = [k for k in got if k == w or k.endswith("." + w)]
            if not full:
                if w not in proof_broken: proof_broken.append(w)
                continue
            axs = got[full[0]]
            axioms_seen[w] = axs
            extra = [x for x in axs if x not in leanb.ALLOWED_AXIOMS and x not in getattr(mod, "EXTRA_AXIOMS", ())]
            if extra:
                proof_broken.append("%s (axioms %s)" % (w, ",".join(extra)))
            else:
                discharged += 1
        hits = leanb.grep_forbidden()
        if hits:
            proof_broken.append("forbidden constructs: " + "; ".join(hits[:5]))
        if a.tier == "thorough":
            for m in getattr(mod, "LEANCHECK", mod.LEAN_TARGETS):
                okc, outc = leanb.leanchecker(m)
                if not okc:
                    proof_broken.append("leanchecker " + m)
                    cx.notes.append(outc[-800:])

    # when the driver cannot be built from the regenerated files (translator refusal, a generated definition the hand-written
    # code refers to is gone), the search for a concrete failing input still has to run: it then uses the model of the COMMITTED
    # generated files - the tables of the unchanged tree - and says so in the replay
    if not a.no_lean and proof_broken:
        try:
            leanb.driver()
        except RuntimeError:
            restored = leanb.restore_committed_generated()
            cx.notes.append("lydrv does not build from the regenerated Generated/ files; the search for a failing input ran with the model "
                            "built from the committed (unchanged-tree) files: " + ", ".join(restored))
            proof_broken.append("search ran against the committed generated tables (%s)" % ", ".join(restored))

    # 5.-6. implementation + correspondence
    run_error = None
    try:
        if a.replay and hasattr(mod, "replay"):
            mod.replay(cx, replay_payload)
        else:
            mod.run(cx)
            if a.replay and replay_sig is not None:
                cx.failures = [f for f in cx.failures if (f["component"], f["what"][:80]) == replay_sig]
                cx.notes.append("generic replay: re-ran the whole check at seed %d, tier %s; %d failure(s) with the recorded signature"
                                % (seed, a.tier, len(cx.failures)))
    except RuntimeError as e:
        run_error = str(e)
    except Exception:
        run_error = traceback.format_exc()

    # 7. classification
    out_lines, nviol = [], 0
    if os.environ.get("VERIF_DUMP_FAILURES"):       # development aid: every failure, not only the first of each kind
        json.dump(cx.failures, open(os.environ["VERIF_DUMP_FAILURES"], "w"), default=str)
    for fid, f in cx.known_seen.items():
        out_lines.append("KNOWN-FINDING: property=%s %s %s" % (prop, fid, f.get("what", "")))
    seen_keys = set()
    for f in cx.failures:
        key = (f["component"], f["what"][:80])
        if key in seen_keys: continue
        seen_keys.add(key)
        nviol += 1
        if nviol <= MAX_VIOLATION_LINES:
            p = write_replay(prop, seed, nviol, {"property": prop, "seed": seed, "tier": a.tier, "kind": "failing-input",
                                                  "failure": f, "broken_obligations": proof_broken})
            out_lines.append("VIOLATION property=%s replay=%s" % (prop, p))
    if not cx.failures:
        if run_error:
            nviol += 1
            p = write_replay(prop, seed, nviol, {"property": prop, "seed": seed, "kind": "check-could-not-run", "error": run_error[-4000:]})
            out_lines.append("VIOLATION property=%s replay=%s no-failing-input-found" % (prop, p))
        if proof_broken:
            nviol += 1
            p = write_replay(prop, seed, nviol, {"property": prop, "seed": seed, "kind": "proof-obligation-broken",
                                                  "theorems": proof_broken, "lean_log_tail": lean_log[-3000:],
                                                  "searched": {"evaluations": cx.evaluations, "disagreements": len(cx.disagreements)}})
            out_lines.append("VIOLATION property=%s replay=%s no-failing-input-found" % (prop, p))
        if cx.disagreements:
            nviol += 1
            p = write_replay(prop, seed, nviol, {"property": prop, "seed": seed, "kind": "correspondence-broken",
                                                  "first": cx.disagreements[:10], "count": len(cx.disagreements),
                                                  "searched": {"evaluations": cx.evaluations}})
            out_lines.append("VIOLATION property=%s replay=%s no-failing-input-found" % (prop, p))

    # 8. evidence
    wall = time.time() - t0
    cov = {
        "obligations": obligations, "discharged": discharged if not a.no_lean else 0,
        "checker_cmd": "cd lean && lake build %s && lake env lean %s%s" % (" ".join(mod.LEAN_TARGETS), " && lake env lean ".join(mod.AUDIT) if isinstance(mod.AUDIT, (list, tuple)) else mod.AUDIT,
                        " && lake env leanchecker <module>" if a.tier == "thorough" else ""),
        "trusted_base": ["Lean 4.33.0 kernel", "axioms: " + ", ".join(sorted({x for v in axioms_seen.values() for x in v})) if axioms_seen else "axioms: none",
                         "tools/extract.py (translator)", "correspondence harnesses under harness/ and generators in tools/checks/%s.py" % prop.lower()]
                        + list(getattr(mod, "TRUSTED", [])),
        "theorems": axioms_seen,
        "evaluations": cx.evaluations, "distinct_nontrivial": len(cx.distinct),
        "rule": " | ".join(cx.rules) if cx.rules else getattr(mod, "RULE", ""),
        "samples": cx.samples[:8] or ["(no case ran)"],
        "distribution": dict(cx.dist.most_common(60)),
        "disagreements_checked": len(cx.disagreements),
        "law_failures": len(cx.failures),
        "known_findings_seen": list(cx.known_seen.keys()),
        "generated": ex_report,
        "notes": cx.notes[:20],
    }
    if cx.exhaustive is not None:
        cov["exhaustive"] = bool(cx.exhaustive)
    ev = {"property_id": prop, "tier": a.tier, "seed": seed, "level": "proof", "coverage": cov,
          "assumptions": list(getattr(mod, "ASSUMPTIONS", [])), "wall_s": round(wall, 2), "violations": nviol}
    evdir = paths.EVIDENCE if not (a.no_lean or a.replay) else "/tmp/verif-dev-evidence"      # development runs and replays never touch the committed evidence
    os.makedirs(evdir, exist_ok=True)
    json.dump(ev, open(os.path.join(evdir, prop + ".json"), "w"), indent=1, default=str)

    for l in out_lines:
        print(l)
    print("%s %s seed=%d: obligations %d/%d, evaluations %d (distinct non-trivial %d), disagreements %d, failures %d, known %s, %.1fs"
          % (prop, a.tier, seed, discharged, obligations, cx.evaluations, len(cx.distinct), len(cx.disagreements),
             len(cx.failures), list(cx.known_seen.keys()), wall))
    sys.stdout.flush()
    return 1 if nviol else 0


def setup():
    t = time.time()
    try:
        leanb.extract()
    except Exception:
        traceback.print_exc()
    ok, log, failed = leanb.build(["LyModel", "lydrv"])
    print("lean build:", "ok" if ok else "FAILED %s" % failed, "%.0fs" % (time.time() - t))
    if not ok:
        print(log[-3000:])
    bdir, th = build.libyang("asan")
    print("libyang asan build:", bdir, th, "%.0fs" % (time.time() - t))
    for f in sorted(os.listdir(paths.HARNESS)):
        if f.endswith(".c"):
            try:
                build.harness(f[:-2])
            except RuntimeError as e:
                print(str(e)[-2000:])
                return 1
    print("harnesses built %.0fs" % (time.time() - t))
    return 0 if ok else 1


if __name__ == "__main__":
    sys.exit(main())
