"""c2lean-lite: translator from a small C subset to total Lean 4 definitions (DESIGN.md §2.2, stage 2).

Input: the source text of leaf functions of libyang (cut out by `minic.function_source`, parsed with the
tokenizer / recursive-descent parser of `minic.py`, extended here to keep declaration types and literal suffixes).
Output: one Lean `def` per function over `UInt8 … UInt64`, `Int8 … Int64`, `List UInt8` buffers with explicit
indices (`LyModel.C.rd / wr`), loops either unrolled (constant trip count, computed from the header) or turned into
a function that is structurally recursive over a fuel whose sufficiency follows from the loop header.

THE SUBSET (anything else raises `Refuse`, and the extractor reports the function as missing):
  types        char, signed/unsigned char/short/int/long, (u)intN_t, size_t, ssize_t, ly_bool, enum LY_ERR (as
               unsigned int), pointers to 8-bit types (buffers), `T *` scalar out-parameters, `const char **` cursors,
               `...` with `va_arg(ap, int)`
  expressions  literals (C typing rules incl. u/l suffixes), locals/parameters, object-like macros and enum constants
               (expanded and typed as C does), + - * / % << >> & | ^ ~ ! && || comparisons ?: casts sizeof(type),
               `p[i]`, `*p`, `(*pp)[i]`, reads of file-scope `static const` integer tables, calls of already
               translated functions, `assert(e)` (recorded as an assumption), NULL as an argument
  statements   declarations, assignments and compound assignments, ++/-- as statements, if/else, switch with
               fall-through, for/while with a recognised bound, break/continue, early return, goto to a label that
               follows in the function's top-level block
Integer semantics: LP64, `char` signed, two's complement, arithmetic `>>` on signed (x86-64 clang/gcc — the platform
of the harness).  The usual arithmetic conversions and integer promotions are made explicit as conversions between
the Lean types.  The generated function agrees with the C function on every input on which the C execution has no
undefined behaviour (signed overflow, shift count >= width, division by zero, NULL dereference, stores outside the
buffers passed in) — the sanitised harness checks exactly these on the tested inputs.
"""
import os, re, sys

sys.path.insert(0, os.path.dirname(os.path.abspath(__file__)))
import minic  # noqa: E402


class Refuse(minic.Unsupported):
    pass


# ------------------------------------------------------------------------------------------------- types
class T:
    """integer type"""
    def __init__(self, bits, signed):
        self.bits, self.signed = bits, signed
    def __eq__(self, o): return isinstance(o, T) and (self.bits, self.signed) == (o.bits, o.signed)
    def __hash__(self): return hash((self.bits, self.signed))
    def __repr__(self): return self.lean
    @property
    def lean(self): return ("Int%d" if self.signed else "UInt%d") % self.bits
    @property
    def lo(self): return -(1 << (self.bits - 1)) if self.signed else 0
    @property
    def hi(self): return (1 << (self.bits - 1)) - 1 if self.signed else (1 << self.bits) - 1
    def wrap(self, v):
        v &= (1 << self.bits) - 1
        if self.signed and v >= 1 << (self.bits - 1):
            v -= 1 << self.bits
        return v


I8, U8, I16, U16, I32, U32, I64, U64 = T(8, True), T(8, False), T(16, True), T(16, False), T(32, True), T(32, False), T(64, True), T(64, False)


class Ptr:
    """pointer to an integer type (depth 1) or to such a pointer (depth 2)"""
    def __init__(self, to, const): self.to, self.const = to, const
    def __repr__(self): return "Ptr(%r%s)" % (self.to, ",const" if self.const else "")


BASE = {"char": I8, "short": I16, "int": I32, "long": I64, "size_t": U64, "ssize_t": I64, "uint8_t": U8, "uint16_t": U16,
        "uint32_t": U32, "uint64_t": U64, "int8_t": I8, "int16_t": I16, "int32_t": I32, "int64_t": I64, "ly_bool": U8,
        "LY_ERR": U32}


def type_of_words(ws):
    """C type of a list of declaration-specifier words (without `*`)."""
    ws = [w for w in ws if w not in ("const", "static", "register", "volatile")]
    if not ws:
        raise Refuse("empty type")
    if ws[0] in ("struct", "union"):
        raise Refuse("struct type " + " ".join(ws))
    if ws[0] == "enum":
        return U32
    if ws == ["void"]:
        return None
    sign = None
    base = None
    for w in ws:
        if w == "unsigned": sign = False
        elif w == "signed": sign = True
        elif w in BASE:
            if base is not None and not (base == I64 and w in ("long", "int")) and not (w == "int" and base in (I16, I64)):
                raise Refuse("type " + " ".join(ws))
            if not (w == "int" and base is not None):
                base = BASE[w]
        else:
            raise Refuse("type word " + w)
    if base is None:
        base = I32
    if sign is not None:
        base = T(base.bits, sign)
    return base


def promote(t):
    return I32 if t.bits < 32 else t


def uac(a, b):
    """usual arithmetic conversions"""
    a, b = promote(a), promote(b)
    if a == b: return a
    if a.signed == b.signed: return a if a.bits >= b.bits else b
    u, s = (a, b) if not a.signed else (b, a)
    if u.bits >= s.bits: return u
    return s            # the signed type is wider: it represents every value of the unsigned one


# ------------------------------------------------------------------------------------------------ parser
class CP(minic.P):
    """minic's parser, keeping declaration types and the suffix of integer literals"""

    def is_decl(self):
        k, v = self.peek()
        return k == "id" and (v in minic.TYPEWORDS or v == "va_list")

    def decl(self):
        ws = []
        while self.peek()[0] == "id" and (self.peek()[1] in minic.TYPEWORDS or self.peek()[1] == "va_list"):
            w = self.next()[1]
            ws.append(w)
            if w in ("struct", "enum"):
                ws.append(self.next()[1])
        ds = []
        while True:
            stars = 0
            cq = "const" in ws
            while True:
                if self.accept("*"): stars += 1
                elif self.accept("const"): pass
                else: break
            name = self.next()
            if name[0] != "id":
                raise Refuse("declarator " + repr(name))
            arr = None
            if self.accept("["):
                arr = self.expr() if self.peek()[1] != "]" else ("num", -1, "")
                self.expect("]")
            init = None
            if self.accept("="):
                init = self.assign()
            ds.append((name[1], arr, init, stars))
            if not self.accept(","):
                break
        self.expect(";")
        return ("decl", [(n, a, i) for n, a, i, s in ds], ws, [s for n, a, i, s in ds])

    def postfix(self):
        k, v = self.peek()
        if k == "num":
            self.next()
            m = re.match(r"(0[xX][0-9a-fA-F]+|\d+)([uUlL]*)$", v)
            e = ("num", int(m.group(1), 0), m.group(2).lower(), v[:2].lower() == "0x" or (len(m.group(1)) > 1 and v[0] == "0"))
            return self._post(e)
        return minic.P.postfix(self)

    def _post(self, e):
        while True:
            if self.accept("["):
                i = self.expr(); self.expect("]"); e = ("idx", e, i)
            elif self.peek() == ("op", "++") or self.peek() == ("op", "--"):
                e = ("post", self.next()[1], e)
            else:
                return e


def parse_expr(text):
    p = CP(minic.tokenize(text))
    e = p.expr()
    if p.peek()[0] != "eof":
        raise Refuse("trailing tokens in expression: " + text[:60])
    return e


def parse_params(text):
    """-> list of (name, words, stars) ; variadic marker ('...', [], 0)"""
    res = []
    text = text.strip()
    if text in ("", "void"):
        return res
    for part in text.split(","):
        part = part.strip()
        if part == "...":
            res.append(("...", [], 0)); continue
        toks = minic.tokenize(part)
        ws, stars, name = [], 0, None
        for k, v in toks:
            if k == "op" and v == "*": stars += 1
            elif k == "id":
                ws.append(v)
            else:
                raise Refuse("parameter " + part)
        name = ws.pop()
        res.append((name, ws, stars))
    return res


def literal_type(v, sfx, nondecimal):
    u = "u" in sfx
    l = "l" in sfx
    cands = []
    if not l:
        cands += [I32] if not u else []
        if u or nondecimal: cands += [U32]
    cands += [I64] if not u else []
    cands += [U64] if (u or nondecimal) else []
    for t in cands:
        if t.lo <= v <= t.hi:
            return t
    raise Refuse("integer literal out of range: %d" % v)


# ------------------------------------------------------------------------------------------- expressions
class E:
    """translated integer expression: Lean text, C type, constant value if it is a constant expression"""
    def __init__(self, text, t, const=None):
        self.text, self.t, self.const = text, t, const


class PV:
    """translated pointer value: buffer variable, Lean `Nat` offset text, element type"""
    def __init__(self, base, off, elem, nullable=False, null=False):
        self.base, self.off, self.elem, self.nullable, self.null = base, off, elem, nullable, null


KEYWORDS = {"end", "at", "from", "have", "show", "then", "else", "do", "fun", "let", "in", "if", "match", "with", "where", "open",
            "def", "theorem", "instance", "structure", "class", "namespace", "section", "variable", "universe", "import",
            "export", "mutual", "by", "using", "deriving", "private", "protected", "local", "prefix", "infix", "notation",
            "macro", "syntax", "attribute", "Type", "Sort", "Prop", "ret", "rd", "wr", "next", "fuel", "va", "some", "none"}


def lname(n):
    return n + "_" if n in KEYWORDS else n


def lit(v, t):
    if v < 0:
        return "(%d : %s)" % (v, t.lean)
    return "(%s : %s)" % (hex(v) if v > 9 else str(v), t.lean)


def conv(e, to):
    """conversion of an integer value to type `to` (C: value-preserving where possible, else modulo 2^N)"""
    if e.t == to:
        return e
    if e.const is not None:
        v = to.wrap(e.const)
        return E(lit(v, to), to, v)
    f, txt = e.t, e.text
    if getattr(e, "raw", None) is not None and to == U8:
        return E(e.raw, U8)             # (uint8_t)p[i] for a `char *p`: the stored byte itself
    if not f.signed:
        if f.bits != to.bits:
            txt = "%s.toUInt%d" % (paren(txt), to.bits)
        if to.signed:
            txt = "%s.toInt%d" % (paren(txt), to.bits)
    else:
        if f.bits != to.bits:
            txt = "%s.toInt%d" % (paren(txt), to.bits)
        if not to.signed:
            txt = "%s.toUInt%d" % (paren(txt), to.bits)
    return E(txt, to)


def paren(s):
    if re.match(r"^[\w.']+$", s) or (s[0] == "(" and _balanced(s)):
        return s
    return "(" + s + ")"


def _balanced(s):
    d = 0
    for i, c in enumerate(s):
        if c == "(": d += 1
        elif c == ")":
            d -= 1
            if d == 0 and i != len(s) - 1:
                return False
    return d == 0


def to_nat(e):
    """Lean `Nat` text of a non-negative index / count"""
    if e.const is not None:
        if e.const < 0:
            raise Refuse("negative constant index")
        return str(e.const)
    if e.t.signed:
        return "%s.toNatClampNeg" % paren(e.text)
    return "%s.toNat" % paren(e.text)


CMP = {"==": "==", "!=": "!=", "<": "<", ">": ">", "<=": "≤", ">=": "≥"}
ARITH = {"+": "+", "-": "-", "*": "*", "/": "/", "%": "%", "&": "&&&", "|": "|||", "^": "^^^"}


def fold(op, a, b, t):
    if op == "+": v = a + b
    elif op == "-": v = a - b
    elif op == "*": v = a * b
    elif op in ("/", "%"):
        if b == 0: raise Refuse("constant division by zero")
        q = abs(a) // abs(b) * (1 if (a < 0) == (b < 0) else -1)
        v = q if op == "/" else a - b * q
    elif op == "&": v = a & b
    elif op == "|": v = a | b
    elif op == "^": v = a ^ b
    elif op == "<<":
        if not 0 <= b < t.bits: raise Refuse("constant shift count out of range")
        v = a << b
    elif op == ">>":
        if not 0 <= b < t.bits: raise Refuse("constant shift count out of range")
        v = a >> b
    else:
        raise Refuse("fold " + op)
    if t.signed and not t.lo <= v <= t.hi:
        raise Refuse("signed overflow in a constant expression")
    return t.wrap(v)


# ------------------------------------------------------------------------------------------ translation
OUTPUT_CALLS = ("ly_print_", "ly_write_")
# libc functions that stay MODELLED (named externals: their Lean meaning is a definition of LyModel/C/Sem.lean, C locale)
EXTERNALS = {"iscntrl": ("C.iscntrl", [I32], I32), "isdigit": ("C.isdigit", [I32], I32)}


class Sig:
    """what callers need to know about a translated function"""
    def __init__(self, name, lean, params, ret, outs):
        self.name, self.lean, self.params, self.ret, self.outs = name, lean, params, ret, outs


class Unit:
    """translation context shared by the functions of one generated file"""
    def __init__(self, macro_text):
        self.macro_text = macro_text        # name -> replacement text (object-like macros, enum constants)
        self.funcs = {}                     # C name -> Sig
        self.tables = {}                    # C name -> (lean name, elem type, values)
        self.assumptions = []
        self.defs = []                      # Lean text of the definitions, in order
        self.uses_check_ret = False

    def assume(self, s):
        if s not in self.assumptions:
            self.assumptions.append(s)


def function_text(path, name):
    """-> (return type words, parameter text, body text)"""
    params, body = minic.function_source(path, name)
    src = minic.strip_comments(open(path).read())
    m = re.search(r"([^\n;}]*)\n" + re.escape(name) + r"\s*\(" + re.escape(params) + r"\)\s*\{", src)
    if not m:
        raise Refuse("return type of %s not found" % name)
    ws = [w for w in m.group(1).split() if w not in ("static", "inline", "LIBYANG_API_DEF", "const")]
    if "*" in "".join(ws):
        raise Refuse("%s returns a pointer" % name)
    return ws, params, body


def const_table(path, name):
    """file-scope `static const <int type> name[] = { literals };` -> (elem type, values)"""
    src = minic.strip_comments(open(path).read())
    m = re.search(r"^static\s+const\s+([\w\s]+?)\s+" + re.escape(name) + r"\s*\[\s*\w*\s*\]\s*=\s*\{([^{}]*)\}\s*;", src, re.M)
    if not m:
        raise Refuse("constant table %s not found (or not a flat `static const` integer array)" % name)
    t = type_of_words(m.group(1).split())
    vals = []
    for item in m.group(2).split(","):
        item = item.strip()
        if not item:
            continue
        if not re.match(r"^(0[xX][0-9a-fA-F]+|\d+)[uUlL]*$", item):
            raise Refuse("table %s: entry %r is not an integer literal" % (name, item))
        v = int(re.sub(r"[uUlL]+$", "", item), 0)
        if not t.lo <= v <= t.hi:
            raise Refuse("table %s: entry %d does not fit %s" % (name, v, t.lean))
        vals.append(v)
    return t, vals


def idents(lines):
    return set(re.findall(r"[A-Za-z_][\w']*", "\n".join(lines)))


def ind(lines, n=2):
    return [" " * n + l for l in lines]


class K:
    """continuations of the statement being translated (Lean text, as lists of lines)"""
    def __init__(self, next, brk=None, cont=None):
        self.next, self.brk, self.cont = next, brk, cont
    def with_next(self, n):
        return K(n, self.brk, self.cont)


FELL_OFF = "FELL_OFF_THE_END"
UNROLL_MAX = 3          # constant-trip loops of up to 3 iterations are unrolled, longer ones become fuel loops
JOIN_THRESHOLD = 160


class Fn:
    def __init__(self, unit, path, name, text=None):
        """`text` = (return type words, parameter text, body text) of a synthetic function cut out of `path` (a slice)"""
        self.u, self.name, self.path = unit, name, path
        self.lean = name
        rws, ptext, body = text if text is not None else function_text(path, name)
        self.rett = type_of_words(rws)
        self.ast = CP(minic.tokenize(body)).block()
        self.vars = {}          # C name -> dict(kind=…)
        self.order = []         # Lean-level parameter order
        self.nj = 0
        self.nl = 0
        self.aux = []           # Lean text of loop functions
        self.wrap = []          # stack of return wrappers (inside loop functions)
        self.labels = {}
        self.guards = []        # nullable pointers known to be non-NULL here
        self.params = []
        self._params(parse_params(ptext))
        self._collect_decls(self.ast, [])
        self._nullable_scan(self.ast)

    # -- declarations ------------------------------------------------------------------------------
    def _params(self, ps):
        for name, ws, stars in ps:
            if name == "...":
                self.vars["..."] = dict(kind="va", lean="va")
                self.params.append(("...", "va"))
                continue
            const = "const" in ws
            if [w for w in ws if w != "const"] == ["struct", "ly_out"] and stars == 1:
                # output stream: modelled as the list of bytes written so far (memory stream; I/O errors are outside the model)
                self.vars[name] = dict(kind="ostream", lean=lname(name))
                self.params.append((name, "ostream"))
                continue
            t = type_of_words(ws)
            if stars == 0:
                if t is None: raise Refuse("void parameter")
                self.vars[name] = dict(kind="int", t=t, lean=lname(name))
            elif stars == 1:
                if t is None: raise Refuse("void * parameter " + name)
                if t.bits == 8:
                    self.vars[name] = dict(kind="buf", elem=t, lean=lname(name), writable=not const, nullable=False, param=True)
                elif not const:
                    self.vars[name] = dict(kind="out", t=t, lean=lname(name), nullable=False)
                else:
                    raise Refuse("parameter %s: pointer to const %s" % (name, t.lean))
            elif stars == 2 and t is not None and t.bits == 8 and const:
                self.vars[name] = dict(kind="cursor", elem=t, lean=lname(name), pos=lname(name) + "_pos")
            else:
                raise Refuse("parameter %s: unsupported pointer type" % name)
            self.params.append((name, self.vars[name]["kind"]))

    def _collect_decls(self, s, scope):
        k = s[0]
        if k == "block":
            inner = list(scope)
            for x in s[1]:
                self._collect_decls(x, inner)
        elif k == "decl":
            ws, stars = s[2], s[3]
            for (name, arr, init), st in zip(s[1], stars):
                if ws == ["va_list"]:
                    d = dict(kind="valist", lean=lname(name))
                elif arr is not None:
                    raise Refuse("local array " + name)
                elif st == 0:
                    t = type_of_words(ws)
                    if t is None: raise Refuse("void local")
                    d = dict(kind="int", t=t, lean=lname(name))
                elif st == 1:
                    t = type_of_words(ws)
                    if t is None or t.bits != 8: raise Refuse("local pointer %s to a non-byte type" % name)
                    d = dict(kind="ptr", elem=t, lean=lname(name), base=None)
                else:
                    raise Refuse("local pointer to pointer " + name)
                if name in scope:
                    raise Refuse("redeclaration of %s in a nested scope" % name)
                old = self.vars.get(name)
                if old is not None and (old.get("param") or old["kind"] != d["kind"] or old.get("t") != d.get("t") or name in [p[0] for p in self.params]):
                    raise Refuse("two declarations of %s with different types" % name)
                self.vars[name] = d
                scope.append(name)
        elif k in ("if",):
            self._collect_decls(s[2], list(scope))
            if s[3] is not None: self._collect_decls(s[3], list(scope))
        elif k == "switch":
            self._collect_decls(s[2], list(scope))
        elif k == "for":
            inner = list(scope)
            if s[1] is not None: self._collect_decls(s[1], inner)
            self._collect_decls(s[4], inner)
        elif k == "while":
            self._collect_decls(s[2], list(scope))
        elif k == "do":
            raise Refuse("do-while loop")

    def _nullable_scan(self, node):
        """a pointer parameter used as a truth value may be NULL: it becomes an `Option`"""
        def truth(e):
            if e[0] == "id" and e[1] in self.vars and self.vars[e[1]]["kind"] in ("buf", "out"):
                self.vars[e[1]]["nullable"] = True
            elif e[0] == "un" and e[1] == "!":
                truth(e[2])
            elif e[0] == "bin" and e[1] in ("&&", "||"):
                truth(e[2]); truth(e[3])
            elif e[0] == "bin" and e[1] in ("==", "!=") and e[3] == ("id", "NULL") and e[2][0] == "id":
                truth(e[2])
        def walk(x):
            if isinstance(x, tuple):
                if x and x[0] in ("if", "while"): truth(x[1])
                if x and x[0] == "for" and x[2] is not None: truth(x[2])
                if x and x[0] == "?:": truth(x[1])
                if x and x[0] == "bin" and x[1] in ("&&", "||"): truth(x[2]); truth(x[3])
                if x and x[0] == "un" and x[1] == "!": truth(x[2])
                for y in x: walk(y)
            elif isinstance(x, list):
                for y in x: walk(y)
        walk(self.ast)

    def lean_type(self, name):
        v = self.vars[name]
        k = v["kind"]
        if k == "int": return v["t"].lean
        if k == "buf": return "Option (List UInt8)" if v["nullable"] else "List UInt8"
        if k == "out": return "Option " + v["t"].lean if v["nullable"] else v["t"].lean
        if k in ("ptr",): return "Nat"
        if k in ("va", "valist"): return "List Int32"
        if k == "ostream": return "List UInt8"
        raise Refuse("type of " + name)

    def state_vars(self):
        """Lean-level mutable variables: Lean name -> Lean type"""
        res = {}
        for n, v in self.vars.items():
            if v["kind"] == "cursor":
                res[v["pos"]] = "Nat"
            elif v["kind"] == "buf":
                if v["writable"]: res[v["lean"]] = self.lean_type(n)
            elif v["kind"] == "va":
                pass
            else:
                res[v["lean"]] = self.lean_type(n)
        return res

    def all_vars(self):
        res = dict(self.state_vars())
        for n, v in self.vars.items():
            if v["kind"] in ("buf", "cursor"): res[v["lean"]] = self.lean_type(n) if v["kind"] == "buf" else "List UInt8"
            if v["kind"] == "va": res["va"] = "List Int32"
        return res

    # -- expressions -------------------------------------------------------------------------------
    def macro(self, name, depth):
        if depth > 12: raise Refuse("macro recursion at " + name)
        if name not in self.u.macro_text: raise Refuse("unknown identifier " + name)
        txt = self.u.macro_text[name]
        try:
            ast = parse_expr(txt)
        except minic.Unsupported as e:
            raise Refuse("macro %s is not an expression: %s" % (name, e))
        r = self.ex(ast, depth + 1)
        if r.const is None:
            raise Refuse("macro %s is not a constant expression" % name)
        return r

    def pv(self, e):
        """pointer-valued expression -> PV"""
        k = e[0]
        if k == "id":
            if e[1] == "NULL":
                return PV(None, "0", None, null=True)
            v = self.vars.get(e[1])
            if v is None: raise Refuse("unknown pointer " + e[1])
            if v["kind"] == "buf":
                return PV(e[1], "0", v["elem"], nullable=v["nullable"])
            if v["kind"] == "ptr":
                if v["base"] is None: raise Refuse("pointer %s used before it is set" % e[1])
                return PV(v["base"], v["lean"], v["elem"])
            raise Refuse("%s is not a pointer" % e[1])
        if k == "un" and e[1] == "*" and e[2][0] == "id" and self.vars.get(e[2][1], {}).get("kind") == "cursor":
            v = self.vars[e[2][1]]
            return PV(e[2][1], v["pos"], v["elem"])
        if k == "un" and e[1] == "&" and e[2][0] == "idx":
            b = self.pv(e[2][1]); i = self.ex(e[2][2])
            return PV(b.base, self.nat_add(b.off, to_nat(i)), b.elem, b.nullable)
        if k == "bin" and e[1] == "+":
            try:
                b = self.pv(e[2]); i = self.ex(e[3])
            except Refuse:
                b = self.pv(e[3]); i = self.ex(e[2])
            return PV(b.base, self.nat_add(b.off, to_nat(i)), b.elem, b.nullable)
        if k == "cast" and "*" in e[1]:
            ws = [w for w in e[1] if w != "*"]
            t = type_of_words(ws)
            b = self.pv(e[2])
            if t is None or t.bits != 8: raise Refuse("pointer cast to a non-byte type")
            return PV(b.base, b.off, t, b.nullable)
        raise Refuse("pointer expression " + k)

    def nat_add(self, a, b):
        if a == "0": return b
        if b == "0": return a
        return "%s + %s" % (a, b)

    def buf_text(self, p):
        """Lean text of the (non-NULL) byte list a pointer value points into"""
        if p.null: raise Refuse("dereference of NULL")
        v = self.vars[p.base]
        if v["kind"] == "buf" and v["nullable"]:
            if p.base not in self.guards:
                raise Refuse("%s may be NULL where it is dereferenced" % p.base)
            return "(%s.getD [])" % v["lean"]
        return v["lean"]

    def load(self, p, idx_text):
        raw = "C.rd %s %s" % (self.buf_text(p), paren(self.nat_add(p.off, idx_text)))
        if p.elem == U8:
            return E(raw, U8)
        r = E("(%s).toInt8" % raw, I8)
        r.raw = raw
        return r

    def ispointer(self, e):
        try:
            self.pv(e); return True
        except Refuse:
            return False

    def ex(self, e, depth=0):
        k = e[0]
        if k == "num":
            t = literal_type(e[1], e[2], e[3]) if len(e) > 2 else I32
            return E(lit(e[1], t), t, e[1])
        if k == "id":
            v = self.vars.get(e[1])
            if v is not None:
                if v["kind"] == "int": return E(v["lean"], v["t"])
                raise Refuse("%s used as an integer" % e[1])
            return self.macro(e[1], depth)
        if k == "idx":
            if e[1][0] == "id" and e[1][1] in self.u.tables:
                ln, t, vals = self.u.tables[e[1][1]]
                i = self.ex(e[2])
                return E("C.tbl %s %s" % (ln, paren(to_nat(i))), t)
            p = self.pv(e[1]); i = self.ex(e[2])
            return self.load(p, to_nat(i))
        if k == "un":
            op = e[1]
            if op == "*":
                if e[2][0] == "id" and self.vars.get(e[2][1], {}).get("kind") == "out":
                    v = self.vars[e[2][1]]
                    if v["nullable"]:
                        if e[2][1] not in self.guards: raise Refuse("%s may be NULL where it is dereferenced" % e[2][1])
                        return E("(%s.getD 0)" % v["lean"], v["t"])
                    return E(v["lean"], v["t"])
                return self.load(self.pv(e[2]), "0")
            if op == "!":
                return self.bool_int(self.cond(e))
            if op in ("++", "--", "&"):
                raise Refuse("operator %s inside an expression" % op)
            a = self.ex(e[2], depth)
            t = promote(a.t)
            a = conv(a, t)
            if op == "+": return a
            if op == "-":
                if a.const is not None:
                    return E(lit(t.wrap(-a.const), t), t, t.wrap(-a.const))
                return E("(-%s)" % paren(a.text), t)
            if op == "~":
                if a.const is not None:
                    return E(lit(t.wrap(~a.const), t), t, t.wrap(~a.const))
                return E("(~~~%s)" % paren(a.text), t)
        if k == "bin":
            op = e[1]
            if op in ("&&", "||") or op in CMP:
                return self.bool_int(self.cond(e))
            if op == "-" and self.ispointer(e[2]) and self.ispointer(e[3]):
                a, b = self.pv(e[2]), self.pv(e[3])
                if a.base != b.base: raise Refuse("difference of pointers into different buffers")
                return E("(Int64.ofNat %s - Int64.ofNat %s)" % (paren(a.off), paren(b.off)), I64)
            a, b = self.ex(e[2], depth), self.ex(e[3], depth)
            if op in ("<<", ">>"):
                t = promote(a.t)
                a = conv(a, t)
                if a.const is not None and b.const is not None:
                    v = fold(op, a.const, b.const, t)
                    return E(lit(v, t), t, v)
                if b.const is not None and not 0 <= b.const < t.bits:
                    raise Refuse("shift count %d out of range" % b.const)
                b = conv(b, t)
                return E("(%s %s %s)" % (a.text, "<<<" if op == "<<" else ">>>", b.text), t)
            if op not in ARITH: raise Refuse("operator " + op)
            t = uac(a.t, b.t)
            a, b = conv(a, t), conv(b, t)
            if a.const is not None and b.const is not None:
                v = fold(op, a.const, b.const, t)
                return E(lit(v, t), t, v)
            if op in ("/", "%") and b.const is None:
                self.u.assume("%s: the divisor `%s` is not zero" % (self.name, b.text))
            return E("(%s %s %s)" % (a.text, ARITH[op], b.text), t)
        if k == "?:":
            c = self.cond(e[1])
            a, b = self.ex(e[2], depth), self.ex(e[3], depth)
            t = uac(a.t, b.t)
            return E("(if %s then %s else %s)" % (c, conv(a, t).text, conv(b, t).text), t)
        if k == "cast":
            if "*" in e[1]: raise Refuse("pointer cast in an integer expression")
            t = type_of_words(e[1])
            if t is None: raise Refuse("cast to void")
            return conv(self.ex(e[2], depth), t)
        if k == "sizeof":
            ws = [w for w in e[1]]
            if "*" in ws: return E(lit(8, U64), U64, 8)
            t = type_of_words(ws)
            return E(lit(t.bits // 8, U64), U64, t.bits // 8)
        if k == "call":
            return self.call(e)
        raise Refuse("expression " + k)

    def bool_int(self, c):
        return E("(if %s then (1 : Int32) else 0)" % c, I32)

    def cond(self, e):
        """expression in a boolean context -> Lean `Bool` text"""
        k = e[0]
        if k == "un" and e[1] == "!":
            return "(!%s)" % self.cond(e[2])
        if k == "bin" and e[1] in ("&&", "||"):
            a = self.cond(e[2])
            if e[1] == "&&":
                g = self.nonnull_of(e[2])
                self.guards += g
                try:
                    b = self.cond(e[3])
                finally:
                    for _ in g: self.guards.pop()
            else:
                b = self.cond(e[3])
            return "(%s %s %s)" % (a, e[1], b)
        if k == "bin" and e[1] in CMP:
            if e[3] == ("id", "NULL") or e[2] == ("id", "NULL"):
                o = e[2] if e[3] == ("id", "NULL") else e[3]
                c = self.cond(o)
                return c if e[1] == "!=" else "(!%s)" % c
            a, b = self.ex(e[2]), self.ex(e[3])
            t = uac(a.t, b.t)
            a, b = conv(a, t), conv(b, t)
            if e[1] in ("==", "!="):
                return "(%s %s %s)" % (a.text, e[1], b.text)
            return "decide (%s %s %s)" % (a.text, CMP[e[1]], b.text)
        if k == "id" and e[1] in self.vars and self.vars[e[1]]["kind"] in ("buf", "out"):
            v = self.vars[e[1]]
            if not v["nullable"]: raise Refuse("internal: %s not marked nullable" % e[1])
            return "%s.isSome" % v["lean"]
        if k == "id" and e[1] in self.vars and self.vars[e[1]]["kind"] in ("ptr", "cursor"):
            raise Refuse("local pointer %s used as a truth value" % e[1])
        a = self.ex(e)
        return "(%s != 0)" % a.text

    def nonnull_of(self, e):
        """nullable pointers that are non-NULL whenever `e` is true"""
        if e[0] == "id" and e[1] in self.vars and self.vars[e[1]]["kind"] in ("buf", "out") and self.vars[e[1]].get("nullable"):
            return [e[1]]
        if e[0] == "bin" and e[1] == "&&":
            return self.nonnull_of(e[2]) + self.nonnull_of(e[3])
        if e[0] == "bin" and e[1] == "!=" and e[3] == ("id", "NULL"):
            return self.nonnull_of(e[2])
        return []

    def null_of(self, e):
        """nullable pointers that are non-NULL whenever `e` is false"""
        if e[0] == "un" and e[1] == "!":
            return self.nonnull_of(e[2])
        if e[0] == "bin" and e[1] == "||":
            return self.null_of(e[2]) + self.null_of(e[3])
        if e[0] == "bin" and e[1] == "==" and e[3] == ("id", "NULL"):
            return self.nonnull_of(e[2])
        return []

    def call(self, e):
        if e[1][0] != "id": raise Refuse("indirect call")
        f = e[1][1]
        if f == "va_arg":
            raise Refuse("va_arg outside `x = va_arg(ap, int);`")
        if f in EXTERNALS and f not in self.u.funcs:
            ln, ats, rt = EXTERNALS[f]
            if len(e[2]) != len(ats): raise Refuse("call of %s with %d arguments" % (f, len(e[2])))
            self.u.assume("%s: libc `%s` is the modelled function `%s` (C locale)" % (self.name, f, ln))
            return E("(%s %s)" % (ln, " ".join(paren(conv(self.ex(a), t).text) for a, t in zip(e[2], ats))), rt)
        if f in OUTPUT_CALLS:
            raise Refuse("%s inside an expression (only `%s(…);` and `x = %s(…);` are supported)" % (f, f, f))
        sig = self.u.funcs.get(f)
        if sig is None: raise Refuse("call of %s, which is not a translated function" % f)
        if sig.outs: raise Refuse("call of %s, which has output parameters, inside an expression" % f)
        return E("(%s)" % self.call_text(sig, e[2]), sig.ret)

    def call_text(self, sig, args):
        fixed = [p for p in sig.params if p[1] != "va"]
        variadic = any(p[1] == "va" for p in sig.params)
        if len(args) < len(fixed) or (len(args) > len(fixed) and not variadic):
            raise Refuse("call of %s with %d arguments" % (sig.name, len(args)))
        out = []
        for (pn, kind, info), a in zip(fixed, args):
            if kind == "int":
                out.append(paren(conv(self.ex(a), info).text))
            elif kind == "buf":
                p = self.pv(a)
                if p.null:
                    if not info["nullable"]: raise Refuse("NULL passed to %s, which dereferences it" % sig.name)
                    out.append("none"); continue
                src = self.vars[p.base]
                txt = src["lean"]
                if src["kind"] == "buf" and src["nullable"]:
                    if p.off != "0": raise Refuse("offset into a nullable buffer passed on")
                    if info["nullable"]: out.append(txt); continue
                    if p.base not in self.guards: raise Refuse("%s may be NULL where it is passed to %s" % (p.base, sig.name))
                    txt = "(%s.getD [])" % txt
                if p.off != "0":
                    txt = "(%s.drop %s)" % (txt, paren(p.off))
                out.append("(some %s)" % txt if info["nullable"] else txt)
            else:
                raise Refuse("argument kind %s in a call of %s" % (kind, sig.name))
        if variadic:
            va = []
            for a in args[len(fixed):]:
                x = self.ex(a)
                t = promote(x.t)
                if t != I32: raise Refuse("variadic argument of type %s (only int is supported)" % t.lean)
                va.append(conv(x, I32).text)
            out.append("[" + ", ".join(va) + "]")
        return "%s %s" % (sig.lean, " ".join(out))

    # -- statements --------------------------------------------------------------------------------
    def lv_root(self, e):
        """Lean-level variable changed by an assignment to lvalue `e`"""
        if e[0] == "id":
            v = self.vars.get(e[1])
            if v is None: raise Refuse("assignment to unknown " + e[1])
            if v["kind"] in ("int", "ptr"): return v["lean"]
            raise Refuse("assignment to %s" % e[1])
        if e[0] == "un" and e[1] == "*" and e[2][0] == "id":
            v = self.vars.get(e[2][1])
            if v is None: raise Refuse("unknown " + e[2][1])
            if v["kind"] == "out": return v["lean"]
            if v["kind"] == "cursor": return v["pos"]
            if v["kind"] == "ptr": return self._wbuf(v["base"], e[2][1])
            if v["kind"] == "buf": return self._wbuf(e[2][1], e[2][1])
        if e[0] == "idx":
            b = e[1]
            while b[0] in ("idx",): b = b[1]
            if b[0] == "id" and b[1] in self.vars:
                v = self.vars[b[1]]
                if v["kind"] == "buf": return self._wbuf(b[1], b[1])
                if v["kind"] == "ptr": return self._wbuf(v["base"], b[1])
        raise Refuse("unsupported lvalue")

    def _wbuf(self, base, via):
        if base is None:
            return "?" + via           # resolved later (pointer not yet bound while scanning)
        v = self.vars[base]
        if not v.get("writable"): raise Refuse("store through %s into a const buffer" % via)
        if v.get("nullable"): raise Refuse("store into a nullable buffer")
        return v["lean"]

    def assigned(self, s):
        """Lean-level variables a statement (list) may assign"""
        res = set()
        def expr(e):
            if not isinstance(e, tuple): return
            if e[0] == "assign":
                res.add(self.lv_root(e[2])); expr(e[3])
            elif e[0] == "post":
                res.add(self.lv_root(e[2]))
            elif e[0] == "un" and e[1] in ("++", "--"):
                res.add(self.lv_root(e[2]))
            elif e[0] == "call" and e[1] == ("id", "va_arg"):
                res.add(self.vars[e[2][0][1]]["lean"])
            elif e[0] == "call" and e[1][0] == "id" and e[1][1] in OUTPUT_CALLS and e[2] and e[2][0][0] == "id" and e[2][0][1] in self.vars:
                res.add(self.vars[e[2][0][1]]["lean"])
            else:
                for y in e[1:]:
                    if isinstance(y, tuple): expr(y)
                    elif isinstance(y, list):
                        for z in y: expr(z)
        def st(x):
            k = x[0]
            if k == "block":
                for y in x[1]: st(y)
            elif k == "expr": expr(x[1])
            elif k == "decl":
                for (n, a, i) in x[1]:
                    res.add(self.vars[n]["lean"])
                    if i is not None: expr(i)
            elif k == "if":
                expr(x[1]); st(x[2])
                if x[3] is not None: st(x[3])
            elif k == "switch":
                expr(x[1]); st(x[2])
            elif k == "for":
                if x[1] is not None: st(x[1])
                if x[2] is not None: expr(x[2])
                if x[3] is not None: expr(x[3])
                st(x[4])
            elif k == "while":
                expr(x[1]); st(x[2])
            elif k == "return":
                if x[1] is not None: expr(x[1])
        if isinstance(s, list):
            for y in s: st(y)
        else:
            st(s)
        return res

    def has(self, s, kinds, stop=()):
        """does statement s contain a statement of one of `kinds` (not looking inside `stop` constructs)?"""
        if isinstance(s, list):
            return any(self.has(y, kinds, stop) for y in s)
        if s[0] in kinds: return True
        if s[0] in stop: return False
        if s[0] == "block": return self.has(s[1], kinds, stop)
        if s[0] == "if": return self.has(s[2], kinds, stop) or (s[3] is not None and self.has(s[3], kinds, stop))
        if s[0] == "switch": return self.has(s[2], kinds, stop)
        if s[0] == "for": return self.has(s[4], kinds, stop)
        if s[0] == "while": return self.has(s[2], kinds, stop)
        return False

    def mkret(self, e):
        """Lean text of the function result for `return e;`"""
        parts = []
        if self.rett is not None:
            if e is None: raise Refuse("return without a value")
            if e[0] == "call" and e[1][0] == "id" and e[1][1] in self.u.funcs and not self.u.funcs[e[1][1]].outs:
                parts.append(conv(self.call(e), self.rett).text)
            else:
                parts.append(conv(self.ex(e), self.rett).text)
        elif e is not None:
            raise Refuse("value returned from a void function")
        for n, lean, ty in self.outs():
            parts.append(lean)
        txt = parts[0] if len(parts) == 1 and not self.outs() else "⟨" + ", ".join(parts) + "⟩"
        if not parts:
            txt = "()"
        for w in reversed(self.wrap):
            txt = w(txt)
        return [txt]

    def outs(self):
        """output fields besides the return value: (field name, Lean variable, Lean type)"""
        res = []
        for n, kind in self.params:
            v = self.vars[n]
            if kind == "cursor": res.append((v["pos"], v["pos"], "Nat"))
            elif kind == "out": res.append((v["lean"], v["lean"], self.lean_type(n)))
            elif kind == "buf" and v["writable"] and v["lean"] in self.stored: res.append((v["lean"], v["lean"], self.lean_type(n)))
            elif kind == "ostream": res.append((v["lean"], v["lean"], "List UInt8"))
        return res

    def join(self, k_lines, changed):
        """share a long continuation: -> (definition lines, call lines)"""
        sv = self.state_vars()
        used = idents(k_lines)
        ps = [v for v in sorted(changed) if v in used and v in sv]
        self.nj += 1
        kn = "k%d" % self.nj
        if ps:
            head = "let %s := (fun %s =>" % (kn, " ".join("(%s : %s)" % (p, sv[p]) for p in ps))
            call = "%s %s" % (kn, " ".join(ps))
        else:
            head = "let %s := (fun (_ : Unit) =>" % kn
            call = "%s ()" % kn
        lines = [head] + ind(k_lines, 4)
        lines[-1] += ")"
        return lines, [call]

    def maybe_join(self, k_lines, stmt):
        if sum(len(l.strip()) for l in k_lines) <= JOIN_THRESHOLD:
            return [], k_lines
        return self.join(k_lines, self.assigned(stmt))

    def tr_list(self, ss, k, top=False):
        """statements ss, then continuation k.next"""
        if not ss:
            return k.next
        s = ss[0]
        if s[0] == "label":
            if not top: raise Refuse("label %s inside a nested block" % s[1])
            rest = self.tr_list(ss[1:], k, top)
            self.labels[s[1]] = ss[1:]
            return rest
        g = []
        if s[0] == "if" and s[3] is None and self.never_falls(s[2]):
            g = self.null_of(s[1])          # `if (!p) return …;` — p is not NULL in what follows
        self.guards += g
        try:
            rest = self.tr_list(ss[1:], k, top)
        finally:
            for _ in g: self.guards.pop()
        return self.tr_stmt(s, k.with_next(rest))

    def never_falls(self, s):
        if s[0] in ("return", "goto"): return True
        if s[0] == "block" and s[1]: return self.never_falls(s[1][-1])
        if s[0] == "if" and s[3] is not None: return self.never_falls(s[2]) and self.never_falls(s[3])
        return False

    def bind_pointers(self, s):
        """pointer locals point into one buffer each; find it (in program order) before translating"""
        k = s[0]
        if k == "block":
            for x in s[1]: self.bind_pointers(x)
        elif k == "decl":
            for (n, arr, init) in s[1]:
                if self.vars[n]["kind"] == "ptr" and init is not None:
                    self._bind(n, init)
        elif k == "expr":
            e = s[1]
            if e[0] == "assign" and e[1] == "=" and e[2][0] == "id" and self.vars.get(e[2][1], {}).get("kind") == "ptr":
                self._bind(e[2][1], e[3])
        elif k == "if":
            self.bind_pointers(s[2])
            if s[3] is not None: self.bind_pointers(s[3])
        elif k == "switch": self.bind_pointers(s[2])
        elif k == "for":
            if s[1] is not None: self.bind_pointers(s[1])
            self.bind_pointers(s[4])
        elif k == "while": self.bind_pointers(s[2])

    def _bind(self, n, rhs):
        v = self.vars[n]
        p = self.pv(rhs)
        if p.null or p.nullable: raise Refuse("pointer %s set from a nullable pointer" % n)
        if v["base"] not in (None, p.base): raise Refuse("pointer %s points into two different buffers" % n)
        v["base"] = p.base

    def let(self, lean, ty, text):
        return "let %s : %s := %s" % (lean, ty, text)

    def assign(self, lhs, op, rhs):
        """lines of one assignment statement `lhs op rhs`"""
        if op == "=" and rhs[0] == "assign" and rhs[1] == "=" and rhs[2][0] == "id" and self.vars.get(rhs[2][1], {}).get("kind") == "int":
            return self.assign(rhs[2], "=", rhs[3]) + self.assign(lhs, "=", rhs[2])       # a = b = c
        # pointer locals
        if lhs[0] == "id" and self.vars.get(lhs[1], {}).get("kind") == "ptr":
            v = self.vars[lhs[1]]
            if op == "=":
                p = self.pv(rhs)
                if p.null or p.nullable: raise Refuse("pointer %s set from a nullable pointer" % lhs[1])
                if v["base"] not in (None, p.base): raise Refuse("pointer %s points into two different buffers" % lhs[1])
                v["base"] = p.base
                if p.elem != v["elem"] and False: pass
                return [self.let(v["lean"], "Nat", p.off)]
            if op == "+=":
                return [self.let(v["lean"], "Nat", "%s + %s" % (v["lean"], to_nat(self.ex(rhs))))]
            raise Refuse("pointer assignment " + op)
        if lhs[0] == "un" and lhs[1] == "*" and lhs[2][0] == "id" and self.vars.get(lhs[2][1], {}).get("kind") == "cursor":
            v = self.vars[lhs[2][1]]
            if op != "+=": raise Refuse("cursor assignment " + op)
            return [self.let(v["pos"], "Nat", "%s + %s" % (v["pos"], to_nat(self.ex(rhs))))]
        # integer targets
        if lhs[0] == "id":
            v = self.vars.get(lhs[1])
            if v is None or v["kind"] != "int": raise Refuse("assignment to " + lhs[1])
            if op == "=" and rhs[0] == "call" and rhs[1] == ("id", "va_arg"):
                ap = self.vars.get(rhs[2][0][1]) if rhs[2][0][0] == "id" else None
                if ap is None or ap["kind"] != "valist" or rhs[2][1] != ("id", "int"):
                    raise Refuse("va_arg of a type other than int")
                val = conv(E("(%s.headD 0)" % ap["lean"], I32), v["t"])
                return [self.let(v["lean"], v["t"].lean, val.text), self.let(ap["lean"], "List Int32", "%s.tail" % ap["lean"])]
            if op == "=" and rhs[0] == "call" and rhs[1][0] == "id" and rhs[1][1] in OUTPUT_CALLS:
                return self.output_call(rhs) + [self.let(v["lean"], v["t"].lean, conv(E("0", I32, 0), v["t"]).text)]
            cur = E(v["lean"], v["t"])
            val = self.rhs_value(cur, op, rhs, v["t"])
            return [self.let(v["lean"], v["t"].lean, val.text)]
        if lhs[0] == "un" and lhs[1] == "*" and lhs[2][0] == "id" and self.vars.get(lhs[2][1], {}).get("kind") == "out":
            v = self.vars[lhs[2][1]]
            if v["nullable"]:
                if lhs[2][1] not in self.guards: raise Refuse("%s may be NULL where it is stored through" % lhs[2][1])
                cur = E("(%s.getD 0)" % v["lean"], v["t"])
                val = self.rhs_value(cur, op, rhs, v["t"])
                return [self.let(v["lean"], "Option " + v["t"].lean, "some %s" % paren(val.text))]
            cur = E(v["lean"], v["t"])
            val = self.rhs_value(cur, op, rhs, v["t"])
            return [self.let(v["lean"], v["t"].lean, val.text)]
        # stores into a buffer
        if lhs[0] == "idx" or (lhs[0] == "un" and lhs[1] == "*"):
            if lhs[0] == "idx":
                p = self.pv(lhs[1]); i = to_nat(self.ex(lhs[2]))
            else:
                p = self.pv(lhs[2]); i = "0"
            bv = self.vars[p.base]
            if bv["kind"] != "buf" or not bv["writable"] or bv["nullable"]:
                raise Refuse("store into %s" % p.base)
            if op == "=":
                val = conv(self.ex(rhs), U8)           # a store keeps the low 8 bits, whatever the signedness of the element
            else:
                val = conv(self.rhs_value(self.load(p, i), op, rhs, p.elem), U8)
            return [self.let(bv["lean"], "List UInt8", "C.wr %s %s %s" % (bv["lean"], paren(self.nat_add(p.off, i)), paren(val.text)))]
        raise Refuse("assignment target")

    def rhs_value(self, cur, op, rhs, t):
        if op == "=":
            return conv(self.ex(rhs), t)
        b = self.ex(rhs)
        o = op[:-1]
        if o in ("<<", ">>"):
            pt = promote(cur.t)
            if b.const is not None and not 0 <= b.const < pt.bits: raise Refuse("shift count out of range")
            r = E("(%s %s %s)" % (conv(cur, pt).text, "<<<" if o == "<<" else ">>>", conv(b, pt).text), pt)
        else:
            ut = uac(cur.t, b.t)
            r = E("(%s %s %s)" % (conv(cur, ut).text, ARITH[o], conv(b, ut).text), ut)
        return conv(r, t)

    def lit_bytes(self, e):
        if e[0] != "str": raise Refuse("string literal expected")
        return e[1]

    def fmt_text(self, fmt, args):
        """Lean text of the bytes `ly_print_(out, fmt, args…)` appends"""
        if fmt[0] == "?:":
            if args: raise Refuse("conditional format with arguments")
            a, b = self.lit_bytes(fmt[2]), self.lit_bytes(fmt[3])
            if b"%" in a or b"%" in b: raise Refuse("conditional format with conversions")
            return "(if %s then %s else %s)" % (self.cond(fmt[1]), list(a), list(b))
        f = self.lit_bytes(fmt)
        parts, i, args = [], 0, list(args)
        lit = bytearray()
        while i < len(f):
            if f[i:i + 1] != b"%":
                lit.append(f[i]); i += 1; continue
            if f[i:i + 2] == b"%%":
                lit.append(37); i += 2; continue
            m = re.match(rb"%\.(\d)X", f[i:])
            if m:
                if not args: raise Refuse("format argument missing")
                x = self.ex(args.pop(0))
                if promote(x.t).bits != 32: raise Refuse("%X with a 64-bit argument")
                if lit: parts.append(str(list(lit))); lit = bytearray()
                parts.append("C.fmtX %d %s" % (int(m.group(1)), paren(conv(x, U32).text)))
                i += m.end(); continue
            raise Refuse("format conversion %r" % f[i:i + 6])
        if args: raise Refuse("too many format arguments")
        if lit or not parts: parts.append(str(list(lit)))
        return " ++ ".join(parts)

    def output_call(self, e):
        """`ly_print_(out, fmt, …)` / `ly_write_(out, p, n)` -> lines appending to the stream variable"""
        f, args = e[1][1], e[2]
        if not args or args[0][0] != "id" or self.vars.get(args[0][1], {}).get("kind") != "ostream":
            raise Refuse("%s: the first argument is not an output stream parameter" % f)
        o = self.vars[args[0][1]]["lean"]
        self.u.assume("%s: `%s` appends to a memory stream and returns LY_SUCCESS (I/O and allocation failures are outside the model)" % (self.name, f))
        if f == "ly_print_":
            if len(args) < 2: raise Refuse("ly_print_ without a format")
            return [self.let(o, "List UInt8", "%s ++ %s" % (o, self.fmt_text(args[1], args[2:])))]
        if len(args) != 3: raise Refuse("ly_write_ arguments")
        n = self.ex(args[2])
        if args[1][0] == "str":
            b = args[1][1]
            if n.const is None or n.const > len(b): raise Refuse("ly_write_ of a literal with a non-constant or too large length")
            return [self.let(o, "List UInt8", "%s ++ %s" % (o, list(b[:n.const])))]
        p = self.pv(args[1])
        return [self.let(o, "List UInt8", "%s ++ C.rdn %s %s %s" % (o, self.buf_text(p), paren(p.off), paren(to_nat(n))))]

    def incdec(self, target, op):
        one = ("num", 1, "", False)
        return self.assign(target, "+=" if op == "++" else "-=", one)

    def tr_expr_stmt(self, e):
        k = e[0]
        if k == "assign":
            return self.assign(e[2], e[1], e[3])
        if k == "post" or (k == "un" and e[1] in ("++", "--")):
            return self.incdec(e[2], e[1])
        if k == "comma":
            return self.tr_expr_stmt(e[1]) + self.tr_expr_stmt(e[2])
        if k == "call" and e[1][0] == "id":
            f = e[1][1]
            if f == "assert":
                self.u.assume("%s: assert(%s) holds (the translation ignores the assertion)" % (self.name, self.cond(e[2][0])))
                return []
            if f == "va_start":
                ap = self.vars.get(e[2][0][1]) if e[2][0][0] == "id" else None
                if ap is None or ap["kind"] != "valist" or "..." not in self.vars: raise Refuse("va_start")
                return [self.let(ap["lean"], "List Int32", "va")]
            if f == "va_end":
                return []
            if f in OUTPUT_CALLS:
                return self.output_call(e)
        if k == "cast" and e[1] == ["void"]:
            return []
        raise Refuse("expression statement " + k)

    def tr_stmt(self, s, k):
        kind = s[0]
        if kind == "block":
            return self.tr_list(s[1], k)
        if kind == "expr":
            e = s[1]
            if e[0] == "call" and e[1] == ("id", "LY_CHECK_RET") and len(e[2]) == 1:
                # #define LY_CHECK_RET1(RETVAL) {LY_ERR ret__ = RETVAL; if (ret__ != LY_SUCCESS) {return ret__;}}   (shape checked by the extractor)
                if e[2][0][0] != "id": raise Refuse("LY_CHECK_RET of an expression with side effects")
                self.u.uses_check_ret = True
                return self.tr_stmt(("if", ("bin", "!=", e[2][0], ("num", 0, "", False)), ("return", e[2][0]), None), k)
            return self.tr_expr_stmt(e) + k.next
        if kind == "decl":
            lines = []
            for (n, arr, init) in s[1]:
                v = self.vars[n]
                if v["kind"] == "valist":
                    lines.append(self.let(v["lean"], "List Int32", "[]"))
                elif init is None:
                    if v["kind"] == "ptr":
                        lines.append(self.let(v["lean"], "Nat", "0"))
                    else:
                        lines.append(self.let(v["lean"], v["t"].lean, "0"))
                else:
                    lines += self.assign(("id", n), "=", init)
            return lines + k.next
        if kind == "return":
            return self.mkret(s[1])
        if kind == "goto":
            if s[1] not in self.labels:
                raise Refuse("goto %s: the label does not follow in the function's top-level block" % s[1])
            saved = self.guards; self.guards = []
            try:
                return self.tr_list(self.labels[s[1]], K([FELL_OFF]), top=False)
            finally:
                self.guards = saved
        if kind == "break":
            if k.brk is None: raise Refuse("break outside a loop or switch")
            return k.brk
        if kind == "continue":
            if k.cont is None: raise Refuse("continue outside a loop")
            return k.cont
        if kind == "if":
            once = self.never_falls(s[2]) or (s[3] is not None and self.never_falls(s[3]))
            pre, nxt = ([], k.next) if once else self.maybe_join(k.next, s)
            kk = K(nxt, k.brk, k.cont)
            c = self.cond(s[1])
            g = self.nonnull_of(s[1])
            self.guards += g
            a = self.tr_stmt(s[2], kk)
            for _ in g: self.guards.pop()
            g = self.null_of(s[1])
            self.guards += g
            b = self.tr_stmt(s[3], kk) if s[3] is not None else nxt
            for _ in g: self.guards.pop()
            return pre + ["if %s then" % c] + ind(a) + ["else"] + ind(b)
        if kind == "switch":
            return self.tr_switch(s, k)
        if kind in ("for", "while"):
            return self.tr_loop(s, k)
        if kind in ("case", "default"):
            raise Refuse("case label outside a switch body")
        raise Refuse("statement " + kind)

    def tr_switch(self, s, k):
        body = s[2][1]
        pre, nxt = self.maybe_join(k.next, s)
        kk = K(nxt, nxt, k.cont)
        v = self.ex(s[1])
        t = promote(v.t)
        self.nj += 1
        sv = "sw%d" % self.nj
        lines = pre + [self.let(sv, t.lean, conv(v, t).text)]
        arms, default = [], None
        for i, st in enumerate(body):
            if st[0] == "case":
                c = self.ex(st[1])
                if c.const is None: raise Refuse("case label is not a constant")
                arms.append((conv(c, t).text, i))
            elif st[0] == "default":
                default = i
            elif self.has(st, ("case", "default"), ()) and st[0] not in ("case", "default"):
                raise Refuse("case label nested inside a statement")
        def code(i):
            return self.tr_list([x for x in body[i:] if x[0] not in ("case", "default")], kk)
        # consecutive labels share their code
        out = []
        j = 0
        while j < len(arms):
            grp = [arms[j]]
            while j + 1 < len(arms) and all(x[0] in ("case", "default") for x in body[arms[j][1]:arms[j + 1][1]]):
                j += 1; grp.append(arms[j])
            cnd = " || ".join("%s == %s" % (sv, c) for c, _ in grp)
            out.append(("if (%s) then" % cnd if not out else "else if (%s) then" % cnd, code(grp[0][1])))
            j += 1
        dflt = code(default) if default is not None else nxt
        if not out:
            return lines + dflt
        for h, c in out:
            lines += [h] + ind(c)
        lines += ["else"] + ind(dflt)
        return lines

    # -- loops -------------------------------------------------------------------------------------
    def tr_loop(self, s, k):
        if s[0] == "for":
            init, cond, step, body = s[1], s[2], s[3], s[4]
        else:
            init, cond, step, body = None, s[1], None, s[2]
        n = self.const_trip(init, cond, step, body)
        if n is not None and n <= UNROLL_MAX:
            return self.unroll(init, step, body, n, k, s)
        return self.fuel_loop(init, cond, step, body, k, s)

    def _counter_init(self, init):
        """`i = c` / `T i = c` -> (name, const expr ast)"""
        if init is None: return None
        if init[0] == "decl" and len(init[1]) == 1 and init[1][0][2] is not None:
            return init[1][0][0], init[1][0][2]
        if init[0] == "expr" and init[1][0] == "assign" and init[1][1] == "=" and init[1][2][0] == "id":
            if init[1][3][0] == "assign" and init[1][3][1] == "=" and init[1][3][2][0] == "id":
                return init[1][3][2][1], init[1][3][3]                                 # for (a = i = c; …): the counter is i
            return init[1][2][1], init[1][3]
        return None

    def _step_delta(self, step, name):
        """`i++`, `++i`, `i--`, `--i`, `i += c`, `i -= c` -> signed constant delta, else None"""
        if step is None: return None
        if step[0] == "post" and step[2] == ("id", name): return 1 if step[1] == "++" else -1
        if step[0] == "un" and step[1] in ("++", "--") and step[2] == ("id", name): return 1 if step[1] == "++" else -1
        if step[0] == "assign" and step[1] in ("+=", "-=") and step[2] == ("id", name):
            try:
                c = self.ex(step[3]).const
            except Refuse:
                return None
            if c is None: return None
            return c if step[1] == "+=" else -c
        return None

    def const_trip(self, init, cond, step, body):
        """number of iterations if the header determines it as a constant (<= 64), else None"""
        ci = self._counter_init(init)
        if ci is None or cond is None: return None
        name, c0 = ci
        v = self.vars.get(name)
        if v is None or v["kind"] != "int": return None
        try:
            i0 = self.ex(c0).const
        except Refuse:
            return None
        d = self._step_delta(step, name)
        if i0 is None or d is None or d == 0: return None
        if cond[0] != "bin" or cond[1] not in ("<", "<=", ">", ">=", "!=") or cond[2] != ("id", name): return None
        try:
            lim = self.ex(cond[3]).const
        except Refuse:
            return None
        if lim is None: return None
        if v["lean"] in self.assigned(body): return None
        t = v["t"]
        i, n = t.wrap(i0), 0
        test = {"<": lambda a, b: a < b, "<=": lambda a, b: a <= b, ">": lambda a, b: a > b, ">=": lambda a, b: a >= b,
                "!=": lambda a, b: a != b}[cond[1]]
        while test(i, lim):
            n += 1
            if n > 64: return None
            if not t.lo <= i + d <= t.hi: return None
            i += d
        return n

    def unroll(self, init, step, body, n, k, whole):
        pre, after = self.maybe_join(k.next, whole)
        cur = after
        for _ in range(n):
            stp = self.tr_expr_stmt(step)
            nxt = stp + cur
            p2, nxt2 = ([], nxt)
            if self.has(body, ("continue",), ("for", "while")) or self.multi_fall(body):
                p2, nxt2 = self.maybe_join(nxt, [body, ("expr", step)])
            cur = p2 + self.tr_stmt(body, K(nxt2, after, nxt2))
        head = self.tr_stmt(init, K([])) if init is not None else []
        return pre + head + cur

    def multi_fall(self, s):
        """may the statement reach its end along more than one path?"""
        if s[0] == "block": return any(self.multi_fall(x) for x in s[1])
        if s[0] == "if":
            if self.never_falls(s[2]): return s[3] is not None and self.multi_fall(s[3])
            if s[3] is not None and self.never_falls(s[3]): return self.multi_fall(s[2])
            return True
        return s[0] in ("switch", "for", "while")

    def fuel_text(self, init, cond, step, body):
        """Lean `Nat` text (evaluated at loop entry) of a number of iterations after which the condition is false"""
        conj = []
        def split(e):
            if e[0] == "bin" and e[1] == "&&": split(e[2]); split(e[3])
            else: conj.append(e)
        if cond is None: raise Refuse("loop without a condition")
        split(cond)
        changed = self.assigned(body) | (self.assigned(("expr", step)) if step is not None else set())
        body_list = body[1] if body[0] == "block" else [body]
        has_continue = self.has(body, ("continue",), ("for", "while"))

        def updates(name):
            """the single top-level update of integer/pointer variable `name` per iteration, as an expression ast"""
            found = []
            if step is not None:
                parts = []
                def cs(e):
                    if e[0] == "comma": cs(e[1]); cs(e[2])
                    else: parts.append(e)
                cs(step)
                found += [p for p in parts if self._targets(p, name)]
            for st in body_list:
                if st[0] == "expr" and self._targets(st[1], name):
                    if has_continue: return None
                    found.append(st[1])
                elif self.vars[name]["lean"] in self.assigned(st):
                    return None
            return found[0] if len(found) == 1 else None

        def invariant(e):
            return not (idents([self.ex(e).text]) & changed)

        for c in conj:
            # P1: i < n, i <= n, i != n with i += 1
            if c[0] == "bin" and c[1] in ("<", "<=", "!=") and c[2][0] == "id" and self.vars.get(c[2][1], {}).get("kind") == "int":
                name = c[2][1]
                u = updates(name)
                if u is not None and self._step_delta(u, name) == 1 and invariant(c[3]):
                    a, b = self.ex(c[2]), self.ex(c[3])
                    t = uac(a.t, b.t)
                    if self.vars[name]["t"].bits < t.bits or c[1] == "!=":
                        self.u.assume("%s: the loop counter `%s` reaches its bound without wrapping around" % (self.name, name))
                    A, B = conv(a, t), conv(b, t)
                    if t.signed:
                        txt = "(%s.toInt - %s.toInt).toNat" % (paren(B.text), paren(A.text))
                    else:
                        txt = "%s - %s" % (to_nat(B), to_nat(A))
                    return txt + (" + 1" if c[1] == "<=" else "")
            # P2: *p / p[i] as a truth value, the position advancing by at least one
            r = c
            if r[0] == "bin" and r[1] == "!=" and self._is_zero(r[3]): r = r[2]
            if (r[0] == "un" and r[1] == "*") or r[0] == "idx":
                pe, ie = (r[2], None) if r[0] == "un" else (r[1], r[2])
                try:
                    p = self.pv(pe)
                except Refuse:
                    p = None
                if p is not None and not p.null and p.base not in {v["lean"] for v in self.vars.values() if v.get("writable")} | set():
                    mover = None
                    if ie is not None and ie[0] == "id" and self.vars.get(ie[1], {}).get("kind") == "int":
                        mover = ie[1]
                    elif ie is None and pe[0] == "id" and self.vars.get(pe[1], {}).get("kind") == "ptr":
                        mover = pe[1]
                    if mover is not None:
                        u = updates(mover)
                        if u is not None and self._advances(u, mover):
                            pos = p.off if ie is None else self.nat_add(p.off, to_nat(self.ex(ie)))
                            return "%s.length - %s" % (paren(self.buf_text(p)), paren(pos))
            # P3: n > 0 / n != 0 / n with n -= 1
            r = c
            if r[0] == "bin" and r[1] in ("!=", ">") and self._is_zero(r[3]): r = r[2]
            if r[0] == "id" and self.vars.get(r[1], {}).get("kind") == "int":
                name = r[1]
                u = updates(name)
                t = self.vars[name]["t"]
                if u is not None and self._step_delta(u, name) == -1 and (not t.signed or c[0] == "bin" and c[1] == ">"):
                    return to_nat(self.ex(r))
                # P4: x >>= c, x /= c on an unsigned x
                if u is not None and u[0] == "assign" and u[1] in (">>=", "/=") and not t.signed:
                    cc = self.ex(u[3]).const
                    if cc is not None and ((u[1] == ">>=" and 1 <= cc < t.bits) or (u[1] == "/=" and cc >= 2)):
                        return str(t.bits)
        raise Refuse("loop bound not recognised")

    def _is_zero(self, e):
        try:
            return self.ex(e).const == 0
        except Refuse:
            return False

    def _targets(self, e, name):
        if e[0] in ("post",) and e[2] == ("id", name): return True
        if e[0] == "un" and e[1] in ("++", "--") and e[2] == ("id", name): return True
        if e[0] == "assign" and e[2] == ("id", name): return True
        return False

    def _advances(self, u, name):
        """update `u` moves index/pointer `name` forward by >= 1"""
        if self._step_delta(u, name) is not None:
            return self._step_delta(u, name) >= 1
        if u[0] == "assign" and u[1] == "+=":
            r = u[3]
            if r[0] == "idx" and r[1][0] == "id" and r[1][1] in self.u.tables:
                ln, t, vals = self.u.tables[r[1][1]]
                idx = self.ex(r[2])
                # every entry that can be selected is >= 1 (index type covers at most the table, or all entries are)
                if min(vals) >= 1 and (1 << idx.t.bits if not idx.t.signed else 1 << 62) <= len(vals):
                    return True
        return False

    def fuel_loop(self, init, cond, step, body, k, whole):
        head = self.tr_stmt(init, K([])) if init is not None else []
        fuel = self.fuel_text(init, cond, step, body)
        sv = self.state_vars()
        av = self.all_vars()
        changed = sorted(v for v in (self.assigned(body) | (self.assigned(("expr", step)) if step is not None else set())) if v in sv)
        # variables declared inside the body are not loop state
        inner = set()
        def decls(x):
            if x[0] == "decl": inner.update(self.vars[n]["lean"] for n, _, _ in x[1])
            elif x[0] == "block":
                for y in x[1]: decls(y)
            elif x[0] == "if":
                decls(x[2]); x[3] is not None and decls(x[3])
            elif x[0] in ("for", "while"): decls(x[4] if x[0] == "for" else x[2])
        decls(body)
        state = [v for v in changed if v not in inner]
        self.nl += 1
        ln = "%s.loop%d" % (self.lean, self.nl)
        st_tuple = "(" + ", ".join(state) + ")" if len(state) != 1 else state[0]
        st_type = " × ".join(sv[v] for v in state) if state else "Unit"
        if not state: st_tuple = "()"
        rtype = self.result_type()
        # body of the loop function
        self.wrap.append(lambda t: ".ret %s" % paren(t))
        g = self.nonnull_of(cond)
        self.guards += g
        try:
            REC = "%s__REC" % ln.replace(".", "_")
            stp = self.tr_expr_stmt(step) if step is not None else []
            again = stp + [REC]
            exit_ = [".next %s" % st_tuple]
            pre, again2 = self.maybe_join(again, [body] + ([("expr", step)] if step is not None else []))
            b = pre + self.tr_stmt(body, K(again2, exit_, again2))
            c = self.cond(cond)
        finally:
            self.wrap.pop()
            for _ in g: self.guards.pop()
        text = ["if %s then" % c] + ind(b) + ["else"] + ind(exit_)
        used = idents(text)
        ro = [v for v in av if v in used and v not in state and v not in inner]
        ro.sort()
        call = lambda f: "%s %s" % (ln, " ".join(ro + [f] + state))
        text = [l.replace(REC, call("fuel")) for l in text]
        sig = " ".join("(%s : %s)" % (v, av[v]) for v in ro)
        lines = ["def %s %s : Nat → %sC.Flow %s (%s)" % (ln, sig, "".join(sv[v] + " → " for v in state), paren(rtype), st_type)]
        lines.append("  | 0, %s => .next %s" % (", ".join(state), st_tuple) if state else "  | 0 => .next ()")
        lines.append("  | fuel + 1, %s =>" % ", ".join(state) if state else "  | fuel + 1 =>")
        lines += ind(text, 4)
        self.aux.append("\n".join(lines))
        # call site
        self.nj += 1
        out = head + ["match %s with" % call(paren(fuel)), "| .ret r%d => %s" % (self.nj, self.rewrap("r%d" % self.nj)),
                      "| .next %s =>" % st_tuple] + ind(k.next)
        return out

    def rewrap(self, t):
        for w in reversed(self.wrap):
            t = w(t)
        return t

    def result_type(self):
        outs = self.outs()
        if not outs:
            return self.rett.lean if self.rett is not None else "Unit"
        return "%s.R" % self.lean

    # -- whole function ----------------------------------------------------------------------------
    def translate(self):
        self.bind_pointers(self.ast)
        self.stored = self.assigned(self.ast)       # buffers the function stores into are part of its result
        end = self.mkret(None) if self.rett is None else [FELL_OFF]
        body = self.tr_list(self.ast[1], K(end), top=True)
        outs = self.outs()
        text = []
        if outs:
            fields = ([("ret", self.rett.lean)] if self.rett is not None else []) + [(f, ty) for f, _, ty in outs]
            text.append("structure %s.R where\n%s\n  deriving DecidableEq, Repr\n" % (self.lean, "\n".join("  %s : %s" % f for f in fields)))
        ps = []
        sigparams = []
        for n, kind in self.params:
            if kind == "va":
                ps.append("(va : List Int32)"); sigparams.append((n, "va", None)); continue
            v = self.vars[n]
            if kind == "cursor":
                ps.append("(%s : List UInt8)" % v["lean"]); sigparams.append((n, kind, v))
            else:
                ps.append("(%s : %s)" % (v["lean"], self.lean_type(n)))
                sigparams.append((n, kind, v["t"] if kind == "int" else v))
        pre = []
        for n, kind in self.params:
            if kind == "cursor":
                pre.append("let %s : Nat := 0" % self.vars[n]["pos"])
        for a in self.aux:
            text.append(a + "\n")
        text.append("def %s %s : %s :=" % (self.lean, " ".join(ps), self.result_type()))
        text += ind(pre + body)
        full = "\n".join(text)
        if FELL_OFF in full:
            raise Refuse("%s: control can reach the end of a non-void function" % self.name)
        self.u.funcs[self.name] = Sig(self.name, self.lean, sigparams, self.rett, outs)
        self.u.defs.append("/-! ### `%s` (%s) -/\n%s\n" % (self.name, os.path.basename(self.path), full))
        return full


def translate_table(unit, path, name):
    t, vals = const_table(path, name)
    unit.tables[name] = (name, t, vals)
    rows = []
    for i in range(0, len(vals), 16):
        rows.append("  " + ", ".join(str(v) for v in vals[i:i + 16]))
    unit.defs.append("/-- `%s[]` (%s) -/\ndef %s : Array %s := #[\n%s]\n" % (name, os.path.basename(path), name, t.lean, ",\n".join(rows)))
