#!/usr/bin/env python3
"""usage: tools/manifest_edit.py Cxx [--text-add S] [--note-add S] [--tech-add S] [--text-sub OLD NEW] [--note-sub OLD NEW]
edits the entry of one property in MANIFEST.json (the assurance text lives there, DESIGN §11.1)"""
import json, sys
p = "/verif/MANIFEST.json"
m = json.load(open(p))
a = sys.argv[1:]
c = [x for x in m["checks"] if x.get("property_id", x.get("id")) == a[0]][0]
i = 1
while i < len(a):
    k = a[i]
    if k == "--text-add": c["level_claimed"]["text"] = c["level_claimed"]["text"].rstrip() + " " + a[i + 1]; i += 2
    elif k == "--note-add": c["level_note"] = c["level_note"].rstrip() + "; " + a[i + 1]; i += 2
    elif k == "--tech-add": c["technique"] = c["technique"].rstrip() + " + " + a[i + 1]; i += 2
    elif k in ("--text-sub", "--note-sub"):
        tgt = c["level_claimed"] if k == "--text-sub" else c
        key = "text" if k == "--text-sub" else "level_note"
        assert a[i + 1] in tgt[key], "not found: " + a[i + 1]
        tgt[key] = tgt[key].replace(a[i + 1], a[i + 2]); i += 3
    else:
        raise SystemExit("unknown option " + k)
json.dump(m, open(p, "w"), indent=1)
