#!/usr/bin/env python3
"""usage: tools/manifest_add.py Cxx "<level text>" "<level note>" "<technique>"  — add/replace a check entry"""
import json, sys
pid, text, note, tech = sys.argv[1:5]
p = "/verif/MANIFEST.json"
m = json.load(open(p))
m["checks"] = [c for c in m["checks"] if c["property_id"] != pid]
m["checks"].append({
    "property_id": pid,
    "quick_cmd": "python3 tools/vcheck.py %s --tier quick" % pid,
    "thorough_cmd": "python3 tools/vcheck.py %s --tier thorough" % pid,
    "evidence_file": "evidence/%s.json" % pid,
    "replay_cmd_template": "python3 tools/vcheck.py %s --replay {path}" % pid,
    "engine": "lean-model",
    "level_claimed": {"category": "proof", "text": text, "design_ref": "DESIGN.md §5 %s, §10" % pid},
    "level_note": note,
    "technique": tech})
m["checks"].sort(key=lambda c: c["property_id"])
m["not_applicable"] = [x for x in m.get("not_applicable", []) if x["property_id"] != pid]
claimed = sorted(c["property_id"] for c in m["checks"])
for e in m["engines"]:
    e["serves_properties"] = claimed
json.dump(m, open(p, "w"), indent=1)
print("claimed:", claimed)
