#!/usr/bin/env python3
"""usage: tools/merge_findings.py <comp> [Fid=sha ...]  — move findings.d/<comp>.json into known_findings.json"""
import json, os, sys
comp = sys.argv[1]
shas = dict(a.split("=") for a in sys.argv[2:])
p = "/verif/known_findings.json"
d = json.load(open(p))
have = {f["id"]: f for f in d["findings"]}
x = json.load(open("/verif/findings.d/%s.json" % comp))
for f in x["findings"]:
    if f["id"] in shas:
        f["status"] = "fixed"; f["commit"] = shas[f["id"]]
    if f["id"] in have:
        g = have[f["id"]]
        g["property"] = sorted(set(g["property"]) | set(f["property"]))
        print("merged properties into existing", f["id"], g["status"])
        continue
    d["findings"].append(f)
    print("added", f["id"], f["status"], f["property"])
json.dump(d, open(p, "w"), indent=1)
os.unlink("/verif/findings.d/%s.json" % comp)
