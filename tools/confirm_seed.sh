#!/bin/bash
# usage: tools/confirm_seed.sh <ID> [<seed-dir>]   — independent confirmation of a seeded regression (run by the integrator)
# 1. patch applies to /repo HEAD  2. patched tree builds  3. full suite passes  4. demo fails with the patch  5. demo passes without it
set -u
ID=$1; SD=${2:-/tmp/seed/$ID/_seed}
W=/tmp/seedchk/$ID; B=/tmp/seedchk/$ID-build; LOG=/tmp/seedchk/$ID.log
rm -rf "$B"; git -C /repo worktree remove --force "$W" 2>/dev/null; mkdir -p /tmp/seedchk
exec >"$LOG" 2>&1
git -C /repo worktree add -q --detach "$W" HEAD || { echo "RESULT worktree-failed"; exit 1; }
git -C "$W" apply "$SD/patch.diff" || { echo "RESULT patch-does-not-apply"; exit 1; }
cmake -S "$W" -B "$B" -G Ninja -DCMAKE_BUILD_TYPE=RelWithDebInfo -DENABLE_TESTS=ON >/dev/null && cmake --build "$B" -j8 2>&1 | tail -2 || { echo "RESULT build-failed"; exit 1; }
ctest --test-dir "$B" -j8 --timeout 900 -E ly_perf 2>&1 | tail -6
ctest --test-dir "$B" -j8 --timeout 900 -E ly_perf 2>&1 | grep -q "100% tests passed" && echo "SUITE pass" || echo "SUITE FAIL"
mkdir -p "$W/_seed"; cp -r "$SD"/* "$W/_seed/"
( cd "$W/_seed" && bash ./run.sh "$B" ) >/tmp/seedchk/$ID.demo-patched.out 2>&1; echo "DEMO patched exit=$?"
( cd "$W/_seed" && bash ./run.sh /repo/_build ) >/tmp/seedchk/$ID.demo-base.out 2>&1; echo "DEMO base exit=$?"
tail -3 /tmp/seedchk/$ID.demo-patched.out; tail -2 /tmp/seedchk/$ID.demo-base.out
rm -rf "$B"; git -C /repo worktree remove --force "$W"
echo "RESULT done"
