"""A deliberately small C-subset interpreter used by the translator (tools/extract.py).

It executes the *source text* of leaf functions / loop bodies that are pure byte or integer code:
integer locals, byte-array reads `p[i]`, `&p[i]` as an opaque (buffer, index) pointer, if/else,
switch with fall-through, for/while/do, break/continue/return, goto to a label further down,
the usual operators, character/string/integer literals, casts, sizeof of basic types, and calls to
functions supplied by the caller (e.g. `ly_print_`, `ly_write_`, `iscntrl`).  Anything outside that
subset raises `Unsupported`, in which case the translator refuses and says so (DESIGN.md §2.2).
"""
import re


class Unsupported(Exception):
    pass


TOK = re.compile(r"""
    (?P<ws>\s+|/\*.*?\*/|//[^\n]*)
  | (?P<num>0[xX][0-9a-fA-F]+[uUlL]*|\d+[uUlL]*)
  | (?P<chr>'(?:\\.[0-7]{0,2}|[^'\\])')
  | (?P<str>"(?:\\.|[^"\\])*")
  | (?P<id>[A-Za-z_]\w*)
  | (?P<op><<=|>>=|\+\+|--|->|<<|>>|<=|>=|==|!=|&&|\|\||\+=|-=|\*=|/=|%=|&=|\|=|\^=|[-+*/%&|^~!<>=?:;,.(){}\[\]])
""", re.S | re.X)

TYPEWORDS = {"const", "unsigned", "signed", "char", "short", "int", "long", "size_t", "ssize_t", "uint8_t", "uint16_t",
             "uint32_t", "uint64_t", "int8_t", "int16_t", "int32_t", "int64_t", "ly_bool", "LY_ERR", "static", "register",
             "void", "struct", "enum", "volatile"}
ESC = {"n": 10, "t": 9, "r": 13, "0": 0, "\\": 92, "'": 39, '"': 34, "a": 7, "b": 8, "f": 12, "v": 11, "?": 63}


def tokenize(src):
    out, i = [], 0
    while i < len(src):
        m = TOK.match(src, i)
        if not m:
            raise Unsupported("cannot tokenize at: " + src[i:i + 30])
        i = m.end()
        k = m.lastgroup
        if k == "ws":
            continue
        out.append((k, m.group(k)))
    return out


def unescape(body):
    res, i = [], 0
    b = body.encode("latin-1", "replace") if isinstance(body, str) else body
    s = body
    while i < len(s):
        c = s[i]
        if c == "\\":
            i += 1
            c = s[i]
            if c == "x":
                j = i + 1
                while j < len(s) and s[j] in "0123456789abcdefABCDEF": j += 1
                res.append(int(s[i + 1:j], 16) & 0xFF); i = j; continue
            if c in "01234567":
                j = i
                while j < len(s) and j < i + 3 and s[j] in "01234567": j += 1
                res.append(int(s[i:j], 8) & 0xFF); i = j; continue
            if c not in ESC:
                raise Unsupported("escape \\" + c)
            res.append(ESC[c]); i += 1; continue
        res.extend(c.encode("utf-8")); i += 1
    return bytes(res)


# ------------------------------------------------------------------------------------------ parser
class P:
    def __init__(self, toks):
        self.t, self.i = toks, 0

    def peek(self, k=0):
        return self.t[self.i + k] if self.i + k < len(self.t) else ("eof", "")

    def next(self):
        x = self.peek(); self.i += 1; return x

    def accept(self, v):
        if self.peek()[1] == v and self.peek()[0] in ("op", "id"):
            self.i += 1; return True
        return False

    def expect(self, v):
        if not self.accept(v):
            raise Unsupported("expected %r, got %r" % (v, self.peek()))

    # statements
    def block(self):
        self.expect("{")
        ss = []
        while not self.accept("}"):
            ss.append(self.stmt())
        return ("block", ss)

    def is_decl(self):
        k, v = self.peek()
        return k == "id" and v in TYPEWORDS

    def decl(self):
        while self.peek()[0] == "id" and self.peek()[1] in TYPEWORDS:
            if self.next()[1] in ("struct", "enum"):
                self.next()
        ds = []
        while True:
            while self.accept("*") or self.accept("const"):
                pass
            name = self.next()
            if name[0] != "id":
                raise Unsupported("declarator " + repr(name))
            arr = None
            if self.accept("["):
                arr = self.expr() if self.peek()[1] != "]" else None
                self.expect("]")
            init = None
            if self.accept("="):
                init = self.assign()
            ds.append((name[1], arr, init))
            if not self.accept(","):
                break
        self.expect(";")
        return ("decl", ds)

    def stmt(self):
        k, v = self.peek()
        if v == "{" and k == "op":
            return self.block()
        if k == "id":
            if v == "if":
                self.next(); self.expect("("); c = self.expr(); self.expect(")")
                a = self.stmt(); b = None
                if self.accept("else"):
                    b = self.stmt()
                return ("if", c, a, b)
            if v == "switch":
                self.next(); self.expect("("); c = self.expr(); self.expect(")")
                return ("switch", c, self.block())
            if v == "case":
                self.next(); c = self.ternary(); self.expect(":")
                return ("case", c)
            if v == "default":
                self.next(); self.expect(":")
                return ("default",)
            if v == "break":
                self.next(); self.expect(";"); return ("break",)
            if v == "continue":
                self.next(); self.expect(";"); return ("continue",)
            if v == "return":
                self.next()
                e = None if self.peek()[1] == ";" else self.expr()
                self.expect(";"); return ("return", e)
            if v == "goto":
                self.next(); l = self.next()[1]; self.expect(";"); return ("goto", l)
            if v == "for":
                self.next(); self.expect("(")
                if self.is_decl():
                    init = self.decl()
                else:
                    init = None if self.peek()[1] == ";" else ("expr", self.expr()); self.expect(";")
                cond = None if self.peek()[1] == ";" else self.expr(); self.expect(";")
                step = None if self.peek()[1] == ")" else self.expr(); self.expect(")")
                return ("for", init, cond, step, self.stmt())
            if v == "while":
                self.next(); self.expect("("); c = self.expr(); self.expect(")")
                return ("while", c, self.stmt())
            if v == "do":
                self.next(); b = self.stmt(); self.expect("while"); self.expect("("); c = self.expr(); self.expect(")"); self.expect(";")
                return ("do", b, c)
            if self.is_decl():
                return self.decl()
            if self.peek(1) == ("op", ":") and self.peek(2)[1] != ":":
                self.next(); self.next(); return ("label", v)
        if v == ";" and k == "op":
            self.next(); return ("block", [])
        e = self.expr(); self.expect(";")
        return ("expr", e)

    # expressions
    def expr(self):
        e = self.assign()
        while self.accept(","):
            e = ("comma", e, self.assign())
        return e

    def assign(self):
        l = self.ternary()
        k, v = self.peek()
        if k == "op" and v in ("=", "+=", "-=", "*=", "/=", "%=", "&=", "|=", "^=", "<<=", ">>="):
            self.next()
            return ("assign", v, l, self.assign())
        return l

    def ternary(self):
        c = self.binary(0)
        if self.accept("?"):
            a = self.expr(); self.expect(":"); b = self.ternary()
            return ("?:", c, a, b)
        return c

    LEVELS = [["||"], ["&&"], ["|"], ["^"], ["&"], ["==", "!="], ["<", ">", "<=", ">="], ["<<", ">>"], ["+", "-"], ["*", "/", "%"]]

    def binary(self, lv):
        if lv == len(self.LEVELS):
            return self.unary()
        l = self.binary(lv + 1)
        while self.peek()[0] == "op" and self.peek()[1] in self.LEVELS[lv]:
            op = self.next()[1]
            l = ("bin", op, l, self.binary(lv + 1))
        return l

    def unary(self):
        k, v = self.peek()
        if k == "op" and v in ("!", "~", "-", "+", "&", "*", "++", "--"):
            self.next()
            return ("un", v, self.unary())
        if k == "id" and v == "sizeof":
            self.next(); self.expect("(")
            ws = []
            while not self.accept(")"):
                ws.append(self.next()[1])
            return ("sizeof", ws)
        if k == "op" and v == "(" and self.peek(1)[0] == "id" and self.peek(1)[1] in TYPEWORDS:
            self.next(); ws = []
            while not self.accept(")"):
                ws.append(self.next()[1])
            return ("cast", ws, self.unary())
        return self.postfix()

    def postfix(self):
        k, v = self.next()
        if k == "num":
            e = ("num", int(re.sub(r"[uUlL]+$", "", v), 0))
        elif k == "chr":
            e = ("num", unescape(v[1:-1])[0])
        elif k == "str":
            b = unescape(v[1:-1])
            while self.peek()[0] == "str":
                b += unescape(self.next()[1][1:-1])
            e = ("str", b)
        elif k == "id":
            e = ("id", v)
        elif v == "(":
            e = self.expr(); self.expect(")")
        else:
            raise Unsupported("primary " + repr((k, v)))
        while True:
            if self.accept("["):
                i = self.expr(); self.expect("]"); e = ("idx", e, i)
            elif self.accept("("):
                args = []
                if not self.accept(")"):
                    args.append(self.assign())
                    while self.accept(","):
                        args.append(self.assign())
                    self.expect(")")
                e = ("call", e, args)
            elif self.peek() == ("op", "++") or self.peek() == ("op", "--"):
                e = ("post", self.next()[1], e)
            elif self.accept("->") or self.accept("."):
                e = ("member", e, self.next()[1])
            else:
                return e


def parse_block(src):
    p = P(tokenize(src))
    b = p.block()
    return b


def parse_stmts(src):
    return parse_block("{" + src + "}")


# ------------------------------------------------------------------------------------- interpreter
class Break(Exception): pass
class Continue(Exception): pass
class Return(Exception):
    def __init__(self, v): self.v = v
class Goto(Exception):
    def __init__(self, l): self.l = l


class Ptr:
    __slots__ = ("buf", "off")
    def __init__(self, buf, off=0): self.buf, self.off = buf, off
    def __repr__(self): return "Ptr(%r,%d)" % (bytes(self.buf)[:20], self.off)


SIZES = {"char": 1, "uint8_t": 1, "int8_t": 1, "short": 2, "uint16_t": 2, "int16_t": 2, "int": 4, "uint32_t": 4, "int32_t": 4,
         "long": 8, "uint64_t": 8, "int64_t": 8, "size_t": 8, "ssize_t": 8, "ly_bool": 1}


class Interp:
    def __init__(self, env=None, funcs=None, consts=None, fuel=200000):
        self.env = dict(env or {})
        self.funcs = funcs if funcs is not None else {}
        self.consts = consts if consts is not None else {}
        self.fuel = fuel

    def tick(self):
        self.fuel -= 1
        if self.fuel < 0:
            raise Unsupported("out of fuel")

    def run(self, node):
        try:
            self.exec(node)
        except Return as r:
            return r.v
        return None

    def exec_list(self, ss, start=0):
        i = start
        while i < len(ss):
            try:
                self.exec(ss[i])
            except Goto as g:
                for j in range(len(ss)):
                    if ss[j] == ("label", g.l):
                        i = j
                        break
                else:
                    raise
            i += 1

    def exec(self, s):
        self.tick()
        k = s[0]
        if k == "block":
            self.exec_list(s[1])
        elif k == "expr":
            self.ev(s[1])
        elif k == "decl":
            for name, arr, init in s[1]:
                if arr is not None:
                    self.env[name] = Ptr(bytearray(self.ev(arr)))
                else:
                    self.env[name] = self.ev(init) if init is not None else 0
        elif k == "if":
            if self.truth(self.ev(s[1])):
                self.exec(s[2])
            elif s[3] is not None:
                self.exec(s[3])
        elif k == "switch":
            v = self.ev(s[1])
            body = s[2][1]
            start = None
            for i, st in enumerate(body):
                if st[0] == "case" and self.ev(st[1]) == v:
                    start = i; break
            if start is None:
                for i, st in enumerate(body):
                    if st[0] == "default":
                        start = i; break
            if start is not None:
                try:
                    self.exec_list(body, start)
                except Break:
                    pass
        elif k in ("case", "default", "label"):
            pass
        elif k == "break":
            raise Break()
        elif k == "continue":
            raise Continue()
        elif k == "return":
            raise Return(self.ev(s[1]) if s[1] is not None else None)
        elif k == "goto":
            raise Goto(s[1])
        elif k == "for":
            if s[1] is not None:
                self.exec(s[1])
            while s[2] is None or self.truth(self.ev(s[2])):
                self.tick()
                try:
                    self.exec(s[4])
                except Break:
                    break
                except Continue:
                    pass
                if s[3] is not None:
                    self.ev(s[3])
        elif k == "while":
            while self.truth(self.ev(s[1])):
                self.tick()
                try:
                    self.exec(s[2])
                except Break:
                    break
                except Continue:
                    pass
        elif k == "do":
            while True:
                self.tick()
                try:
                    self.exec(s[1])
                except Break:
                    break
                except Continue:
                    pass
                if not self.truth(self.ev(s[2])):
                    break
        else:
            raise Unsupported("statement " + k)

    def truth(self, v):
        if isinstance(v, Ptr):
            return True
        return bool(v)

    def load(self, p):
        if not isinstance(p, Ptr):
            raise Unsupported("deref of non-pointer")
        if p.off < 0 or p.off > len(p.buf):
            raise Unsupported("out-of-bounds read at %d" % p.off)
        return 0 if p.off == len(p.buf) else p.buf[p.off]   # buffers are NUL-terminated

    def lval_set(self, e, v):
        if e[0] == "id":
            if e[1] not in self.env:
                raise Unsupported("assignment to unknown " + e[1])
            self.env[e[1]] = v
        elif e[0] == "idx" or (e[0] == "un" and e[1] == "*"):
            p = self.addr(e)
            if not isinstance(p.buf, bytearray) or p.off >= len(p.buf):
                raise Unsupported("write outside local buffer")
            p.buf[p.off] = v & 0xFF
        else:
            raise Unsupported("lvalue " + e[0])

    def addr(self, e):
        if e[0] == "idx":
            b = self.ev(e[1]); i = self.ev(e[2])
            if not isinstance(b, Ptr): raise Unsupported("index of non-pointer")
            return Ptr(b.buf, b.off + i)
        if e[0] == "un" and e[1] == "*":
            return self.ev(e[2])
        raise Unsupported("address of " + e[0])

    def ev(self, e):
        self.tick()
        k = e[0]
        if k == "num":
            return e[1]
        if k == "str":
            return Ptr(e[1])
        if k == "id":
            if e[1] in self.env: return self.env[e[1]]
            if e[1] in self.consts: return self.consts[e[1]]
            raise Unsupported("unknown identifier " + e[1])
        if k == "idx":
            return self.load(self.addr(e))
        if k == "call":
            if e[1][0] != "id" or e[1][1] not in self.funcs:
                raise Unsupported("call to " + repr(e[1]))
            return self.funcs[e[1][1]](*[self.ev(a) for a in e[2]])
        if k == "assign":
            r = self.ev(e[3])
            if e[1] != "=":
                l = self.ev(e[2])
                r = self.binop(e[1][:-1], l, r)
            self.lval_set(e[2], r)
            return r
        if k == "post":
            v = self.ev(e[2])
            self.lval_set(e[2], self.binop("+" if e[1] == "++" else "-", v, 1))
            return v
        if k == "un":
            if e[1] == "&":
                return self.addr(e[2])
            if e[1] == "*":
                return self.load(self.ev(e[2]))
            if e[1] in ("++", "--"):
                v = self.binop("+" if e[1] == "++" else "-", self.ev(e[2]), 1)
                self.lval_set(e[2], v)
                return v
            v = self.ev(e[2])
            if e[1] == "!": return 0 if self.truth(v) else 1
            if e[1] == "-": return -v
            if e[1] == "+": return v
            if e[1] == "~": return ~v
        if k == "bin":
            if e[1] == "&&":
                return 1 if self.truth(self.ev(e[2])) and self.truth(self.ev(e[3])) else 0
            if e[1] == "||":
                return 1 if self.truth(self.ev(e[2])) or self.truth(self.ev(e[3])) else 0
            return self.binop(e[1], self.ev(e[2]), self.ev(e[3]))
        if k == "?:":
            return self.ev(e[2]) if self.truth(self.ev(e[1])) else self.ev(e[3])
        if k == "comma":
            self.ev(e[1]); return self.ev(e[2])
        if k == "cast":
            v = self.ev(e[2])
            ws = [w for w in e[1] if w != "const"]
            if "*" in ws or isinstance(v, Ptr):
                return v
            base = [w for w in ws if w in SIZES]
            size = SIZES[base[-1]] if base else 4
            unsigned = "unsigned" in ws or any(w.startswith("uint") or w == "size_t" for w in ws)
            v &= (1 << (8 * size)) - 1
            if not unsigned and v >= 1 << (8 * size - 1):
                v -= 1 << (8 * size)
            return v
        if k == "sizeof":
            base = [w for w in e[1] if w in SIZES]
            if "*" in e[1]: return 8
            if not base: raise Unsupported("sizeof " + " ".join(e[1]))
            return SIZES[base[-1]]
        raise Unsupported("expression " + k)

    def binop(self, op, a, b):
        if isinstance(a, Ptr) or isinstance(b, Ptr):
            if op == "+" and isinstance(a, Ptr) and not isinstance(b, Ptr): return Ptr(a.buf, a.off + b)
            if op == "-" and isinstance(a, Ptr) and not isinstance(b, Ptr): return Ptr(a.buf, a.off - b)
            if op == "-" and isinstance(a, Ptr) and isinstance(b, Ptr) and a.buf is b.buf: return a.off - b.off
            if op in ("==", "!=") and isinstance(a, Ptr) and isinstance(b, Ptr):
                r = a.buf is b.buf and a.off == b.off
                return int(r if op == "==" else not r)
            raise Unsupported("pointer arithmetic " + op)
        if op == "+": return a + b
        if op == "-": return a - b
        if op == "*": return a * b
        if op == "/":
            if b == 0: raise Unsupported("division by zero")
            return int(a / b) if (a < 0) != (b < 0) else a // b
        if op == "%":
            if b == 0: raise Unsupported("division by zero")
            return a - b * (int(a / b) if (a < 0) != (b < 0) else a // b)
        if op == "<<": return a << b
        if op == ">>": return a >> b
        if op == "&": return a & b
        if op == "|": return a | b
        if op == "^": return a ^ b
        if op == "==": return int(a == b)
        if op == "!=": return int(a != b)
        if op == "<": return int(a < b)
        if op == ">": return int(a > b)
        if op == "<=": return int(a <= b)
        if op == ">=": return int(a >= b)
        raise Unsupported("operator " + op)


# -------------------------------------------------------------------------------- source utilities
def strip_comments(src):
    return re.sub(r"/\*.*?\*/|//[^\n]*", lambda m: " " * 0 + "\n" * m.group(0).count("\n"), src, flags=re.S)


def function_source(path, name):
    """Returns (params_text, body_text_with_braces) of the C function `name` defined in `path`."""
    src = strip_comments(open(path).read())
    for m in re.finditer(r"^" + re.escape(name) + r"\s*\(", src, re.M):
        # parameter list
        i = m.end(); depth = 1
        while depth:
            c = src[i]
            depth += (c == "(") - (c == ")")
            i += 1
        params = src[m.end():i - 1]
        j = i
        while src[j] in " \t\n": j += 1
        if src[j] != "{":
            continue
        k = j; depth = 0
        in_s = None
        while True:
            c = src[k]
            if in_s:
                if c == "\\": k += 1
                elif c == in_s: in_s = None
            elif c in "\"'": in_s = c
            elif c == "{": depth += 1
            elif c == "}":
                depth -= 1
                if depth == 0: break
            k += 1
        return params, src[j:k + 1]
    raise Unsupported("function %s not found in %s" % (name, path))


def find_loop_body(body_src, header_regex):
    """Finds `for (...)`/`while (...)` whose header matches, returns its body block source."""
    m = re.search(header_regex, body_src)
    if not m:
        raise Unsupported("loop header not found: " + header_regex)
    j = m.end()
    while body_src[j] in " \t\n": j += 1
    if body_src[j] != "{":
        raise Unsupported("loop body is not a block")
    k = j; depth = 0; in_s = None
    while True:
        c = body_src[k]
        if in_s:
            if c == "\\": k += 1
            elif c == in_s: in_s = None
        elif c in "\"'": in_s = c
        elif c == "{": depth += 1
        elif c == "}":
            depth -= 1
            if depth == 0: break
        k += 1
    return body_src[j:k + 1], body_src[:m.start()], body_src[k + 1:]
