#!/bin/bash
# usage: tools/try_seed.sh <seed-dir-name> <Cxx> [tier]  — run one check against a scratch worktree of /repo HEAD carrying a seeded
# regression (VERIF_REPO / VERIF_BUILD point the machinery at it), so that /repo itself and checks running against it are not
# disturbed.  Equivalent to `git -C /repo apply` + check + `git -C /repo checkout -- .`; do not run two of these at once, nor
# together with a local check in /verif (the generated Lean files in /verif/lean are shared).
d=/verif/seeded/$1; p=$2; t=${3:-quick}
W=/var/tmp/seedrepo
git -C /repo worktree remove --force $W 2>/dev/null; rm -rf $W
git -C /repo worktree add -q --detach $W HEAD || exit 2
git -C $W apply "$d/patch.diff" || { git -C /repo worktree remove --force $W; exit 2; }
VERIF_REPO=$W VERIF_BUILD=/var/tmp/verif-build-seed VERIF_EVIDENCE=/tmp/try_seed_evidence VERIF_REPLAYS=/tmp/try_seed_replays \
  python3 /verif/tools/vcheck.py $p --tier $t > /tmp/try_seed.$1.$p.out 2>&1; rc=$?
git -C /repo worktree remove --force $W; git -C /repo worktree prune
# put the generated Lean files back to what /repo says
python3 /verif/tools/extract.py >/dev/null 2>&1
grep -a "VIOLATION\|^C[0-9]" /tmp/try_seed.$1.$p.out | cut -c1-220
echo "exit=$rc"
