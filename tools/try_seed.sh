#!/bin/bash
# usage: tools/try_seed.sh <seed-dir-name> <Cxx> [tier]  — apply a seeded regression to /repo, run one check, undo
d=/verif/seeded/$1; p=$2; t=${3:-quick}
git -C /repo apply "$d/patch.diff" || exit 2
VERIF_EVIDENCE=/tmp/try_seed_evidence VERIF_REPLAYS=/tmp/try_seed_replays python3 /verif/tools/vcheck.py $p --tier $t > /tmp/try_seed.$1.$p.out 2>&1; rc=$?
git -C /repo checkout -- .
grep -a "VIOLATION\|^C[0-9]" /tmp/try_seed.$1.$p.out | cut -c1-220
echo "exit=$rc"
