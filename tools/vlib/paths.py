"""Locations. Everything is derived from this file's position, never from cwd."""
import os

VERIF = os.path.dirname(os.path.dirname(os.path.dirname(os.path.abspath(__file__))))
REPO = os.environ.get("VERIF_REPO", "/repo")
BUILD = os.environ.get("VERIF_BUILD", "/var/tmp/verif-build")
LEAN = os.path.join(VERIF, "lean")
HARNESS = os.path.join(VERIF, "harness")
EVIDENCE = os.environ.get("VERIF_EVIDENCE", os.path.join(VERIF, "evidence"))
REPLAYS = os.environ.get("VERIF_REPLAYS", os.path.join(VERIF, "replays"))
CORPUS = os.path.join(VERIF, "corpus")
FINDINGS = os.path.join(VERIF, "known_findings.json")
GUARD = "CESNET_LIBYANG_VERIF"
