"""Line protocol plumbing: feed request lines to a process, collect replies by id."""
import os, subprocess, tempfile

ASAN_ENV = {
    "ASAN_OPTIONS": "detect_leaks=1:abort_on_error=0:exitcode=97:allocator_may_return_null=1:detect_stack_use_after_return=0:max_allocation_size_mb=2048",
    "UBSAN_OPTIONS": "print_stacktrace=1:halt_on_error=1:exitcode=98",
    "LSAN_OPTIONS": "exitcode=96",
    "TSAN_OPTIONS": "exitcode=95:halt_on_error=1:second_deadlock_stack=1",
}


def hexs(b):
    if isinstance(b, str):
        b = b.encode("utf-8", "surrogateescape")
    return b.hex() if b else "-"


def unhex(s):
    return b"" if s == "-" else bytes.fromhex(s)


def run_lines(cmd, lines, timeout=600, env=None, restart=True, per_crash=None):
    """lines: list of 'id comp op args'. Returns (replies: dict id -> [tokens], crashes: list).

    If the process dies before answering everything, the first unanswered id is recorded as
    `err Crash` (with the tail of stderr) and the process is restarted on the remaining lines."""
    replies, crashes = {}, []
    e = dict(os.environ); e.update(ASAN_ENV)
    if env: e.update(env)
    pending = list(lines)
    guard = 0
    while pending:
        guard += 1
        inp = ("\n".join(pending) + "\n").encode()
        try:
            p = subprocess.run(cmd, input=inp, stdout=subprocess.PIPE, stderr=subprocess.PIPE, timeout=timeout, env=e)
            out, err, rc = p.stdout, p.stderr, p.returncode
            timed = False
        except subprocess.TimeoutExpired as ex:
            out, err, rc, timed = ex.stdout or b"", ex.stderr or b"", -9, True
        got = 0
        for l in out.decode("utf-8", "replace").split("\n"):
            t = l.split()
            if len(t) >= 2 and t[1] in ("ok", "err"):
                replies[t[0]] = t[1:]
        rest = [l for l in pending if l.split()[0] not in replies]
        if not rest:
            if rc != 0:
                crashes.append({"id": None, "rc": rc, "stderr": err.decode("utf-8", "replace")[-3000:], "at_exit": True})
            break
        first = rest[0]
        fid = first.split()[0]
        kind = "Timeout" if timed else "Crash"
        replies[fid] = ["err", kind]
        crashes.append({"id": fid, "line": first, "rc": rc, "kind": kind, "stderr": err.decode("utf-8", "replace")[-3000:]})
        if per_crash: per_crash(crashes[-1])
        pending = rest[1:]
        if not restart or guard > 200:
            for l in pending:
                replies[l.split()[0]] = ["err", "NotRun"]
            break
    return replies, crashes
