"""Schema family S1 and data trees over it (shared tree base; DESIGN.md §2.4, Appendix B `tree dump`).

One python value (`Schema`) is rendered
  * to YANG text for libyang                       -> Schema.yang()
  * to a compact line DSL the Lean model parses     -> Schema.dsl()      (lean/LyModel/Tree/Schema.lean)
Schema nodes are numbered in DFS pre-order over *all* nodes (choice and case included): the `sid`.

Data trees are forests of `DN`.  The serialisation shared by python, the C harnesses (harness/treeproto.h) and the
Lean driver (lean/LyModel/Tree/DTree.lean) is the canonical dump, one line per node, depth first, siblings in order:

    <depth> <sid> <flags> <value-hex> [<meta-name>=<value-hex>]*

flags = LYD_DEFAULT 1 | LYD_WHEN_TRUE 2 | LYD_NEW 4 ; value-hex `-` for inner nodes and for the empty string; keys of a
list instance are its first children.  A whole tree travels as ONE protocol token: hex(dump) (`-` = empty forest).

Every random choice comes from the rng passed in.
"""
import copy

# ----------------------------------------------------------------------------------------------
# types (T1 subset kept as canonical byte strings with a per-type comparison)
# ----------------------------------------------------------------------------------------------

STR_POOL = [b"", b"a", b"b", b"ab", b"a b", b" ", b"B", b"&", b"<", b">", b"it's", b'q"q', b"x]y", b"[k='v']", b"/s", b"\xc3\xa9", b"\xe2\x82\xac",
            b"\xf0\x90\x80\x80", b"0", b"10", b"9", b"true", b"a\tb", b"a\nb", b"zz", b"]]>", b"da", b"dx"]
KEY_STR_POOL = [b"a", b"b", b"ab", b"a b", b"B", b"&", b"<", b"it's", b'q"q', b"x]y", b"/s", b"\xc3\xa9", b"0", b"10", b"9", b"zz", b" "]
INT_POOL = {
    "int8": [-128, -127, -10, -1, 0, 1, 9, 10, 99, 126, 127],
    "uint8": [0, 1, 2, 9, 10, 11, 99, 100, 254, 255],
    "int32": [-2147483648, -2147483647, -100000, -1, 0, 1, 10, 65536, 2147483646, 2147483647],
}


class Ty:
    def __init__(self, name, enums=None):
        self.name = name                      # string int8 uint8 int32 boolean enumeration empty
        self.enums = enums or []              # [(name, value)]

    def dsl(self):
        if self.name == "enumeration":
            return "enum:" + ",".join("%s=%d" % (n, v) for n, v in self.enums)
        return self.name

    def yang(self):
        if self.name == "enumeration":
            return "type enumeration { " + " ".join("enum %s { value %d; }" % (n, v) for n, v in self.enums) + " }"
        return "type %s;" % self.name

    def pool(self, key=False):
        if self.name == "string":
            return list(KEY_STR_POOL if key else STR_POOL)
        if self.name in INT_POOL:
            return [str(v).encode() for v in INT_POOL[self.name]]
        if self.name == "boolean":
            return [b"false", b"true"]
        if self.name == "enumeration":
            return [n.encode() for n, _ in self.enums]
        if self.name == "empty":
            return [b""]
        raise ValueError(self.name)

    def sortkey(self, v):
        """libyang's plugin `sort` callbacks: strcmp of the canonical value for string/empty, numeric for integers,
        false<true, and (sic) DEscending enum value for enumerations."""
        if self.name in ("string", "empty"):
            return v
        if self.name in INT_POOL:
            return int(v)
        if self.name == "boolean":
            return 1 if v == b"true" else 0
        if self.name == "enumeration":
            return -dict(self.enums)[v.decode()]
        raise ValueError(self.name)


ENUMS = [[("a", 0), ("b", 1), ("c", 2)], [("zero", 0), ("five", 5), ("neg", -3), ("big", 1000)], [("x", 7), ("y", 3)]]


def rand_type(rng, key=False, allow_empty=True):
    names = ["string", "string", "int8", "uint8", "int32", "boolean", "enumeration"]
    if allow_empty and not key:
        names.append("empty")
    n = rng.choice(names)
    if n == "enumeration":
        return Ty(n, list(rng.choice(ENUMS)))
    return Ty(n)


# ----------------------------------------------------------------------------------------------
# schema
# ----------------------------------------------------------------------------------------------

class SNode:
    """kind: container list leaflist leaf choice case"""

    def __init__(self, kind, name, **kw):
        self.kind, self.name = kind, name
        self.kids = kw.pop("kids", [])
        self.presence = kw.pop("presence", False)
        self.config = kw.pop("config", True)          # effective config
        self.keys = kw.pop("keys", [])                # list: key leaf names (the first len(keys) kids)
        self.userord = kw.pop("userord", False)       # effective (state lists/leaf-lists are always user-ordered in libyang)
        self.min = kw.pop("min", 0)
        self.max = kw.pop("max", 0)                   # 0 = unbounded
        self.ty = kw.pop("ty", None)
        self.dflts = kw.pop("dflts", [])              # leaf-list defaults
        self.dflt = kw.pop("dflt", None)              # leaf default / choice default case name
        self.mandatory = kw.pop("mandatory", False)
        self.iskey = kw.pop("iskey", False)
        assert not kw, kw
        self.sid = None
        self.parent = None                            # schema parent (may be choice/case)
        self.depth = 0

    # derived -------------------------------------------------------------------------------
    def is_inner(self):
        return self.kind in ("container", "list")

    def is_term(self):
        return self.kind in ("leaf", "leaflist")

    def is_data(self):
        return self.kind not in ("choice", "case")

    def dup_inst(self):
        """lysc_is_dup_inst_list: key-less list or state leaf-list"""
        return (self.kind == "list" and not self.keys) or (self.kind == "leaflist" and not self.config)

    def is_userord(self):
        return self.kind in ("list", "leaflist") and self.userord

    def data_parent(self):
        p = self.parent
        while p is not None and not p.is_data():
            p = p.parent
        return p

    def data_kids(self):
        """instantiable children in schema order, choices/cases flattened"""
        out = []
        for k in self.kids:
            if k.is_data():
                out.append(k)
            else:
                out += k.data_kids()
        return out

    def np_cont(self):
        return self.kind == "container" and not self.presence


class Schema:
    def __init__(self, name, top):
        assert len(name) >= 3
        self.name, self.top = name, top
        self.nodes = []

        def walk(n, parent, depth):
            n.sid, n.parent, n.depth = len(self.nodes), parent, depth
            self.nodes.append(n)
            for k in n.kids:
                walk(k, n, depth + 1)
        for t in top:
            walk(t, None, 0)

    def data_top(self):
        out = []
        for k in self.top:
            out += [k] if k.is_data() else k.data_kids()
        return out

    def data_kids(self, sn):
        return self.data_top() if sn is None else sn.data_kids()

    # ---- DSL for the Lean model -------------------------------------------------------------
    def dsl(self):
        L = ["module " + self.name]
        b = lambda x: "1" if x else "0"
        for n in self.nodes:
            h = "%d %s %s" % (n.depth, n.kind, n.name)
            if n.kind == "container":
                h += " %s %s" % (b(n.presence), b(n.config))
            elif n.kind == "list":
                h += " %d %s %d %d %s" % (len(n.keys), b(n.userord), n.min, n.max, b(n.config))
            elif n.kind == "leaflist":
                h += " %s %s %d %d %s" % (n.ty.dsl(), b(n.userord), n.min, n.max, b(n.config))
                for d in n.dflts:
                    h += " " + hx(d)
            elif n.kind == "leaf":
                h += " %s %s %s %s %s" % (n.ty.dsl(), b(n.mandatory), b(n.config), b(n.iskey), "~" if n.dflt is None else hx(n.dflt))
            elif n.kind == "choice":
                h += " %s %s %s" % (b(n.mandatory), b(n.config), n.dflt or "~")
            elif n.kind == "case":
                h += " %s" % b(n.config)
            L.append(h)
        return "\n".join(L).encode()

    # ---- YANG for libyang ---------------------------------------------------------------------
    def yang(self):
        out = ["module %s {" % self.name, "  yang-version 1.1;", "  namespace \"urn:verif:%s\";" % self.name, "  prefix p;"]

        def q(bs):
            s = bs.decode("utf-8")
            return '"' + s.replace("\\", "\\\\").replace('"', '\\"').replace("\n", "\\n").replace("\t", "\\t") + '"'

        def emit(n, ind, pconfig):
            p = "  " * ind
            kw = {"leaflist": "leaf-list"}.get(n.kind, n.kind)
            out.append("%s%s %s {" % (p, kw, n.name))
            q2 = p + "  "
            if n.kind == "list" and n.keys:
                out.append('%skey "%s";' % (q2, " ".join(n.keys)))
            if n.kind == "container" and n.presence:
                out.append('%spresence "p";' % q2)
            if n.kind in ("leaf", "leaflist"):
                out.append(q2 + n.ty.yang())
            if n.kind not in ("case",) and n.config != pconfig:
                out.append("%sconfig %s;" % (q2, "true" if n.config else "false"))
            if n.kind in ("list", "leaflist"):
                if n.userord and n.config:
                    out.append(q2 + "ordered-by user;")
                if n.min:
                    out.append("%smin-elements %d;" % (q2, n.min))
                if n.max:
                    out.append("%smax-elements %d;" % (q2, n.max))
            if n.kind == "leaflist":
                for d in n.dflts:
                    out.append("%sdefault %s;" % (q2, q(d)))
            if n.kind == "leaf" and n.dflt is not None:
                out.append("%sdefault %s;" % (q2, q(n.dflt)))
            if n.kind == "choice" and n.dflt:
                out.append("%sdefault %s;" % (q2, n.dflt))
            if n.kind in ("leaf", "choice") and n.mandatory:
                out.append(q2 + "mandatory true;")
            for k in n.kids:
                emit(k, ind + 1, n.config if n.kind != "case" else pconfig)
            out.append(p + "}")
        for t in self.top:
            emit(t, 1, True)
        out.append("}")
        return "\n".join(out) + "\n"

    def summary(self):
        """what the `schema` op of harness and model must both report: one token per node"""
        out = []
        for n in self.nodes:
            dp = n.data_parent()
            out.append("%s/%s/%s/u%dd%dk%dc%d" % (n.name, n.kind, "-" if dp is None else str(dp.sid),
                                                   n.is_userord(), n.dup_inst(), n.iskey, n.config))
        return out


def hx(b):
    return b.hex() if b else "-"


def unhx(s):
    return b"" if s == "-" else bytes.fromhex(s)


# ---- random S1 schemas -------------------------------------------------------------------------

class _Names:
    def __init__(self):
        self.n = 0

    def new(self, pfx):
        self.n += 1
        return "%s%d" % (pfx, self.n)


def gen_schema(rng, idx, max_depth=3, userord=True, state=True, choices=True, defaults=True):
    """A random member of S1.  Module names have >= 3 characters (LYB hash exhaustion, F27)."""
    nm = _Names()
    nomand = [0]

    def leaf(config, key=False, allow_mand=True, allow_dflt=True):
        allow_mand = allow_mand and not nomand[0]
        ty = rand_type(rng, key=key)
        n = SNode("leaf", nm.new("k" if key else "f"), ty=ty, config=config, iskey=key)
        if not key:
            r = rng.random()
            if r < 0.3 and defaults and allow_dflt and ty.name != "empty":
                n.dflt = rng.choice(ty.pool())
            elif r < 0.4 and allow_mand:
                n.mandatory = True
        return n

    def leaflist(config):
        ty = rand_type(rng, allow_empty=False)
        n = SNode("leaflist", nm.new("ll"), ty=ty, config=config)
        n.userord = (not config) or (userord and rng.random() < 0.45)
        r = rng.random()
        if r < 0.3 and defaults and config:
            pool = ty.pool()
            k = rng.randrange(1, min(3, len(pool)) + 1)
            n.dflts = rng.sample(pool, k)
        elif r < 0.4 and not nomand[0]:
            n.min = rng.choice([1, 1, 2])
        if rng.random() < 0.15:
            n.max = rng.choice([3, 4])
        return n

    def inner_kids(depth, config, in_case=False):
        k = rng.randrange(1 if in_case else 2, 4 if in_case else 6)
        out = []
        for _ in range(k):
            out.append(any_node(depth, config, in_case))
        if in_case and not any(x.kind == "leaf" and not x.mandatory for x in out):
            out.insert(0, leaf(config, allow_mand=False))
        return out

    def any_node(depth, config, in_case=False):
        r = rng.random()
        cfg = config and not (state and rng.random() < 0.12)
        if depth >= max_depth:
            r = r * 0.45
        if r < 0.30:
            return leaf(cfg, allow_mand=not in_case)
        if r < 0.45:
            return leaflist(cfg)
        if r < 0.60:
            return SNode("container", nm.new("c"), presence=rng.random() < 0.4, config=cfg, kids=inner_kids(depth + 1, cfg))
        if r < 0.85:
            keyless = (not cfg) and rng.random() < 0.5
            nkeys = 0 if keyless else rng.choice([1, 1, 1, 2])
            keys = [leaf(cfg, key=True) for _ in range(nkeys)]
            n = SNode("list", nm.new("l"), config=cfg, keys=[k.name for k in keys])
            n.userord = (not cfg) or (userord and rng.random() < 0.45)
            n.kids = keys + inner_kids(depth + 1, cfg)
            if rng.random() < 0.15 and not nomand[0]:
                n.min = 1
            if rng.random() < 0.15:
                n.max = rng.choice([3, 4])
            return n
        if choices and not in_case:
            ncases = rng.randrange(2, 4)
            nomand[0] += 1          # no mandatory / min-elements anywhere below a choice (default-case rule, RFC 7950 7.9.3)
            cases = [SNode("case", nm.new("ca"), config=cfg, kids=inner_kids(depth + 1, cfg, in_case=True)) for _ in range(ncases)]
            nomand[0] -= 1
            n = SNode("choice", nm.new("ch"), config=cfg, kids=cases)
            r2 = rng.random()
            if r2 < 0.35:
                n.dflt = rng.choice(cases).name
            elif r2 < 0.5 and not nomand[0]:
                n.mandatory = True
            return n
        return leaf(cfg, allow_mand=not in_case)

    top = []
    for _ in range(rng.randrange(2, 5)):
        t = any_node(1, True)
        # a top-level mandatory node / min-elements makes the empty tree invalid; keep those below containers
        if t.kind in ("leaf", "choice"):
            t.mandatory = False
        if t.kind in ("list", "leaflist"):
            t.min = 0
        top.append(t)
    return Schema("s1m%d" % idx, top)


def userord_schema(kind):
    """Hand schemas for the exhaustive user-ordered runs.  kind: list | leaflist | strll | keyless | statell | statelist"""
    if kind == "list":
        l = SNode("list", "ul", keys=["k"], userord=True, kids=[SNode("leaf", "k", ty=Ty("uint8"), iskey=True), SNode("leaf", "v", ty=Ty("string"))])
    elif kind == "leaflist":
        l = SNode("leaflist", "ul", ty=Ty("uint8"), userord=True)
    elif kind == "strll":
        l = SNode("leaflist", "ul", ty=Ty("string"), userord=True)
    elif kind == "keyless":
        l = SNode("list", "ul", keys=[], userord=True, config=False, kids=[SNode("leaf", "v", ty=Ty("uint8"), config=False)])
    elif kind == "statell":
        l = SNode("leaflist", "ul", ty=Ty("uint8"), userord=True, config=False)
    elif kind == "statelist":
        l = SNode("list", "ul", keys=["k"], userord=True, config=False,
                  kids=[SNode("leaf", "k", ty=Ty("uint8"), iskey=True, config=False), SNode("leaf", "v", ty=Ty("string"), config=False)])
    else:
        raise ValueError(kind)
    return Schema("uo" + kind, [SNode("container", "c", kids=[SNode("leaf", "a", ty=Ty("string")), l, SNode("leaf", "z", ty=Ty("string"))]),
                                copy.deepcopy(l)])


def findings_schema():
    """Hand schema for the witnesses of the diff findings (corpus/diff/findings.json)."""
    S = SNode
    st = lambda **k: dict(config=False, **k)
    return Schema("fnd", [
        S("container", "c", kids=[
            S("leaf", "x", ty=Ty("string"), dflt=b"d"),
            S("leaflist", "dl", ty=Ty("string"), userord=True, dflts=[b"a", b"b"]),
            S("leaflist", "dl3", ty=Ty("string"), userord=True, dflts=[b"c", b"a", b"b"]),
            S("leaflist", "sl", ty=Ty("int8"))]),
        S("container", "st", config=False, kids=[
            S("list", "kl", keys=[], userord=True, config=False, kids=[
                S("leaf", "f3", ty=Ty("uint8"), dflt=b"100", config=False), S("leaf", "f4", ty=Ty("string"), config=False)]),
            S("leaflist", "sb", ty=Ty("boolean"), userord=True, config=False),
            S("list", "sk", keys=["k"], userord=True, config=False, kids=[
                S("leaf", "k", ty=Ty("string"), iskey=True, config=False), S("leaf", "v", ty=Ty("string"), config=False)])]),
        S("list", "ul", keys=["k"], userord=True, kids=[S("leaf", "k", ty=Ty("uint8"), iskey=True), S("leaf", "v", ty=Ty("string"))]),
    ])


# ----------------------------------------------------------------------------------------------
# data trees
# ----------------------------------------------------------------------------------------------

F_DFLT, F_WHEN, F_NEW = 1, 2, 4


class DN:
    def __init__(self, sn, val=None, kids=None, flags=0, meta=None):
        self.sn, self.val, self.kids, self.flags = sn, val, kids if kids is not None else [], flags
        self.meta = meta or []          # [(name, value-bytes)]

    def key(self):
        """identity among siblings of the same schema node (python side; used by generators only)"""
        if self.sn.kind == "list":
            return tuple(k.val for k in self.kids[:len(self.sn.keys)])
        if self.sn.kind == "leaflist":
            return self.val
        return None

    def clone(self):
        return DN(self.sn, self.val, [k.clone() for k in self.kids], self.flags, list(self.meta))


def dump(forest):
    L = []

    def w(n, d):
        t = "%d %d %d %s" % (d, n.sn.sid, n.flags, hx(n.val) if n.sn.is_term() else "-")
        for k, v in n.meta:
            t += " %s=%s" % (k, hx(v))
        L.append(t)
        for k in n.kids:
            w(k, d + 1)
    for n in forest:
        w(n, 0)
    return "\n".join(L).encode()


def tok(forest):
    """protocol token of a forest"""
    return hx(dump(forest))


def parse_dump(schema, text):
    forest, stack = [], []
    if isinstance(text, bytes):
        text = text.decode()
    for line in text.split("\n"):
        if not line.strip():
            continue
        f = line.split(" ")
        d, sid, flags = int(f[0]), int(f[1]), int(f[2])
        sn = schema.nodes[sid]
        n = DN(sn, unhx(f[3]) if sn.is_term() else None, [], flags, [(m.split("=")[0], unhx(m.split("=")[1])) for m in f[4:]])
        del stack[d:]
        (stack[-1].kids if stack else forest).append(n)
        stack.append(n)
    return forest


def untok(schema, t):
    return parse_dump(schema, unhx(t))


def pretty(schema, forest, ind=0):
    out = []
    for n in forest:
        s = "  " * ind + n.sn.name
        if n.sn.is_term():
            s += " = %r" % n.val.decode("utf-8", "replace")
        if n.flags:
            s += " {%s}" % "".join(c for c, b in (("d", 1), ("w", 2), ("n", 4)) if n.flags & b)
        for k, v in n.meta:
            s += " @%s=%r" % (k, v.decode("utf-8", "replace"))
        out.append(s)
        out += pretty(schema, n.kids, ind + 1)
    return out if ind else "\n".join(out)


def sib_sortkey(n):
    """libyang's sibling order: schema order; instances of a system-ordered keyed list / configuration leaf-list by
    key values / value with the type's sort callback; everything else in the given order (stable)."""
    sn = n.sn
    if sn.kind == "list" and sn.keys and not sn.userord:
        return (sn.sid, tuple(k.sn.ty.sortkey(k.val) for k in n.kids[:len(sn.keys)]))
    if sn.kind == "leaflist" and not sn.userord:
        return (sn.sid, (sn.ty.sortkey(n.val),))
    return (sn.sid, ())


def canon(forest):
    """sort every sibling list into libyang's order (stable), recursively, in place; returns the forest"""
    for n in forest:
        if n.sn.kind == "list":
            nk = len(n.sn.keys)
            n.kids = n.kids[:nk] + canon(n.kids[nk:])
        else:
            canon(n.kids)
    forest.sort(key=sib_sortkey)
    return forest


def scramble(rng, forest):
    """a random permutation of every sibling list that canon() must undo: only moves that keep the relative order of
    instances of the same user-ordered / dup-inst schema node"""
    out = [n.clone() for n in forest]
    for n in out:
        nk = len(n.sn.keys) if n.sn.kind == "list" else 0
        n.kids = n.kids[:nk] + scramble(rng, n.kids[nk:])
    groups = {}
    for n in out:
        groups.setdefault(n.sn.sid, []).append(n)
    for sid, g in groups.items():
        sn = g[0].sn
        if not (sn.is_userord() or sn.dup_inst()):
            rng.shuffle(g)
    order = [n.sn.sid for n in out]
    rng.shuffle(order)
    res = []
    for sid in order:
        res.append(groups[sid].pop(0))
    return res


# ---- valid instance trees (explicit nodes only; libyang's validation adds the implicit ones) ----

class TreeGen:
    def __init__(self, rng, schema, density=0.6, max_inst=4):
        self.rng, self.s, self.density, self.max_inst = rng, schema, density, max_inst

    def value(self, sn, key=False):
        return self.rng.choice(sn.ty.pool(key))

    def gen_level(self, kids, force=False):
        """instances for the schema children `kids` (raw schema kids incl. choices) of one parent instance"""
        out = []
        for sn in kids:
            out += self.gen_node(sn, force)
        return out

    def gen_node(self, sn, force=False):
        rng = self.rng
        if sn.kind == "leaf":
            if sn.iskey:
                return []
            if sn.mandatory or force or rng.random() < self.density:
                v = self.value(sn)
                if sn.dflt is not None and rng.random() < 0.25:
                    v = sn.dflt                     # explicitly set to the default value (no dflt flag)
                return [DN(sn, v)]
            return []
        if sn.kind == "leaflist":
            lo = sn.min
            hi = sn.max or self.max_inst
            pool = sn.ty.pool()
            if sn.config:
                hi = min(hi, len(pool))
            lo = min(lo, hi)
            n = rng.randrange(lo, hi + 1) if (lo or force or rng.random() < self.density) else 0
            if force and n == 0 and hi > 0:
                n = 1
            if sn.userord and sn.ty.name == "string" and rng.random() < 0.9:
                pool = [v for v in pool if v != b""]                  # "" cannot be a yang:value anchor (finding F122): keep it rare
            if sn.config or rng.random() < 0.85:
                vals = rng.sample(pool, min(n, len(pool)))
            else:
                vals = [rng.choice(pool[:4]) for _ in range(n)]       # duplicates are allowed in state leaf-lists (finding F123)
            return [DN(sn, v) for v in vals]
        if sn.kind == "container":
            if sn.presence:
                if force or rng.random() < self.density:
                    return [DN(sn, None, self.gen_level(sn.kids))]
                return []
            kids = self.gen_level(sn.kids)
            return [DN(sn, None, kids)] if kids else []
        if sn.kind == "list":
            lo, hi = sn.min, sn.max or self.max_inst
            n = rng.randrange(lo, hi + 1) if (lo or force or rng.random() < self.density) else 0
            if force and n == 0:
                n = 1
            out, seen = [], set()
            for _ in range(n):
                inst = self.list_instance(sn, seen)
                if inst is not None:
                    out.append(inst)
            while len(out) < lo:
                inst = self.list_instance(sn, seen)
                if inst is not None:
                    out.append(inst)
            return out
        if sn.kind == "choice":
            if sn.mandatory or force or rng.random() < self.density:
                return self.gen_case(rng.choice(sn.kids))
            return []
        raise ValueError(sn.kind)

    def gen_case(self, case):
        kids = self.gen_level(case.kids)
        if not kids:
            cand = [k for k in case.kids if k.kind == "leaf"] or case.kids
            kids = self.gen_node(cand[0], force=True)
        return kids

    def list_instance(self, sn, seen):
        nk = len(sn.keys)
        for _ in range(30):
            keys = [DN(k, self.value(k, key=True)) for k in sn.kids[:nk]]
            kt = tuple(k.val for k in keys)
            if nk and kt in seen:
                continue
            seen.add(kt)
            return DN(sn, None, keys + self.gen_level(sn.kids[nk:]))
        return None

    def tree(self):
        return canon(self.gen_level(self.s.top))

    # ---- an edited copy B of A -----------------------------------------------------------------
    def edit(self, forest, rate=0.35):
        return canon(self.edit_level(self.s.top, [n.clone() for n in forest], rate))

    def edit_level(self, skids, insts, rate):
        """skids: raw schema kids (incl. choices) of the parent; insts: current explicit instances at this level"""
        rng = self.rng
        out = []
        for sn in skids:
            mine = [n for n in insts if n.sn is sn] if sn.is_data() else [n for n in insts if self.under(n.sn, sn)]
            if rng.random() >= rate:
                # keep, but recurse into inner nodes
                out += [self.edit_inner(n, rate) for n in mine] if sn.is_data() else self.edit_choice_keep(sn, mine, rate)
                continue
            out += self.mutate(sn, mine, rate)
        return out

    @staticmethod
    def under(sn, anc):
        p = sn
        while p is not None:
            if p is anc:
                return True
            p = p.parent
        return False

    def edit_inner(self, n, rate):
        if n.sn.kind == "container":
            n.kids = self.edit_level(n.sn.kids, n.kids, rate)
        elif n.sn.kind == "list":
            nk = len(n.sn.keys)
            n.kids = n.kids[:nk] + self.edit_level(n.sn.kids[nk:], n.kids[nk:], rate)
        return n

    def edit_choice_keep(self, ch, mine, rate):
        if not mine:
            return []
        case = [c for c in ch.kids if self.under(mine[0].sn, c)][0]
        kids = self.edit_level(case.kids, mine, rate)
        return kids if kids else mine

    def mutate(self, sn, mine, rate):
        rng = self.rng
        if sn.kind == "leaf":
            if sn.iskey:
                return mine
            if mine and not sn.mandatory and rng.random() < 0.4:
                return []                                             # delete
            return self.gen_node(sn, force=True)                      # create / change value
        if sn.kind == "choice":
            if mine and not sn.mandatory and rng.random() < 0.25:
                return []
            return self.gen_case(rng.choice(sn.kids))                 # switch case (or regenerate the same one)
        if sn.kind == "container":
            if sn.presence:
                if mine and rng.random() < 0.5:
                    return []
                return mine and [self.edit_inner(mine[0], 0.7)] or self.gen_node(sn, force=True)
            if mine and rng.random() < 0.2:
                return self.gen_node(sn)                              # regenerate the subtree
            return [self.edit_inner(n, 0.7) for n in mine] or self.gen_node(sn, force=True)
        # list / leaf-list: instance-level edits
        lo, hi = sn.min, sn.max or self.max_inst + 1
        insts = list(mine)
        for _ in range(rng.randrange(1, 4)):
            r = rng.random()
            if r < 0.3 and len(insts) > lo:
                insts.pop(rng.randrange(len(insts)))                  # delete one
            elif r < 0.6 and len(insts) < hi:
                new = self.new_instance(sn, insts)
                if new is not None:
                    insts.insert(rng.randrange(len(insts) + 1), new)  # interleaved insert
            elif r < 0.8 and insts and sn.kind == "list":
                i = rng.randrange(len(insts))
                insts[i] = self.edit_inner(insts[i], 0.7)
            elif insts and (sn.is_userord()):
                insts = self.permute(insts)
        return insts

    def new_instance(self, sn, insts):
        if sn.kind == "list":
            return self.list_instance(sn, set(n.key() for n in insts) if sn.keys else set())
        pool = sn.ty.pool()
        if sn.config or self.rng.random() < 0.85:
            have = set(n.val for n in insts)
            cand = [v for v in pool if v not in have and (v != b"" or not sn.userord or self.rng.random() < 0.1)]
            return DN(sn, self.rng.choice(cand)) if cand else None
        return DN(sn, self.rng.choice(pool[:4]))

    def permute(self, insts):
        rng = self.rng
        r = rng.random()
        n = len(insts)
        if r < 0.25:
            k = rng.randrange(n)
            return insts[k:] + insts[:k]                              # rotation
        if r < 0.45:
            return insts[::-1]                                        # reversal
        if r < 0.7 and n >= 2:
            i, j = rng.sample(range(n), 2)
            x = insts.pop(i)
            insts.insert(j, x)                                        # move one
            return insts
        rng.shuffle(insts)
        return insts


def all_nodup_seqs(n):
    """all duplicate-free sequences over range(n) (all lengths): 1, 2, 5, 16, 65, 326 for n = 0..5"""
    out = [[]]

    def go(pre, rest):
        for x in rest:
            p = pre + [x]
            out.append(p)
            go(p, [y for y in rest if y != x])
    go([], list(range(n)))
    return out
