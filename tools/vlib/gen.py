"""Shared, deterministic generators.  Every random choice comes from the rng passed in."""

EDGE_CPS = [0x9, 0xA, 0xD, 0x20, 0x22, 0x26, 0x27, 0x2F, 0x3C, 0x3E, 0x5B, 0x5C, 0x5D, 0x7F, 0x80, 0xFF, 0x7FF, 0x800, 0xFFF, 0x1000,
            0xD7FF, 0xE000, 0xFDCF, 0xFDD0, 0xFDEF, 0xFDF0, 0xFFFD, 0xFFFE, 0xFFFF, 0x10000, 0x10FFE, 0x1FFFD, 0x1FFFE, 0x10FFFD, 0x10FFFF]
ASCII_WORDS = ["", "a", "abc", " ", "  x ", "a b", "&", "<", ">", "\"", "'", "&amp;", "&lt;", "]]>", "<![CDATA[", "\\", "\\n", "/", "\t", "\n", "\r",
               "\r\n", "x\x7fy", "0", "-1", "1e3", "true", "null", "{}", "[]", ":", ",", "#", "&#65;", "&#x41;", "\\u0041", "a'b\"c"]


def enc_cp(cp):
    """UTF-8 encoding without validity checks (so that surrogates / non-characters can be produced)."""
    if cp < 0x80: return bytes([cp])
    if cp < 0x800: return bytes([0xC0 | cp >> 6, 0x80 | cp & 0x3F])
    if cp < 0x10000: return bytes([0xE0 | cp >> 12, 0x80 | (cp >> 6) & 0x3F, 0x80 | cp & 0x3F])
    return bytes([0xF0 | (cp >> 18) & 7, 0x80 | (cp >> 12) & 0x3F, 0x80 | (cp >> 6) & 0x3F, 0x80 | cp & 0x3F])


MALFORMED = [b"\x80", b"\xbf", b"\xc0\x80", b"\xc1\xbf", b"\xc2", b"\xe0\x80\x80", b"\xe0\x9f\xbf", b"\xe2\x82", b"\xed\xa0\x80", b"\xed\xbf\xbf",
             b"\xf0\x80\x80\x80", b"\xf0\x81\x80\x80", b"\xf0\x8f\xbf\xbf", b"\xf0\x90\x80", b"\xf4\x90\x80\x80", b"\xf5\x80\x80\x80", b"\xf8\x88\x80\x80\x80",
             b"\xfe", b"\xff", b"\xef\xbf\xbe", b"\xef\xbf\xbf", b"\x01", b"\x1f", b"\x0b"]


def valid_text(rng, maxlen=12):
    """Mostly-valid YANG text drawn from a boundary-dense pool."""
    n = rng.randrange(0, maxlen + 1)
    out = b""
    for _ in range(n):
        r = rng.random()
        if r < 0.35:
            out += rng.choice(ASCII_WORDS).encode()
        elif r < 0.7:
            out += enc_cp(rng.choice(EDGE_CPS))
        elif r < 0.9:
            out += bytes([rng.randrange(0x20, 0x7F)])
        else:
            out += enc_cp(rng.randrange(0x80, 0x110000))
    return out.replace(b"\x00", b"")


def any_text(rng, maxlen=10):
    """valid_text with a malformed chunk spliced in somewhere (the malformed stream)."""
    s = valid_text(rng, maxlen)
    k = rng.randrange(0, len(s) + 1)
    return s[:k] + rng.choice(MALFORMED) + s[k:]


def is_yang_text(b):
    """Reference predicate, written from RFC 7950 §14 `yang-char` (NOT from libyang): well-formed
    shortest-form UTF-8 of code points in %x09 / %x0A / %x0D / %x20-D7FF / %xE000-FDCF / %xFDF0-FFFD / planes 1-16
    except xFFFE/xFFFF of each plane."""
    try:
        s = b.decode("utf-8")
    except UnicodeDecodeError:
        return False
    for ch in s:
        c = ord(ch)
        ok = c in (9, 10, 13) or 0x20 <= c <= 0xD7FF or 0xE000 <= c <= 0xFDCF or 0xFDF0 <= c <= 0xFFFD or \
            (0x10000 <= c <= 0x10FFFF and (c & 0xFFFF) < 0xFFFE)
        if not ok:
            return False
    return True
