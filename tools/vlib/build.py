"""Build /repo's *current working tree* with sanitizers, and the harness executables against it.

One incremental build directory per sanitizer configuration under $VERIF_BUILD (outside /repo,
/verif and /tmp).  Ninja decides what to recompile; a content manifest guards against files that
changed without a newer mtime (then the directory is wiped and rebuilt from scratch).
"""
import fcntl, hashlib, json, os, shutil, subprocess, sys, time
from . import paths

CONFIGS = {
    "asan": "-O1 -g -fno-omit-frame-pointer -fsanitize=address,undefined -fno-sanitize-recover=all",
    "tsan": "-O1 -g -fno-omit-frame-pointer -fsanitize=thread",
    "plain": "-O1 -g",
}
WATCH = ["src", "compat", "models", "tools", "CMakeLists.txt", "CMakeModules"]


def tree_manifest():
    man = {}
    for w in WATCH:
        p = os.path.join(paths.REPO, w)
        if os.path.isfile(p):
            man[w] = hashlib.sha1(open(p, "rb").read()).hexdigest()
            continue
        for root, dirs, files in os.walk(p):
            dirs.sort()
            for f in sorted(files):
                fp = os.path.join(root, f)
                try:
                    man[os.path.relpath(fp, paths.REPO)] = hashlib.sha1(open(fp, "rb").read()).hexdigest()
                except OSError:
                    pass
    return man


def manifest_hash(man):
    h = hashlib.sha1()
    for k in sorted(man):
        h.update(k.encode()); h.update(man[k].encode())
    return h.hexdigest()[:16]


class Lock:
    def __init__(self, name):
        os.makedirs(paths.BUILD, exist_ok=True)
        self.path = os.path.join(paths.BUILD, name + ".lock")
    def __enter__(self):
        self.f = open(self.path, "w")
        fcntl.flock(self.f, fcntl.LOCK_EX)
        return self
    def __exit__(self, *a):
        fcntl.flock(self.f, fcntl.LOCK_UN)
        self.f.close()


def _run(cmd, cwd=None, log=None):
    p = subprocess.run(cmd, cwd=cwd, stdout=subprocess.PIPE, stderr=subprocess.STDOUT, text=True)
    if log is not None:
        log.append(p.stdout)
    return p.returncode, p.stdout


def cflags(config):
    return CONFIGS[config] + " -D" + paths.GUARD


def libyang(config="asan", verbose=False):
    """Returns (builddir, treehash). Raises RuntimeError when the tree does not build."""
    bdir = os.path.join(paths.BUILD, config)
    man = tree_manifest()
    th = manifest_hash(man)
    with Lock(config):
        stamp = os.path.join(bdir, ".verif-manifest.json")
        old = None
        if os.path.exists(stamp):
            try:
                old = json.load(open(stamp))
            except Exception:
                old = None
        if old is not None and old.get("hash") == th and os.path.exists(os.path.join(bdir, "libyang.a")):
            return bdir, th
        for attempt in (0, 1):
            if old is None or attempt == 1:
                shutil.rmtree(bdir, ignore_errors=True)
            if not os.path.exists(os.path.join(bdir, "build.ninja")):
                os.makedirs(bdir, exist_ok=True)
                rc, out = _run(["cmake", "-S", paths.REPO, "-B", bdir, "-G", "Ninja",
                                "-DCMAKE_BUILD_TYPE=RelWithDebInfo", "-DCMAKE_C_COMPILER=clang-14",
                                "-DCMAKE_C_FLAGS=" + cflags(config),
                                "-DBUILD_SHARED_LIBS=OFF", "-DENABLE_TESTS=OFF", "-DENABLE_TOOLS=ON",
                                "-DENABLE_VALGRIND_TESTS=OFF", "-DENABLE_COMMON_TARGETS=OFF"])
                if rc != 0:
                    raise RuntimeError("cmake configure failed:\n" + out[-4000:])
            rc, out = _run(["cmake", "--build", bdir, "-j", "16"])
            if rc != 0:
                if attempt == 0 and old is not None:
                    continue
                raise RuntimeError("libyang build failed:\n" + out[-6000:])
            changed = old is not None and any(old["files"].get(k) != v for k, v in man.items()
                                               if k.endswith((".c", ".h")))
            if attempt == 0 and changed and "no work to do" in out:
                continue  # stale mtimes: rebuild from scratch
            break
        json.dump({"hash": th, "files": man}, open(stamp, "w"))
        # harness binaries are per tree state (the tree hash is part of their name); stale ones are removed by age in harness(),
        # not here: a check still running against the previous tree state may be about to exec one
        return bdir, th


def include_flags(bdir):
    dirs = [bdir, bdir + "/libyang", bdir + "/compat", paths.REPO + "/src", paths.REPO + "/compat",
            paths.REPO + "/src/plugins_exts", paths.REPO + "/src/plugins_types", paths.HARNESS]
    return ["-I" + d for d in dirs]


def harness(name, config="asan", extra=None):
    """Compile harness/<name>.c against the current libyang.a; returns the executable path."""
    bdir, th = libyang(config)
    src = os.path.join(paths.HARNESS, name + ".c")
    hdrs = [os.path.join(paths.HARNESS, f) for f in sorted(os.listdir(paths.HARNESS)) if f.endswith(".h")]
    h = hashlib.sha1(open(src, "rb").read())
    for x in hdrs:
        h.update(open(x, "rb").read())
    h.update(th.encode()); h.update(" ".join(extra or []).encode())
    tag = h.hexdigest()[:12]
    hb = os.path.join(bdir, "hbin")
    exe = os.path.join(hb, name + "-" + tag)
    with Lock(config + "-h-" + name):
        if os.path.exists(exe):
            return exe
        os.makedirs(hb, exist_ok=True)
        for old in os.listdir(hb):
            if old.startswith(name + "-"):
                try:
                    if time.time() - os.path.getmtime(os.path.join(hb, old)) > 5400:
                        os.unlink(os.path.join(hb, old))
                except OSError: pass
        cmd = (["clang-14"] + cflags(config).split() + ["-Wno-everything", "-D_GNU_SOURCE", "-DNDEBUG"]
               + include_flags(bdir) + [src, os.path.join(bdir, "libyang.a")] + (extra or [])
               + ["-lpcre2-8", "-lpthread", "-lm", "-ldl", "-o", exe + ".tmp"])
        rc, out = _run(cmd)
        if rc != 0:
            raise RuntimeError("harness %s failed to build:\n%s" % (name, out[-6000:]))
        os.rename(exe + ".tmp", exe)
    return exe


def tool(name, config="asan"):
    bdir, _ = libyang(config)
    return os.path.join(bdir, name)


if __name__ == "__main__":
    t = time.time()
    print(libyang(sys.argv[1] if len(sys.argv) > 1 else "asan"), "%.1fs" % (time.time() - t))
