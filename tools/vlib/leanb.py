"""Lean side: regenerate Generated/, build the property's modules and the driver, audit axioms."""
import fcntl, os, re, subprocess, sys, time
from . import paths

ALLOWED_AXIOMS = {"propext", "Classical.choice", "Quot.sound"}
FORBIDDEN = re.compile(r"\bsorry\b|\badmit\b|^\s*axiom\s|native_decide|bv_decide|implemented_by|\bunsafe\s|maxHeartbeats\s+0\b|ofReduceBool")


class LeanLock:
    def __enter__(self):
        self.f = open(os.path.join(paths.LEAN, ".verif-lake.lock"), "w")
        fcntl.flock(self.f, fcntl.LOCK_EX)
    def __exit__(self, *a):
        fcntl.flock(self.f, fcntl.LOCK_UN); self.f.close()


def _run(cmd, timeout=3600):
    p = subprocess.run(cmd, cwd=paths.LEAN, stdout=subprocess.PIPE, stderr=subprocess.STDOUT, text=True, timeout=timeout)
    return p.returncode, p.stdout


def extract():
    """Run the translator; returns its report dict."""
    sys.path.insert(0, os.path.join(paths.VERIF, "tools"))
    import extract as ex
    return ex.main(quiet=True)


def build(targets):
    """lake build the given module targets (+ driver). Returns (ok, log, failed_decls)."""
    with LeanLock():
        rc, out = _run(["lake", "build"] + targets)
    failed = []
    if rc != 0:
        # "error: LyModel/Props/C01.lean:12:8: ..." -> find enclosing declaration names
        for m in re.finditer(r"error: ([\w/\.]+\.lean):(\d+):(\d+)", out):
            f, ln = m.group(1), int(m.group(2))
            failed.append(decl_at(os.path.join(paths.LEAN, f), ln) or "%s:%d" % (f, ln))
    return rc == 0, out, sorted(set(failed))


def decl_at(path, line):
    try:
        lines = open(path).read().split("\n")
    except OSError:
        return None
    ns = []
    name = None
    for i, l in enumerate(lines[:line]):
        m = re.match(r"\s*namespace\s+(\S+)", l)
        if m: ns.append(m.group(1))
        m = re.match(r"\s*end\s+(\S+)", l)
        if m and ns and ns[-1] == m.group(1): ns.pop()
        m = re.match(r"\s*(?:@\[[^\]]*\]\s*)?(?:private\s+|protected\s+)?(?:theorem|lemma|def|instance|example|abbrev)\s+([^\s:(\[{]+)", l)
        if m: name = ".".join(ns + [m.group(1)])
    return name


def restore_committed_generated():
    """Write the COMMITTED version of every Generated/*.lean file back (the tables of the unchanged tree the proofs were last
    checked against). Used only to keep the search for a failing input going when the regenerated files no longer build."""
    rel = os.path.relpath(os.path.join(paths.LEAN, "LyModel", "Generated"), paths.VERIF)
    ls = subprocess.run(["git", "-C", paths.VERIF, "ls-files", rel], stdout=subprocess.PIPE, text=True).stdout.split()
    restored = []
    for f in ls:
        want = subprocess.run(["git", "-C", paths.VERIF, "show", "HEAD:" + f], stdout=subprocess.PIPE, text=True)
        if want.returncode != 0:
            continue
        full = os.path.join(paths.VERIF, f)
        try:
            have = open(full).read()
        except OSError:
            have = None
        if have != want.stdout:
            open(full, "w").write(want.stdout)
            restored.append(os.path.basename(f))
    return restored


def driver():
    with LeanLock():
        rc, out = _run(["lake", "build", "lydrv"])
    if rc != 0:
        raise RuntimeError("lydrv failed to build:\n" + out[-6000:])
    return os.path.join(paths.LEAN, ".lake", "build", "bin", "lydrv")


def audit(audit_file):
    """Runs `lake env lean Audit/Cxx.lean`; returns list of (theorem, [axioms]) and raw output.

    Audit files consist of `#print axioms <name>` lines (and imports)."""
    if isinstance(audit_file, (list, tuple)):          # several audit files of one property (e.g. Audit/C05.lean + Audit/C05Fn.lean)
        rc, res, wanted, out = 0, [], [], ""
        for f in audit_file:
            r1, s1, w1, o1 = audit(f)
            rc, res, wanted, out = rc or r1, res + s1, wanted + w1, out + o1
        return rc, res, wanted, out
    with LeanLock():
        rc, out = _run(["lake", "env", "lean", audit_file])
    res = []
    # "'LyModel.Foo.bar' depends on axioms: [propext, Quot.sound]" (may wrap lines) or
    # "'LyModel.Foo.bar' does not depend on any axioms"
    flat = re.sub(r"\s+", " ", out)
    for m in re.finditer(r"'([^' ]+'*)' (does not depend on any axioms|depends on axioms: \[([^\]]*)\])", flat):
        axs = [a.strip() for a in (m.group(3) or "").split(",") if a.strip()]
        res.append((m.group(1), axs))
    wanted = re.findall(r"^#print axioms\s+(\S+)", open(os.path.join(paths.LEAN, audit_file)).read(), re.M)
    return rc, res, wanted, out


def strip_comments(src):
    # remove /- ... -/ (nested not handled beyond one level) and -- ... line comments
    out = []
    i, n, depth = 0, len(src), 0
    while i < n:
        if src.startswith("/-", i):
            depth += 1; i += 2; continue
        if depth and src.startswith("-/", i):
            depth -= 1; i += 2; continue
        if depth:
            if src[i] == "\n": out.append("\n")
            i += 1; continue
        if src.startswith("--", i):
            while i < n and src[i] != "\n": i += 1
            continue
        if src[i] == '"':
            j = i + 1
            while j < n and src[j] != '"':
                j += 2 if src[j] == "\\" else 1
            out.append('""'); i = j + 1; continue
        out.append(src[i]); i += 1
    return "".join(out)


def grep_forbidden():
    hits = []
    for root, dirs, files in os.walk(paths.LEAN):
        if ".lake" in root: continue
        for f in files:
            if not f.endswith(".lean"): continue
            p = os.path.join(root, f)
            code = strip_comments(open(p).read())
            for ln, l in enumerate(code.split("\n"), 1):
                if FORBIDDEN.search(l):
                    hits.append("%s:%d: %s" % (os.path.relpath(p, paths.LEAN), ln, l.strip()[:120]))
    return hits


def leanchecker(module):
    with LeanLock():
        rc, out = _run(["lake", "env", "leanchecker", module], timeout=1800)
    return rc == 0, out
