"""C10 — printed schemas are faithful: YANG and YIN output re-parse to the same module."""
import os, re
from checks import yangstrcomp, c10gen, yincomp
from vlib import paths
from vlib.proto import hexs, unhex

LEAN_TARGETS = ["LyModel.Props.C10", "LyModel.Props.C10Yin"]
AUDIT = "Audit/C10.lean"
GENERATED = ["YangStr", "YinArgs", "YinCard"]
ASSUMPTIONS = [
    "DESIGN.md §5 C10: (P) string side proved on the model (ypr_encode/ypr_text/yprp_stmt vs read_qstring/get_argument/get_keyword/parse_ext_substmt); "
    "whole-module faithfulness (every statement printer, YIN printer/parser, compiled and tree printers) is (L): laws evaluated on the implementation",
    "strings are C strings without NUL; pctx->level < 65535 (LEVEL++ wraps a uint16_t); parser depth <= LY_MAX_BLOCK_DEPTH",
    "single-line ypr_text statements carry YANG keywords (where the lexer's column counter is exact); extension keywords over-count it",
    "api_schema runs with detect_leaks=0: a failed YIN parse leaks parsed statements (reported to the owner of F21)",
]
TRUSTED = ["harness/wb_yang.c, harness/wb_yin.c and harness/api_schema.c", "tools/extractors/yin.py (lys_stmt_str/arg/flags, yin_parse_extension_instance_arg switch, yin_match_argument_name, xml.h character classes)", "tools/extractors/yangstr.py (escape switches, is_yangutf8char ranges, keyword trie, constants)",
           "classification predicates in tools/checks/c10.py and tools/checks/yangstrcomp.py"]

API = "api_schema"
# a failed YIN parse leaks parsed statements (seen with F20 documents; a C17 matter, noted in findings.d): leak reports at exit
# would otherwise turn every such run into a harness crash
API_ENV = {"ASAN_OPTIONS": "detect_leaks=0:print_legend=0:abort_on_error=0:exitcode=97:allocator_may_return_null=1:detect_stack_use_after_return=0:max_allocation_size_mb=2048"}
RT_LAWS = ["yang_parse", "yang_compiled", "yang_reprint", "yang_sub", "yin_parse", "yin_compiled", "yin_sub"]


def searchdirs():
    return (paths.REPO + "/models:" + paths.REPO + "/tests/modules/yang").encode()


def real_modules():
    out = []
    for d in ("models", "tests/modules/yang"):
        p = os.path.join(paths.REPO, d)
        for f in sorted(os.listdir(p)):
            if f.endswith(".yang"):
                out.append((d + "/" + f, open(os.path.join(p, f), "rb").read()))
    return out


EXT_LINE = re.compile(rb"^\s*[A-Za-z_][\w.-]*:[A-Za-z_][\w.-]*( |;|$)")


def line_pairs(y1, y2):
    """differing line pairs of two texts with the same number of lines, else None"""
    a, b = y1.split(b"\n"), y2.split(b"\n")
    if len(a) != len(b):
        return None
    return [(x, y) for x, y in zip(a, b) if x != y]


def explain_pair(x, y):
    """which listed defect turns printed line x into re-printed line y"""
    if b"\r" in x and x.replace(b"\r", b"") == y:
        return "F82"          # CR LF inside a double-quoted string is read as LF
    if y == x.rstrip(b" "):
        return "F5"           # blanks before the newline are stripped by the lexer
    if x.lstrip(b" ") == y.lstrip(b" "):
        # continuation line of a multi-line string: F35 loses leading blanks, F83 gains the printer's indentation
        return "F35" if len(y) < len(x) else "F83"
    return None


def explain_text_diff(y1, y2):
    """set of findings that explain every differing line, or None if some line is not explained"""
    pairs = line_pairs(y1, y2)
    if pairs is None or not pairs:
        return None
    out = set()
    for x, y in pairs:
        e = explain_pair(x, y)
        if e is None:
            return None
        out.add(e)
    return out


def compiled_diff(msgs, tag):
    """(context line, line of the original, line of the re-parsed module) at the first difference of the compiled prints"""
    ls = [l[len(tag) + 3:] for l in msgs.split(b"\n") if l.startswith(b"[" + tag + b"] ")]
    if len(ls) < 3:
        return None
    return ls[0], ls[1], ls[2]


def explain_compiled(msgs, tag):
    d = compiled_diff(msgs, tag)
    if d is None:
        return None
    ctx, a, b = (x[1:] if x[:1] in b" -+" else x for x in d)
    if EXT_LINE.match(a) and a.endswith(b" {") and b == a[:-2] + b";":
        return "F86"          # the nested extension instance is gone
    if tag == b"yin_compiled" and a.endswith(b"\";") and b == a[:-1] + b" {" and not EXT_LINE.match(a):
        return "F92"          # the extension instances of a later default now sit under the first default
    if re.match(rb"^\s*bit ", ctx) and (EXT_LINE.match(a) or EXT_LINE.match(b)):
        return "F91"          # extension instances of `bit` are not printed
    if EXT_LINE.match(a) or EXT_LINE.match(b) or (a.endswith(b" {") and b == a[:-2] + b";") or (b.endswith(b" {") and a == b[:-2] + b";"):
        # the compiled printer stops at the first instance that belongs to another substatement: an instance (or the block of the
        # substatement that holds it) is in one compiled print and not in the other
        return "F89"
    return None


def explain_yin_parse(msgs, yin):
    first = [l for l in msgs.split(b"\n") if l.startswith(b"[yin_parse] ") and b"should be avoided" not in l]
    m = first[0][len(b"[yin_parse] "):] if first else b""
    if m.startswith(b"Extension instance") and b"missing argument element" in m and re.search(rb"<([\w.-]+:[\w.-]+)>[ \t\r\n]*</\1>", yin):
        return "F36"
    if b"must be defined as it's first sub-element" in m and re.search(rb"<(description|reference|contact|organization|error-message)>\s*<[\w.-]+:", yin):
        return "F88"
    if re.search(rb"<(description|reference|contact|organization|error-message)/>\s*<(text|value)>", yin):
        return "F20"
    if re.search(rb"<if-feature name=\"[^\"]*>\n", yin):
        return "F87"
    return None


def classify(component, what, case):
    if component == yangstrcomp.COMP:
        return yangstrcomp.classify(component, what, case)
    if component == yincomp.COMP:
        return yincomp.classify(component, what, case)
    if case.get("crash"):
        err = case.get("stderr", "")
        if "tro_ext_printer_tree" in err and "printer_tree.c" in err:
            return "F84"
        if "yprc_choice" in err and "heap-use-after-free" in err:
            return "F90"
        if "lysp_resolve_ext_instance_records" in err and "use-after-free" in err and "tree_schema.c" in err:
            return "F94"
        return None
    return case.get("explained_by") if case.get("explained_by") in recompute(case) else None


def recompute(case):
    """the classification predicate proper: findings that the recorded symptoms of this failing law are an instance of"""
    law = case.get("law")
    msgs, yin = unhex(case.get("msgs_hex", "-")), unhex(case.get("yin_hex", "-"))
    pairs = [(unhex(a), unhex(b)) for a, b in case.get("diff_hex", [])]
    out = set()
    if law == "yang_parse" and b"[yang_parse] Invalid character 0xd." in msgs and case.get("y1_has_cr"):
        out.add("F82")
    if law in ("yang_reprint", "yang_compiled", "yang_sub", "yin_relex", "yin_compiled") and pairs and case.get("diff_complete"):
        ex = [explain_pair(a, b) for a, b in pairs]
        if None not in ex:
            out |= set(ex)
    if law in ("yang_compiled", "yin_compiled"):
        e = explain_compiled(msgs, law.encode())
        if e:
            out.add(e)
    if law == "yin_parse":
        e = explain_yin_parse(msgs, yin)
        if e:
            out.add(e)
    if law == "yin_relex" and case.get("relex") in ("F82", "F83", "F86", "F92", "F93", "F95"):
        out.add(case["relex"])
    return out


def run(cx):
    yangstrcomp.run_strings(cx)
    yincomp.run_yin(cx)
    run_modules(cx)
    yincomp.run_card(cx)


def replay(cx, payload):
    """re-evaluate the failing input of a replay file: a module through api_schema, a string-level case through wb_yang and the model"""
    case = payload.get("failure", {}).get("case", {})
    if "module_hex" in case and case["module_hex"] not in ("-",) and not case["module_hex"].startswith("("):
        m = {"name": case.get("module", "replay").encode(), "cls": "replay", "text": unhex(case["module_hex"]),
             "deps": [(unhex(n), unhex(t)) for n, t in case.get("deps_hex", [])], "risk_used": False}
        dirs = hexs(searchdirs())
        deps = " ".join(hexs(n) + " " + hexs(t) for n, t in m["deps"])
        lines = [("0 schema roundtrip %s %s %s" % (dirs, hexs(m["text"]), deps)).rstrip(),
                 ("1 schema determinism %s %s %s" % (dirs, hexs(m["text"]), deps)).rstrip()]
        rr = cx.run_impl(API, lines, env=API_ENV, component=API)
        r = rr.get("0", ["err", "NoReply"])
        lex = []
        if r[0] == "ok":
            lex = ["%d %s stmts %s" % (i, yangstrcomp.COMP, r[f]) for i, f in enumerate((8, 11)) if r[f] != "-"]
        li, _ = cx.differential(yangstrcomp.COMP, lex, yangstrcomp.HARNESS)
        judge(cx, m, r, rr.get("1", ["err", "NoReply"]), li.get("0"), li.get("1") if len(lex) > 1 else None)
    elif "request" in case or "text_hex" in case:
        reqs = []
        if "request" in case:
            reqs.append(case["request"])
        if case.get("law") == "text":
            reqs.append("yprtext %d %d %d %s %s" % (case["fmt"], case["level"], case["flags"], case["name_hex"], case["text_hex"]))
            reqs.append("stmts " + hexs(unhex(case["printed_hex"]) + b";\n"))
        elif case.get("law") == "encode":
            reqs.append("encode " + case["text_hex"])
            reqs.append("getarg 0 4 " + hexs(b"\"" + unhex(case["printed_hex"]) + b"\";"))
        cx.differential(yangstrcomp.COMP, ["%d %s %s" % (i, yangstrcomp.COMP, q) for i, q in enumerate(reqs)], yangstrcomp.HARNESS)
        cx.notes.append("replayed requests: %r" % (reqs,))
    elif payload.get("kind") == "correspondence-broken":
        lines = [x["line"] for x in payload.get("first", [])]
        cx.differential(yangstrcomp.COMP, lines, yangstrcomp.HARNESS)


def run_modules(cx):
    rng = cx.sub_rng("c10-modules")
    dirs = hexs(searchdirs())
    mods = []
    for name, text in real_modules():
        if text.lstrip().startswith(b"submodule"):
            continue
        mods.append({"name": name.encode(), "cls": "real", "text": text, "deps": [], "risk_used": False})
    mods.append({"name": b"@yang", "cls": "real", "text": b"@yang", "deps": [], "risk_used": False})
    # corpus: the witness modules of the listed findings (and minimised past failures), always run
    cdir = os.path.join(paths.CORPUS, "yangstr")
    for f in sorted(os.listdir(cdir)) if os.path.isdir(cdir) else []:
        if f.endswith(".yang"):
            mods.append({"name": ("corpus/" + f).encode(), "cls": "corpus", "text": open(os.path.join(cdir, f), "rb").read(), "deps": [], "risk_used": True})
    n = cx.n(150, 4000)
    for i in range(n):
        cls = "safe" if i % 2 == 0 else c10gen.CLASSES[1 + (i // 2) % (len(c10gen.CLASSES) - 1)]
        mods.append(c10gen.gen_module(rng, i, cls))
    cx.rule("c10 modules: every real module under models/ and tests/modules/yang plus the internal `yang` module, and generated YANG 1.1 modules "
            "(all statement kinds of the parsed-schema printers, arguments from the string pool in random source spellings, imports, a submodule, "
            "deviations/augments of a dependency): half of class `safe` (every law must hold), the others with one construct of a listed finding each; "
            "non-trivial = distinct (module, law) with the law evaluated")
    lines = []
    for i, m in enumerate(mods):
        deps = " ".join(hexs(n) + " " + hexs(t) for n, t in m["deps"])
        lines.append(("%d schema roundtrip %s %s %s" % (2 * i, dirs, hexs(m["text"]), deps)).rstrip())
        lines.append(("%d schema determinism %s %s %s" % (2 * i + 1, dirs, hexs(m["text"]), deps)).rstrip())
    rr = cx.run_impl(API, lines, env=API_ENV, component=API)
    cx._c10_mods, cx._c10_rr = mods, rr
    # the printed modules through the real lexer and the model (correspondence on whole modules), and the YIN-path comparison
    # "after re-lexing the arguments" on the resulting statement trees
    lex_lines, lex_ix = [], {}
    for i, m in enumerate(mods):
        r = rr.get(str(2 * i), ["err", "NoReply"])
        if r[0] == "ok":
            for k, f in (("y1", 8), ("y3", 11)):
                if r[f] != "-":
                    lex_ix[(i, k)] = str(len(lex_lines))
                    lex_lines.append("%d %s stmts %s" % (len(lex_lines), yangstrcomp.COMP, r[f]))
    li, _ = cx.differential(yangstrcomp.COMP, lex_lines, yangstrcomp.HARNESS, kind=lambda l, a: "yangstr:stmts-module:" + (a[2] if a[0] == "ok" else a[1]))
    for i, m in enumerate(mods):
        r = rr.get(str(2 * i), ["err", "NoReply"])
        d = rr.get(str(2 * i + 1), ["err", "NoReply"])
        judge(cx, m, r, d, li.get(lex_ix.get((i, "y1"))), li.get(lex_ix.get((i, "y3"))))


def strip_flags(tr):
    return [(kw, arg, strip_flags(kids)) for kw, arg, fl, kids in tr]


def judge(cx, m, r, d, lex1, lex3):
    name = m["name"].decode()
    base = {"module": name, "class": m["cls"], "module_hex": hexs(m["text"]) if len(m["text"]) < 20000 else "(real module, see name)",
            "deps_hex": [[hexs(n), hexs(t)] for n, t in m["deps"]]}
    if r[0] == "err":
        if r[1] == "Load":
            cx.count(("load", name), False, "c10:module:not-loadable")
            if m["cls"] != "real":
                cx.notes.append("generated module %s (%s) does not load: %s" % (name, m["cls"], unhex(r[2]).decode("utf-8", "replace")[-300:]))
        return
    laws = dict(x.split("=") for x in r[1:8])
    y1, y2, yin, y3, msgs = (unhex(x) for x in r[8:13])

    def fail(law, what, extra, explained):
        """one failure per finding that explains it (or one unexplained failure)"""
        case = dict(base)
        case.update({"law": law, "msgs_hex": hexs(msgs[-3000:])})
        case.update(extra)
        for e in (sorted(explained) if explained else [None]):
            c = dict(case)
            c["explained_by"] = e
            cx.fail(API, "%s: %s" % (law, what), c)

    def diff_extra(a, b):
        pairs = line_pairs(a, b)
        return {"diff_hex": [[hexs(x), hexs(y)] for x, y in (pairs or [])[:40]], "diff_complete": pairs is not None and len(pairs) <= 40}

    for law in RT_LAWS:
        v = laws.get(law, "x")
        if v == "x":
            continue
        cx.count(("law", name, m["cls"], law, m["text"]), True, "c10:%s:%s" % (law, "holds" if v == "1" else "fails"))
        if v == "1":
            continue
        if law == "yang_parse":
            extra = {"y1_has_cr": b"\r" in y1, "y1_hex": hexs(y1) if len(y1) < 20000 else "-"}
            case = dict(base); case.update({"law": law, "msgs_hex": hexs(msgs[-3000:])}); case.update(extra)
            fail(law, "libyang rejects its own YANG output", extra, recompute(case))
        elif law in ("yang_reprint", "yang_sub"):
            extra = diff_extra(y1, y2)
            case = dict(base); case.update({"law": law, "msgs_hex": hexs(msgs[-3000:])}); case.update(extra)
            fail(law, "the second YANG print differs from the first", extra, recompute(case))
        elif law in ("yang_compiled", "yin_compiled"):
            other = y2 if law == "yang_compiled" else y3
            # (y1 and y2 carry the printed submodules too)
            extra = diff_extra(y1, other) if (law == "yang_compiled" and y1 != y2) else {}
            case = dict(base); case.update({"law": law, "msgs_hex": hexs(msgs[-3000:])}); case.update(extra)
            fail(law, "the re-parsed module compiles to a different schema", extra, recompute(case))
        elif law == "yin_parse":
            extra = {"yin_hex": hexs(yin) if len(yin) < 60000 else hexs(yin[:60000])}
            case = dict(base); case.update({"law": law, "msgs_hex": hexs(msgs[-3000:])}); case.update(extra)
            fail(law, "libyang rejects its own YIN output", extra, recompute(case))
        else:
            fail(law, "printed submodules do not reproduce", {}, set())
    # YIN path: the re-printed YANG equals the first YANG print after re-lexing the arguments (quoting style is not carried by YIN)
    if laws.get("yin_parse") == "1" and lex1 and lex3:
        t1 = yangstrcomp.parse_ser(lex1[1]) if lex1[0] == "ok" and lex1[2] == "Eof" else None
        # (an unterminated quote swallows the rest of the text: nothing is read, and the loop ends with Eof all the same)
        t3 = yangstrcomp.parse_ser(lex3[1]) if lex3[0] == "ok" and lex3[2] == "Eof" and lex3[1] != "-" else None
        ok = t1 is not None and t3 is not None and strip_flags(t1) == strip_flags(t3)
        cx.count(("law", name, m["cls"], "yin_relex", m["text"]), True, "c10:yin_relex:%s" % ("holds" if ok else "fails"))
        if not ok:
            relex = None
            if (t1 is None or t3 is None) and "InChar" in (lex1[1:3] + lex3[1:3]) and (b"\r" in y1 or b"\r" in y3):
                relex = "F82"       # a printed CR inside double quotes does not lex
            elif t1 is not None and t3 is None:
                relex = "F86" if nested_ext(t1) else "F93" if quoted_sub_in_ext(t1) else None
            elif t1 is not None:
                dd = yangstrcomp.tree_diff(strip3(t1), strip3(t3))
                relex = relex_finding(t1, t3, dd, b"\r" in yin)
            extra = {"relex": relex, "first_diff": repr(yangstrcomp.tree_diff(strip3(t1), strip3(t3)))[:400] if t1 is not None and t3 is not None else lex3[:1] + lex3[2:3]}
            case = dict(base); case.update({"law": "yin_relex"}); case.update(extra)
            fail("yin_relex", "the YANG print of the module re-parsed from YIN differs from the first YANG print beyond quoting style", extra, recompute(case))
    # determinism laws
    if d[0] == "ok":
        dl = dict(x.split("=") for x in d[1:5])
        for law, v in dl.items():
            if v == "x":
                continue
            cx.count(("law", name, m["cls"], law, m["text"]), True, "c10:%s:%s" % (law, "holds" if v == "1" else "fails"))
            if v == "0":
                case = dict(base); case.update({"law": law, "msgs_hex": d[5] if len(d) > 5 else "-", "explained_by": None})
                cx.fail(API, "%s: compiled / tree-diagram output is not a deterministic function of the module" % law, case)


def strip3(tr):
    return [(kw, arg, 0, strip3(kids)) for kw, arg, fl, kids in tr]


def node_at(tr, path):
    n = None
    for i in path:
        if i >= len(tr):
            return n
        n = tr[i]
        tr = n[3]
    return n


def relex_finding(t1, t3, dd, yin_has_cr=False):
    """YIN-path differences of the statement trees: F92 (extension instances of the n-th `default` moved to the first),
    F93 (statements inside an extension instance printed without quotes)"""
    if dd is None:
        return None
    path = dd[0]
    n1 = node_at(t1, path)
    if dd[1] == "arg" and dd[2][1] is not None and dd[3][1] is not None and b"\r" in dd[2][1] and \
            re.sub(rb"\n +", b"\n", dd[2][1].replace(b"\r", b"")) == re.sub(rb"\n +", b"\n", dd[3][1].replace(b"\r", b"")):
        # F95 (the CR went through YIN raw and the XML reader folded CR LF into LF) only if the YIN text really holds a raw CR; since
        # lyxml_dump_text writes &#xD; (fix f9c2737) the CR survives YIN, and the difference comes from re-lexing the YANG print of the
        # re-read module, whose double-quoted raw CR LF the YANG lexer folds: F82
        return "F95" if yin_has_cr else "F82"
    if dd[1] == "arg" and n1 is not None and n1[2] & yangstrcomp.LYS_SINGLEQUOTED and dd[3][1] is not None and b"\n" in dd[3][1] and \
            re.sub(rb"\n +", b"\n", dd[2][1] or b"") == re.sub(rb"\n +", b"\n", dd[3][1]):
        return "F83"            # the first YANG print, single-quoted, already carries inserted indentation
    # ancestors (and the node) in the original tree
    anc, tr = [], t1
    for i in path:
        if i >= len(tr):
            break
        anc.append(tr[i]); tr = tr[i][3]
    if any(b":" in a[0] for a in anc[:-1]) or (anc and b":" in anc[-1][0] and dd[1] in ("count",)):
        return "F86" if nested_ext(anc[:1]) else "F93"
    if anc and anc[-1][0] == b"default" and dd[1] == "count":
        return "F92"
    if dd[1] == "count" and anc and any(k[0] == b"default" for k in anc[-1][3]):
        return "F92"
    return None


def nested_ext(tr, inside=False):
    """an extension instance inside an extension instance (the YIN parser reads it as a generic statement: F86, YIN part)"""
    for kw, arg, fl, kids in tr:
        if inside and b":" in kw:
            return True
        if nested_ext(kids, inside or b":" in kw):
            return True
    return False


def quoted_sub_in_ext(tr, inside=False):
    """does the tree of the first YANG print hold, inside an extension instance, a statement whose argument needs its quotes?"""
    for kw, arg, fl, kids in tr:
        if inside and fl and arg is not None and not yangstrcomp.unquoted_ok(arg):
            return True
        if quoted_sub_in_ext(kids, inside or b":" in kw):
            return True
    return False
