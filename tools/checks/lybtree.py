"""C01, LYB tree level: the model of the node walk of printer_lyb.c / parser_lyb.c (lean/LyModel/Lyb/Tree.lean) against libyang.

For every generated (schema, tree, with-defaults mode):
  1. harness `print`   : libyang builds the tree, lyd_print_all(LYD_LYB) -> bytes                  (harness/api_lybtree.c)
  2. model   `tprint`  : the model's byte image of the same tree                                     COMPARED BYTE FOR BYTE
  3. harness `parse`   : libyang parses the MODEL's bytes  -> dump == the expected view of the tree
  4. model   `tparse`  : the model parses LIBYANG's bytes  -> dump == what libyang's parser returns for them
  5. law: lyd_lyb_data_length(bytes) == len(bytes); parse(print t) == view(t) on libyang itself
Schemas: containers (presence / non-presence), keyed and key-less lists, leaf-lists, leaves, choices/cases, every term type `Val`
models + empty, defaults; module names >= 3 characters (F27) except the F27 witness; sibling sets of 2..140 nodes so that collision
ids > 0 occur; values at the type boundaries; string values and list populations that cross the chunk limit LYB_SIZE_MAX (read from
Generated/Consts.lean)."""
import os, re, string
from vlib import paths, treegen as tg
from vlib.proto import hexs, unhex
from checks import lybhash

API = "api_lybtree"
ENV = {"VERIF_YANG_DIR": os.path.join(paths.REPO, "tests", "modules", "yang")}
WDS = ["explicit", "trim", "all", "all-tag", "impl-tag"]
WD_REV = b"2011-06-01"
WD_META = "ietf-netconf-with-defaults:default"


def lyb_consts():
    txt = open(os.path.join(paths.LEAN, "LyModel", "Generated", "Consts.lean")).read()
    g = lambda n: int(re.search(r"def %s : Nat := (\d+)" % n, txt).group(1))
    return g("LYB_SIZE_MAX"), g("LYB_INCHUNK_MAX")


# ------------------------------------------------------------------------------------------ types
INT_BOUNDS = {"i8": (-2**7, 2**7 - 1), "i16": (-2**15, 2**15 - 1), "i32": (-2**31, 2**31 - 1), "i64": (-2**63, 2**63 - 1),
              "u8": (0, 2**8 - 1), "u16": (0, 2**16 - 1), "u32": (0, 2**32 - 1), "u64": (0, 2**64 - 1)}
INT_YANG = {"i8": "int8", "i16": "int16", "i32": "int32", "i64": "int64", "u8": "uint8", "u16": "uint16", "u32": "uint32", "u64": "uint64"}


def dec_canon(n, fd):
    s = "-" if n < 0 else ""
    a = abs(n)
    ip, fr = a // 10**fd, "%0*d" % (fd, a % 10**fd)
    fr = fr.rstrip("0") or "0"
    return ("%s%d.%s" % (s, ip, fr)).encode()


class LTy:
    """duck type of treegen.Ty: dsl() is the `Val` type token of the Lean driver, yang() the YANG type statement"""

    def __init__(self, kind, rng=None, **kw):
        self.kind = kind                      # i8.. u64 dN bool enum bits str empty
        self.name = kind
        self.range = kw.get("range")          # ints: [(lo, hi)]
        self.items = kw.get("items")          # enum: [(name, value)]  bits: [(name, pos)]
        self.fd = kw.get("fd")
        self.big = kw.get("big", [])          # extra string values (chunk-size sweeps)

    def dsl(self):
        k = self.kind
        if k in INT_BOUNDS:
            return k + (":" + ",".join("%d..%d" % p for p in self.range) if self.range else "")
        if k == "dec":
            return "d%d" % self.fd
        if k in ("enum", "bits"):
            return k + ":" + ",".join("%s=%d" % (n.encode().hex(), v) for n, v in self.items)
        return {"bool": "bool", "str": "str", "empty": "empty"}[k]

    def yang(self):
        k = self.kind
        if k in INT_BOUNDS:
            if self.range:
                return 'type %s { range "%s"; }' % (INT_YANG[k], " | ".join("%d..%d" % p for p in self.range))
            return "type %s;" % INT_YANG[k]
        if k == "dec":
            return "type decimal64 { fraction-digits %d; }" % self.fd
        if k == "enum":
            return "type enumeration { " + " ".join("enum %s { value %d; }" % it for it in self.items) + " }"
        if k == "bits":
            return "type bits { " + " ".join("bit %s { position %d; }" % it for it in self.items) + " }"
        return {"bool": "type boolean;", "str": "type string;", "empty": "type empty;"}[k]

    def pool(self, key=False):
        k = self.kind
        if k in INT_BOUNDS:
            lo, hi = INT_BOUNDS[k]
            if self.range:
                vals = set()
                for a, b in self.range:
                    vals |= {a, b, (a + b) // 2}
            else:
                vals = {lo, lo + 1, -1, 0, 1, 9, 10, 127, 128, 255, 256, 65535, 65536, hi - 1, hi}
            return [str(v).encode() for v in sorted(vals) if lo <= v <= hi]
        if k == "dec":
            lo, hi = -2**63, 2**63 - 1
            return [dec_canon(v, self.fd) for v in (lo, lo + 1, -10**self.fd, -15, -1, 0, 1, 5, 10**self.fd, 314159, hi - 1, hi)]
        if k == "bool":
            return [b"false", b"true"]
        if k == "enum":
            return [n.encode() for n, _ in self.items]
        if k == "bits":
            names = [n for n, _ in sorted(self.items, key=lambda it: it[1])]
            out = [] if key else [b""]
            out += [names[0].encode(), names[-1].encode(), " ".join(names).encode()]
            if len(names) > 2:
                out.append(" ".join(names[::2]).encode())
            return list(dict.fromkeys(out))
        if k == "str":
            base = list(tg.KEY_STR_POOL if key else tg.STR_POOL)
            return base + ([] if key else self.big)
        if k == "empty":
            return [b""]
        raise ValueError(k)

    def sortkey(self, v):
        return v


def rand_ty(rng, key=False, allow_empty=True):
    k = rng.choice(list(INT_BOUNDS) + ["dec", "dec", "bool", "enum", "enum", "bits", "str", "str", "str"] + (["empty"] if allow_empty and not key else []))
    if k in INT_BOUNDS:
        lo, hi = INT_BOUNDS[k]
        if rng.random() < 0.25:
            a = rng.randrange(lo, hi)
            b = rng.randrange(a, min(hi, a + 1000) + 1)
            parts = [(a, b)]
            if b + 2 < hi and rng.random() < 0.5:
                parts.append((b + 2, min(hi, b + 2 + rng.randrange(0, 50))))
            return LTy(k, range=parts)
        return LTy(k)
    if k == "dec":
        return LTy("dec", fd=rng.choice([1, 2, 5, 9, 18]))
    if k == "enum":
        names = rng.sample(["a", "bb", "c-c", "zero", "neg", "big", "x9", "mid"], rng.randrange(1, 6))
        vals = rng.sample([-2147483648, -3, -1, 0, 1, 5, 255, 256, 1000, 2147483647], len(names))
        return LTy("enum", items=list(zip(names, vals)))
    if k == "bits":
        names = rng.sample(["b0", "x", "yy", "z-z", "hi", "lo", "mid", "q", "r", "s7"], rng.randrange(1, 8))
        poss = sorted(rng.sample([0, 1, 2, 7, 8, 9, 15, 16, 31, 32, 33, 63, 64, 100], len(names)))
        return LTy("bits", items=list(zip(names, poss)))
    return LTy(k)


# ------------------------------------------------------------------------------------------ schemas
def ident(rng, used, lo=1, hi=6):
    while True:
        c = rng.choice(string.ascii_lowercase) + "".join(rng.choice(string.ascii_lowercase + string.digits + "-") for _ in range(rng.randrange(lo - 1, hi)))
        if c not in used and c not in ("input", "output"):
            used.add(c)
            return c


def gen_schema(rng, idx, nsib=None, depth=3, names=None, mod=None, big=None):
    """random schema; `nsib`: size of the biggest sibling set; `names`: forced names for that set (collision engineering)"""
    mod = mod or (rng.choice(["lyt", "mod", "tree", "s1m", "verif-lyb", "abc"]) + "%d" % idx)

    def leaf(used, config=True, key=False, name=None, ty=None):
        ty = ty or rand_ty(rng, key=key)
        n = tg.SNode("leaf", name or ident(rng, used), ty=ty, config=config, iskey=key)
        if not key and ty.kind != "empty" and rng.random() < 0.3:
            n.dflt = rng.choice([v for v in ty.pool() if len(v) < 40 and b'"' not in v and b"\n" not in v and b"\t" not in v and v == v.strip()] or [None])
            if ty.kind == "str" and not n.dflt:
                n.dflt = None
        return n

    def leaflist(used, config=True):
        ty = rand_ty(rng, allow_empty=False)
        n = tg.SNode("leaflist", ident(rng, used), ty=ty, config=config)
        n.userord = (not config) or rng.random() < 0.4
        if config and rng.random() < 0.3:
            pool = [v for v in ty.pool() if v and len(v) < 40 and b'"' not in v and b"\n" not in v and b"\t" not in v and v == v.strip()]
            if pool:
                n.dflts = rng.sample(pool, rng.randrange(1, min(3, len(pool)) + 1))
        return n

    def kids(d, config, count, in_case=False):
        used = set()
        out = []
        for _ in range(count):
            out.append(node(d, config, used, in_case))
        return out

    def node(d, config, used, in_case=False):
        r = rng.random()
        cfg = config and rng.random() > 0.1
        if d >= depth:
            r *= 0.45
        if r < 0.30:
            return leaf(used, cfg)
        if r < 0.45:
            return leaflist(used, cfg)
        if r < 0.62:
            return tg.SNode("container", ident(rng, used), presence=rng.random() < 0.4, config=cfg, kids=kids(d + 1, cfg, rng.randrange(1, 5)))
        if r < 0.88:
            keyless = (not cfg) and rng.random() < 0.5
            kused = set()
            keys = [] if keyless else [leaf(kused, cfg, key=True) for _ in range(rng.choice([1, 1, 2]))]
            n = tg.SNode("list", ident(rng, used), config=cfg, keys=[k.name for k in keys])
            n.userord = (not cfg) or rng.random() < 0.4
            n.kids = keys + [node(d + 1, cfg, kused) for _ in range(rng.randrange(0 if keys else 1, 4))]
            return n
        if not in_case:
            cases = []
            cu = set()
            for _ in range(rng.randrange(2, 4)):
                cn = ident(rng, cu)
                ck = [node(d + 1, cfg, used, True) for _ in range(rng.randrange(1, 3))]
                cases.append(tg.SNode("case", cn, config=cfg, kids=ck))
            return tg.SNode("choice", ident(rng, used), config=cfg, kids=cases)
        return leaf(used, cfg)

    top = kids(1, True, rng.randrange(1, 4))
    if nsib:
        used = set(names or [])
        wide = []
        for i in range(nsib):
            nm = names[i] if names and i < len(names) else ident(rng, used, 1, 4)
            r = rng.random()
            if r < 0.7:
                wide.append(leaf(used, True, name=nm, ty=LTy("str", big=big or []) if rng.random() < 0.5 else None))
            elif r < 0.8:
                ll = leaflist(used, True); ll.name = nm
                wide.append(ll)
            elif r < 0.9:
                wide.append(tg.SNode("container", nm, presence=True, kids=[leaf(set(), True)]))
            else:
                k = leaf(set(), True, key=True, name="k")
                wide.append(tg.SNode("list", nm, keys=["k"], kids=[k, leaf({"k"}, True)]))
        if rng.random() < 0.5:
            tn = set(t.name for t in top)
            top = [t for t in top] + [w for w in wide if w.name not in tn]          # the wide set on the top level
        else:
            top.append(tg.SNode("container", "wide", presence=True, kids=wide))
    names_top = set()
    top = [t for t in top if not (t.name in names_top or names_top.add(t.name))]
    return tg.Schema(mod, top)


def yang_of(schema, rev):
    y = schema.yang()
    ins = ""
    ann = getattr(schema, "annots", [])
    if ann:
        ins += "  import ietf-yang-metadata { prefix md; }\n"
    if rev:
        ins += "  revision %s;\n" % rev.decode()
    for nm, ty in ann:
        ins += "  md:annotation %s { %s }\n" % (nm, ty.yang())
    return y.replace("  prefix p;\n", "  prefix p;\n" + ins, 1)


def annots_tok(schema, rev):
    ann = getattr(schema, "annots", [])
    if not ann:
        return "-"
    return ";".join("%s/%s/%s/%s" % (hexs(schema.name.encode()), hexs(rev) if rev else "-", hexs(nm.encode()), ty.dsl()) for nm, ty in ann)


def decorate(rng, schema, forest):
    """metadata instances of the module's annotations on random nodes (canonical values)"""
    ann = schema.annots

    def w(n):
        if rng.random() < 0.45:
            for nm, ty in rng.sample(ann, rng.randrange(1, len(ann) + 1)):
                pool = [v for v in ty.pool() if len(v) < 300]
                n.meta.append(("%s:%s" % (schema.name, nm), rng.choice(pool)))
        for k in n.kids:
            w(k)
    for n in forest:
        w(n)
    return forest


# ------------------------------------------------------------------------------------------ trees
class Gen(tg.TreeGen):
    def tree(self):
        return self.gen_level(self.s.top)

    def gen_node(self, sn, force=False):
        rng = self.rng
        if sn.kind == "leaflist":
            pool = sn.ty.pool()
            n = rng.randrange(0, min(self.max_inst, len(pool)) + 1) if rng.random() < self.density else 0
            return [tg.DN(sn, v) for v in rng.sample(pool, n)]
        if sn.kind == "leaf" and not sn.iskey and sn.ty.kind == "str" and sn.ty.big and rng.random() < 0.5:
            return [tg.DN(sn, rng.choice(sn.ty.big))]
        return super().gen_node(sn, force)


def flag_tree(rng, forest):
    """random node flags (LYD_DEFAULT 1, LYD_WHEN_TRUE 2, LYD_NEW 4): the format carries them verbatim"""
    def w(n):
        r = rng.random()
        if n.sn.is_term() and not n.sn.iskey and (n.sn.dflt is not None and n.val == n.sn.dflt or n.val in (n.sn.dflts or [])) and r < 0.5:
            n.flags |= tg.F_DFLT
        elif r < 0.08:
            n.flags |= tg.F_DFLT if not n.sn.iskey else 0
        if rng.random() < 0.15:
            n.flags |= tg.F_WHEN
        if rng.random() < 0.15:
            n.flags |= tg.F_NEW
        for k in n.kids:
            w(k)
    for n in forest:
        w(n)
    return forest


def wd_annot():
    """Generated.LybTree.lybWdAnnot: lyb_print_metadata has the with-defaults block (false once fixes/F330.diff is applied)"""
    txt = open(os.path.join(paths.LEAN, "LyModel", "Generated", "LybTree.lean")).read()
    return re.search(r"def lybWdAnnot : Bool := (\w+)", txt).group(1) == "true"


def expected_view(schema, forest, wd):
    """what print -> parse returns: under the tagged modes the tagged term nodes carry the annotation as metadata; without
    LYD_PRINT_WITHSIBLINGS only the first top-level node"""
    out = [n.clone() for n in forest]
    if wd.startswith("single:"):
        out, wd = out[:1], wd[7:]
    if wd not in ("all-tag", "impl-tag") or not wd_annot():
        return out

    def w(n):
        if n.sn.is_term():
            isd = (n.sn.dflt is not None and n.val == n.sn.dflt) or (n.val in (n.sn.dflts or []))
            if ((n.flags & tg.F_DFLT) and True) or (wd == "all-tag" and isd):
                n.meta = [(WD_META, b"true")] + list(n.meta)
        for k in n.kids:
            w(k)
    for n in out:
        w(n)
    return out


# ------------------------------------------------------------------------------------------ cases
def find_colliding(rng, mod, depth, want, tries):
    seen = {}
    for _ in range(tries):
        n = (rng.choice(string.ascii_lowercase) + "".join(rng.choice(string.ascii_lowercase + string.digits) for _ in range(rng.randrange(1, 4)))).encode()
        if n in (b"input", b"output"):
            continue
        key = tuple(lybhash.gen_hash(mod, n, i) for i in range(depth))
        grp = seen.setdefault(key, [])
        if n not in grp:
            grp.append(n)
            if len(grp) >= want:
                return grp
    return None


def gen_cases(cx, rng):
    size_max, _ = lyb_consts()
    cases = []

    def add(schema, forest, wd, kind, rev=None, **meta):
        m = {"kind": kind}
        m.update(meta)
        cases.append((schema, rev, forest, wd, m))

    idx = 0
    # 1. random schemas and trees, every with-defaults mode
    for _ in range(cx.n(32, 400)):
        idx += 1
        rev = rng.choice([None, None, b"2019-02-28", b"2000-01-01", b"2127-12-31"])
        s = gen_schema(rng, idx, depth=rng.choice([2, 3, 4]))
        for _ in range(cx.n(2, 4)):
            g = Gen(rng, s, density=rng.choice([0.5, 0.8, 1.0]), max_inst=rng.choice([2, 4, 7]))
            t = flag_tree(rng, g.tree())
            add(s, t, rng.choice(WDS), "random", rev)
    # 2. wide sibling sets: collision ids > 0
    for nsib in [2, 5, 12, 30, 60, cx.n(100, 140)] * cx.n(1, 4):
        idx += 1
        s = gen_schema(rng, idx, nsib=nsib, depth=2)
        g = Gen(rng, s, density=0.9, max_inst=3)
        add(s, flag_tree(rng, g.tree()), rng.choice(WDS), "wide", None, nsib=nsib)
    # 3. engineered collisions on ids 0..depth-1
    for _ in range(cx.n(6, 60)):
        idx += 1
        mod = rng.choice(["col", "mdl", "xyz"]) + "%d" % idx
        depth = rng.choice([1, 2, 2, 3])
        grp = find_colliding(rng, mod.encode(), depth, rng.choice([2, 3]), cx.n(60000, 400000))
        if not grp:
            continue
        names = [x.decode() for x in grp]
        rng.shuffle(names)
        s = gen_schema(rng, idx, nsib=len(names) + rng.randrange(0, 4), depth=2, names=names, mod=mod)
        g = Gen(rng, s, density=1.0, max_inst=3)
        add(s, flag_tree(rng, g.tree()), rng.choice(["explicit", "all"]), "collide", None, depth=depth)
    # 4. chunk limit.  (a) one frame filled by many values: the limit falls inside some write; every enclosing frame crosses it too
    for _ in range(cx.n(3, 20)):
        idx += 1
        vlen = rng.choice([150, 200, 333])
        n = size_max // (vlen + 13) + rng.choice([-2, 0, 1, 3, 40])
        depth = rng.randrange(0, 4)
        ll = tg.SNode("leaflist", "vals", ty=LTy("str"), userord=True)
        tail = tg.SNode("leaf", "after", ty=LTy("u16"))
        inner = [ll, tail]
        for j in range(depth):
            inner = [tg.SNode("container", "c%d" % j, presence=True, kids=inner), tg.SNode("leaf", "z%d" % j, ty=LTy("i64"))]
        s = tg.Schema("chm%d" % idx, inner)
        pad = rng.randrange(0, 13)

        def inst(sn):
            if sn.kind == "leaflist":
                return [tg.DN(sn, (b"%06d-" % i) + bytes(97 + (i + j) % 26 for j in range(vlen - 7 + (pad if i == 0 else 0)))) for i in range(n)]
            if sn.kind == "leaf":
                return [tg.DN(sn, rng.choice(sn.ty.pool()))]
            return [tg.DN(sn, None, [x for k in sn.kids for x in inst(k)])]
        add(s, [x for k in s.top for x in inst(k)], rng.choice(["explicit", "all"]), "chunk-multi", None, n=n, depth=depth)
    # (b) single values of k*SIZE_MAX + d bytes at nesting 1..4 (quick: a few values of SIZE_MAX/4 that cross it together; the
    #     string check of the Val model is quadratic in the value length)
    for _ in range(cx.n(1, 24)):
        idx += 1
        if cx.tier == "thorough":
            k = rng.choice([1, 1, 2])
            d = rng.choice([-40, -9, -5, -4, -3, -2, -1, 0, 1, 2, 5, 300])
            sizes = [k * size_max + d]
        else:
            sizes = [size_max // 4 + rng.choice([-7, -1, 0, 1, 9])] * 4
        bigs = [("".join(rng.choice("abcdefgh") for _ in range(97)) * (z // 97 + 1))[:z].encode() for z in sizes]
        depth = rng.randrange(1, 5)
        inner = [tg.SNode("leaf", "big%d" % i, ty=LTy("str", big=[b])) for i, b in enumerate(bigs)] + [tg.SNode("leaf", "after", ty=LTy("u16"))]
        for j in range(depth - 1):
            inner = [tg.SNode("container", "c%d" % j, presence=True, kids=inner), tg.SNode("leaf", "z%d" % j, ty=LTy("str"))]
        s = tg.Schema("chk%d" % idx, inner)

        def inst1(sn):
            if sn.kind == "leaf":
                return tg.DN(sn, sn.ty.big[0] if sn.ty.big else rng.choice(sn.ty.pool()))
            return tg.DN(sn, None, [inst1(x) for x in sn.kids])
        add(s, [inst1(x) for x in s.top], rng.choice(["explicit", "all"]), "chunk-value", None, size=sum(sizes), depth=depth)
    # (c) a population of list instances and leaf-list values crossing the limit
    for _ in range(cx.n(1, 10)):
        idx += 1
        key = tg.SNode("leaf", "k", ty=LTy("u32"), iskey=True)
        val = tg.SNode("leaf", "v", ty=LTy("str"))
        lst = tg.SNode("list", "row", keys=["k"], kids=[key, val])
        ll = tg.SNode("leaflist", "nums", ty=LTy("u64"), userord=True)
        s = tg.Schema("pop%d" % idx, [tg.SNode("container", "tab", presence=True, kids=[lst, ll]), tg.SNode("leaf", "tail", ty=LTy("bool"))])
        vlen = cx.n(160, rng.choice([12, 160]))
        per = 5 + (5 + 4) + (2 + 5 + 8 + vlen) + 4          # rough bytes per instance
        n = (size_max // per) + rng.choice([-3, 0, 2, 40])
        rows = [tg.DN(lst, None, [tg.DN(key, str(i).encode()), tg.DN(val, (b"row-%04d-" % i) + b"x" * (vlen - 9))]) for i in range(n)]
        nums = [tg.DN(ll, str(2**64 - 1 - i).encode()) for i in range(rng.choice([0, 3, cx.n(50, size_max // 13 + 2)]))]
        add(s, [tg.DN(s.top[0], None, rows + nums), tg.DN(s.top[1], b"true")], "explicit", "chunk-population", None, n=n)
    # 4d. metadata: annotations of the module itself, every type, on any node
    for _ in range(cx.n(8, 100)):
        idx += 1
        rev = rng.choice([None, b"2021-11-30"])
        s = gen_schema(rng, idx, depth=rng.choice([2, 3]))
        s.annots = [(nm, rand_ty(rng, key=True)) for nm in rng.sample(["hint", "tag", "a-b", "x1", "origin"], rng.randrange(1, 4))]
        g = Gen(rng, s, density=0.9, max_inst=3)
        add(s, flag_tree(rng, g.tree()), rng.choice(WDS), "meta", rev)
    # 4e. single-tree mode: lyd_print_tree without LYD_PRINT_WITHSIBLINGS (one top-level tree; one instance of a top-level list / leaf-list)
    for _ in range(cx.n(8, 120)):
        idx += 1
        s = gen_schema(rng, idx, depth=rng.choice([2, 3]))
        g = Gen(rng, s, density=1.0, max_inst=4)
        t = flag_tree(rng, g.tree())
        rng.shuffle(t)                       # any kind of node first (libyang re-orders: the first of ITS order is printed)
        add(s, t, "single:" + rng.choice(WDS), "single", rng.choice([None, b"2019-02-28"]))
    # 5. empty forest, single nodes
    s = gen_schema(rng, 9000)
    add(s, [], "explicit", "empty")
    # 6. F27 witness: one-character module name, siblings `en` and `d64`
    s = tg.Schema("yyy", [tg.SNode("container", "c", presence=True, kids=[tg.SNode("leaf", "en", ty=LTy("str")), tg.SNode("leaf", "d64", ty=LTy("str"))])])
    s.name = "y"
    add(s, [tg.DN(s.top[0], None, [tg.DN(s.top[0].kids[0], b"v")])], "explicit", "f27", None, f27=True)
    return cases


def meta_skip_width():
    txt = open(os.path.join(paths.LEAN, "LyModel", "Generated", "LybTree.lean")).read()
    return int(re.search(r"def R_METASKIPVAL : Nat := (\d+)", txt).group(1)), int(re.search(r"def P_METAVAL : Nat := (\d+)", txt).group(1))


def classify(component, what, case):
    if component != "lybtree" or not isinstance(case, dict):
        return None
    if " lybtree metaskip " in (case.get("line") or "") or case.get("op") == "metaskip":
        rw, pw = meta_skip_width()
        if rw != pw and (case.get("crash") or case.get("stage") in ("parse", "content")):
            return "F331"        # the skip branch reads the value length with another width than it was printed with
        return None
    if case.get("f27") and case.get("stage") == "print-eint":
        return "F27"
    if case.get("stage") == "tagged-annotation" and (case.get("wd") or "").replace("single:", "") in ("all-tag", "impl-tag"):
        return "F330"
    if case.get("kind") in ("chunk-value", "chunk-population", "chunk-multi") and case.get("stage") == "length":
        return "F69"
    return None


def run_lybtree(cx):
    rng = cx.sub_rng("lybtree")
    cases = gen_cases(cx, rng)
    size_max, _ = lyb_consts()
    cx.rule("lyb tree: for generated (schema, tree, with-defaults mode) the model's LYB image (docOps -> writeAll) equals lyd_print_all(LYD_LYB) "
            "BYTE FOR BYTE; libyang parses the model's bytes and the model parses libyang's bytes to the same tree (dump); "
            "parse(print t) == view(t) and lyd_lyb_data_length == length on libyang; all Val term types + empty, lists, leaf-lists, "
            "choices, flags, sibling sets up to 140 nodes (collision ids > 0), engineered hash collisions, values and populations crossing "
            "LYB_SIZE_MAX=%d; F27 witness replayed" % size_max)
    keys = []
    lines = []
    for i, (s, rev, forest, wd, meta) in enumerate(cases):
        dsl = hexs(s.dsl())
        keys.append(dsl + (":" + rev.decode() if rev else ""))
        lines.append("%d lybtree print %s %s %s %s" % (i, hexs((s.dsl() + b"#" + (rev or b""))), hexs(yang_of(s, rev).encode()), wd, tg.tok(forest)))
    r1 = cx.run_impl(API, lines, component="lybtree", timeout=cx.n(600, 3000), env=ENV)
    # metadata cases: decorate the canonical dump libyang returned and print again with the metadata attached
    ml = []
    for i, (s, rev, forest, wd, meta) in enumerate(cases):
        r = r1.get(str(i), ["err", "NoReply"])
        if meta["kind"] == "meta" and r[0] == "ok" and r[1] != "-":
            f2 = decorate(rng, s, tg.untok(s, r[1]))
            ml.append("%d lybtree printm %s %s %s %s" % (i, hexs((s.dsl() + b"#" + (rev or b""))), hexs(yang_of(s, rev).encode()), wd, tg.tok(f2)))
            cx.dist["lybtree:metadata-instances"] += sum(1 for ln in tg.dump(f2).split(b"\n") if b"=" in ln)
    if ml:
        r1b = cx.run_impl(API, ml, component="lybtree", timeout=cx.n(600, 3000), env=ENV)
        for k, v in r1b.items():
            r1[k] = v
    mlines, plines = [], []
    for i, (s, rev, forest, wd, meta) in enumerate(cases):
        r = r1.get(str(i), ["err", "NoReply"])
        if r[0] != "ok":
            continue
        dsl, rv = hexs(s.dsl()), (hexs(rev) if rev else "-")
        mlines.append("%d lyb tprint %s %s %s %s %s %s" % (i, dsl, rv, hexs(WD_REV), annots_tok(s, rev), wd, r[1]))
        mlines.append("p%d lyb tparse %s %s %s %s %s" % (i, dsl, rv, hexs(WD_REV), annots_tok(s, rev), r[2]))
        plines.append("i%d lybtree parse %s %s %s" % (i, hexs((s.dsl() + b"#" + (rev or b""))), hexs(yang_of(s, rev).encode()), r[2]))
    # F27 witness and other print failures: the model must fail too
    for i, (s, rev, forest, wd, meta) in enumerate(cases):
        r = r1.get(str(i), ["err", "NoReply"])
        if r[0] != "ok" and r[:2] != ["err", "Crash"]:
            mlines.append("%d lyb tprint %s %s %s %s %s %s" % (i, hexs(s.dsl()), (hexs(rev) if rev else "-"), hexs(WD_REV), annots_tok(s, rev), wd, tg.tok(forest)))
    rm = cx.run_model(mlines, timeout=cx.n(600, 3000))
    for i, (s, rev, forest, wd, meta) in enumerate(cases):
        r = r1.get(str(i), ["err", "NoReply"])
        m = rm.get(str(i), ["err", "NoReply"])
        if r[0] == "ok" and m[0] == "ok":
            plines.append("m%d lybtree parse %s %s %s" % (i, hexs((s.dsl() + b"#" + (rev or b""))), hexs(yang_of(s, rev).encode()), m[1]))
    r2 = cx.run_impl(API, plines, component="lybtree", timeout=cx.n(600, 3000), env=ENV)

    for i, (s, rev, forest, wd, meta) in enumerate(cases):
        r = r1.get(str(i), ["err", "NoReply"])
        m = rm.get(str(i), ["err", "NoReply"])
        key = ("lybtree", s.dsl(), rev, tg.dump(forest), wd)
        line = lines[i] if len(lines[i]) < 4000 else lines[i][:4000] + "..."
        c = {"op": "lybtree", "kind": meta["kind"], "wd": wd, "line_id": i, "yang": yang_of(s, rev)[:3000], "dump": tg.dump(forest).decode("latin-1")[:3000]}
        c.update({k: v for k, v in meta.items() if k in ("f27", "size", "depth", "n", "nsib")})
        if r[:2] == ["err", "Crash"]:
            cx.count(key, True, "lybtree:%s:crash" % meta["kind"])
            continue
        if r[:2] == ["err", "Schema"]:
            cx.count(key, False, "lybtree:generated-schema-rejected")       # generator produced an invalid module (name clash): not a case
            continue
        if r[0] != "ok":
            cx.count(key, True, "lybtree:%s:%s" % (meta["kind"], " ".join(r[:2])))
            # the printer fails: the model must fail too (the `_fails` witnesses), and it is a failure of the property
            if m[0] == "ok":
                cx.disagree("lybtree", line, r, ["ok", "<%d bytes>" % (len(m[1]) // 2)])
            if r[1] == "PrintEint":
                c["stage"] = "print-eint"
                cx.fail("lybtree", "valid data cannot be printed as LYB (LY_EINT)", c)
            else:
                c["stage"] = r[1]
                cx.fail("lybtree", "LYB print of a generated tree fails: %s" % r[1], c)
            continue
        img = r[2]
        nbytes = 0 if img == "-" else len(img) // 2
        cx.count(key, True, "lybtree:%s:%s" % (meta["kind"], wd))
        if nbytes > size_max:
            cx.dist["lybtree:image>LYB_SIZE_MAX"] += 1
        # 2. byte-for-byte
        if m != ["ok", img]:
            mm = m if len(" ".join(m)) < 300 else [m[0], first_diff(img, m[1] if len(m) > 1 else "")]
            cx.disagree("lybtree", line, ["ok", "<%d bytes>" % nbytes], mm)
            continue
        # collision ids in the image are counted through the model: a hash byte < 0x80 right after a node type byte cannot be told
        # from data here, so count sibling sets whose assignment uses ids > 0
        # 5. laws on libyang
        if int(r[3]) != nbytes:
            c["stage"] = "length"
            c["reply"] = r[3]
            cx.fail("lybtree", "lyd_lyb_data_length() = %s for %d printed bytes" % (r[3], nbytes), c)
        want = tg.tok(expected_view(s, tg.untok(s, r[1]), wd))
        pi = r2.get("i%d" % i, ["err", "NoReply"])
        pm = r2.get("m%d" % i, ["err", "NoReply"])
        mp = rm.get("p%d" % i, ["err", "NoReply"])
        if pi[:2] == ["err", "Crash"] or pm[:2] == ["err", "Crash"]:
            continue
        orig = tg.tok(tg.untok(s, r[1])[:1] if wd.startswith("single:") else tg.untok(s, r[1]))
        if pi == ["ok", want] and want != orig:
            # the `_fails` witness of the tagged modes on libyang itself (finding F330): the tree comes back with the annotation
            c2 = dict(c); c2["stage"] = "tagged-annotation"
            cx.fail("lybtree", "parse(print t) != t under %s: tagged nodes come back with the wd:default annotation as metadata" % wd, c2)
        if pi != ["ok", want]:
            c["stage"] = "roundtrip"
            c["got"] = " ".join(pi)[:600]
            c["want"] = want[:600]
            cx.fail("lybtree", "parse(print t) differs from t on libyang (%s)" % wd, c)
        # 3. libyang parses the model's bytes (same bytes: same answer) ; 4. the model parses libyang's bytes
        if pm != pi:
            cx.disagree("lybtree", "parse of the model's image: " + line, pi[:1] + [x[:200] for x in pi[1:]], pm[:1] + [x[:200] for x in pm[1:]])
        if mp != pi:
            cx.disagree("lybtree", "model tparse of libyang's image: " + line, pi[:1] + [x[:200] for x in pi[1:]], mp[:1] + [x[:200] for x in mp[1:]])
    # finding F331: annotation of a module the parsing context lacks, non-strict parse (the `_fails` witness lyb_meta_skip_fails)
    vals = [b"hello", b""] + ([b"x", b"a" * 300] if cx.tier == "thorough" else []) + [bytes(rng.choice(b"abcdefgh") for _ in range(rng.randrange(1, 40))) for _ in range(cx.n(0, 20))]
    ml = ["s%d lybtree metaskip %s" % (i, hexs(v)) for i, v in enumerate(vals)]
    rs = cx.run_impl(API, ml, component="lybtree", timeout=300, env=ENV)
    for i, v in enumerate(vals):
        r = rs.get("s%d" % i, ["err", "NoReply"])
        cx.count(("metaskip", v), True, "lybtree:metaskip:%s" % " ".join(r[:2] if r[0] == "err" else r[:1]))
        if r[:2] == ["err", "Crash"]:
            continue            # recorded and classified through run_impl
        c = {"op": "metaskip", "value": v.decode(), "reply": " ".join(r)[:300]}
        if r[0] != "ok":
            c["stage"] = "parse"
            cx.fail("lybtree", "LYB data with an annotation of a module the context lacks is rejected by a non-strict parse", c)
        elif unhex(r[1]) != b'{"dat:x":"val","dat:y":7}':
            c["stage"] = "content"
            cx.fail("lybtree", "LYB data with an annotation of a module the context lacks is mis-parsed", c)
    # collision statistics (python copy of the hash, tools/checks/lybhash.py)
    for (s, rev, forest, wd, meta) in cases:
        if meta["kind"] in ("wide", "collide"):
            for par in [None] + [n for n in s.nodes if n.is_inner()]:
                names = [k.name.encode() for k in s.data_kids(par)]
                if len(names) > 1:
                    cols = lybhash.hash_siblings(s.name.encode(), names)
                    if cols and max(cols) > 0:
                        cx.dist["lybtree:sibling-set-with-collision-id>=%d" % min(max(cols), 3)] += 1
    if lines:
        cx.sample(lines[cx.rng.randrange(len(lines))][:300])


def first_diff(a, b):
    n = min(len(a), len(b))
    i = next((j for j in range(n) if a[j] != b[j]), n)
    return "differs at byte %d (impl %d bytes, model %d bytes): impl …%s model …%s" % (i // 2, len(a) // 2, len(b) // 2, a[max(0, i - 16):i + 16], b[max(0, i - 16):i + 16])
