"""C14 laws on typed values the tree model does not carry (harness api_duplaw): union / bits / binary / decimal64 /
identityref / instance-identifier / 64-bit / leafref / empty values as leaves, leaf-list instances and list keys, loaded through
XML, JSON and LYB (the type plugins store a different `original` per route), then duplicated with every option set and merged.
Implementation-only: every law bit must be 0."""
from vlib.proto import hexs

HARNESS = "api_duplaw"
COMP = "duplaw"

YANG = b"""module dl { yang-version 1.1; namespace "urn:dl"; prefix dl;
 identity base; identity i1 { base base; } identity i2 { base i1; } identity j1 { base base; }
 typedef un { type union { type int8; type enumeration { enum x; enum y; enum zed; } type bits { bit a; bit b; bit c; }
                           type identityref { base base; } type string { length "3..8"; } } }
 typedef un2 { type union { type uint16; type boolean; type decimal64 { fraction-digits 2; } type binary { length "4..12"; } } }
 container c {
   leaf u { type un; }
   leaf u2 { type un2; }
   leaf-list ul { type un; }
   leaf-list ul2 { type un2; ordered-by user; }
   list lu { key k; leaf k { type un; } leaf v { type un2; } }
   list lu2 { key "k1 k2"; leaf k1 { type un2; } leaf k2 { type un; } leaf-list w { type un; } }
   leaf b { type bits { bit p; bit q; bit r; bit s { position 40; } } }
   leaf bin { type binary; }
   leaf d { type decimal64 { fraction-digits 3; } }
   leaf id { type identityref { base base; } }
   leaf ii { type instance-identifier { require-instance false; } }
   leaf i64 { type int64; }
   leaf u64 { type uint64; }
   leaf lr { type leafref { path "../u"; } }
   leaf e { type empty; }
   leaf bo { type boolean; }
   leaf en { type enumeration { enum one; enum two { value 7; } } }
   leaf-list idl { type identityref { base base; } ordered-by user; }
   leaf-list bl { type bits { bit p; bit q; } }
   list l3 { key "a b"; leaf a { type bits { bit p; bit q; } } leaf b { type identityref { base base; } } leaf v { type binary; } }
 }
}
"""

UN = ["5", "-128", "127", "0", "x", "y", "zed", "a", "a b", "b c", "a b c", "dl:i1", "dl:i2", "dl:j1", "abc", "hello", "x y z", "12345678"]
UN2 = ["0", "65535", "7", "true", "false", "1.5", "-0.25", "99999.99", "aGVsbG8=", "AAAAAAAA", "dGVzdHRlc3Q="]
POOL = {
    "b": ["p", "q", "p q", "p q r", "s", "p s", ""], "bin": ["", "aGVsbG8=", "AA==", "AAECAwQFBgc="], "d": ["0.0", "-0.5", "1.125", "9223372036854775.807", "-9223372036854775.808", "0.001"],
    "id": ["dl:i1", "dl:i2", "dl:j1"], "ii": ["/dl:c/dl:u", "/dl:c/dl:lu[dl:k='x']/dl:v", "/dl:c/dl:ul[.='5']", "/dl:c/dl:l3[dl:a='p q'][dl:b='dl:i1']"],
    "i64": ["0", "-9223372036854775808", "9223372036854775807", "-1"], "u64": ["0", "18446744073709551615", "1"], "bo": ["true", "false"], "en": ["one", "two"],
    "bl": ["p", "q", "p q", ""], "a3": ["p", "q", "p q", ""], "b3": ["dl:i1", "dl:i2", "dl:j1"],
}


def esc(s):
    return s.replace("&", "&amp;").replace("<", "&lt;")


def gen_doc(rng):
    out = ['<c xmlns="urn:dl" xmlns:dl="urn:dl">']
    E = lambda n, v: out.append("<%s>%s</%s>" % (n, esc(v), n))
    u = None
    if rng.random() < 0.8:
        u = rng.choice(UN); E("u", u)
    if rng.random() < 0.6: E("u2", rng.choice(UN2))
    for v in rng.sample(UN, rng.randrange(0, 6)): E("ul", v)
    for v in rng.sample(UN2, rng.randrange(0, 5)): E("ul2", v)
    for k in rng.sample(UN, rng.randrange(0, 6)):
        out.append("<lu><k>%s</k>" % esc(k))
        if rng.random() < 0.6: E("v", rng.choice(UN2))
        out.append("</lu>")
    seen = set()
    for _ in range(rng.randrange(0, 4)):
        k1, k2 = rng.choice(UN2), rng.choice(UN)
        if (k1, k2) in seen: continue
        seen.add((k1, k2))
        out.append("<lu2><k1>%s</k1><k2>%s</k2>" % (esc(k1), esc(k2)))
        for v in rng.sample(UN, rng.randrange(0, 3)): E("w", v)
        out.append("</lu2>")
    for n in ("b", "bin", "d", "id", "ii", "i64", "u64"):
        if rng.random() < 0.5: E(n, rng.choice(POOL[n]))
    if u is not None and rng.random() < 0.5: E("lr", u)
    if rng.random() < 0.3: out.append("<e/>")
    for n in ("bo", "en"):
        if rng.random() < 0.4: E(n, rng.choice(POOL[n]))
    for v in rng.sample(POOL["id"], rng.randrange(0, 4)): E("idl", v)
    for v in rng.sample(POOL["bl"], rng.randrange(0, 4)): E("bl", v)
    seen = set()
    for _ in range(rng.randrange(0, 4)):
        a, b = rng.choice(POOL["a3"]), rng.choice(POOL["b3"])
        if (a, b) in seen: continue
        seen.add((a, b))
        out.append("<l3><a>%s</a><b>%s</b>" % (a, b))
        if rng.random() < 0.5: E("v", rng.choice(POOL["bin"]))
        out.append("</l3>")
    out.append("</c>")
    return "".join(out).encode()


DUP_OPTS = [0, 0x04, 0x08, 0x0C, 0x10]      # NO_META, WITH_FLAGS, both, NO_EXT
MERGE_OPTS = [0, 0x02, 0x04, 0x06]           # DEFAULTS, WITH_FLAGS
LAWS = {1: "dup-equal", 2: "dup-prints-equal", 4: "dup-lyb", 8: "dup-searchable", 16: "merge-into-empty", 32: "merge-idempotent",
        64: "merge-destruct-equals-copy", 128: "dup-validates", 256: "dup-independent", 512: "dup-into-populated-parent"}


def run_duplaw(cx):
    cx.rule("duplaw: random instance documents of a fixed module with union (int8|enum|bits|identityref|string; uint16|boolean|decimal64|binary), "
            "bits, binary, decimal64, identityref, instance-identifier, 64-bit, leafref, empty values as leaves, leaf-list instances and list "
            "keys x route into the tree (xml, json, lyb) x dup option set x merge option set; all laws on the implementation")
    rng = cx.sub_rng("duplaw")
    y = hexs(YANG)
    lines, meta = [], {}
    for i in range(cx.n(240, 4000)):
        doc = gen_doc(rng)
        via = ("xml", "json", "lyb", "lyb")[i % 4]
        do, mo = rng.choice(DUP_OPTS), rng.choice(MERGE_OPTS)
        lines.append("%d %s law %s %s %s %d %d" % (i, COMP, y, hexs(doc), via, do, mo))
        meta[str(i)] = (doc, via, do, mo)
    ri = cx.run_impl(HARNESS, lines, component=COMP)
    for l in lines:
        i = l.split()[0]
        doc, via, do, mo = meta[i]
        r = ri.get(i, ["err", "NoReply"])
        cx.count(("duplaw", doc, via, do, mo), r[0] == "ok", "duplaw:%s:%s" % (via, " ".join(r[:2]) if r[0] != "ok" else "ok"))
        case = {"line": l, "doc": doc.decode(), "via": via, "dup_opts": do, "merge_opts": mo, "reply": r}
        if r[0] != "ok":
            if r[:2] not in (["err", "Crash"], ["err", "Timeout"]):
                cx.fail(COMP, "typed dup/merge law could not be evaluated: stage %s" % (r[1] if len(r) > 1 else "?"), case)
            continue
        bad = int(r[1])
        if bad:
            names = [n for b, n in LAWS.items() if bad & b]
            cx.fail(COMP, "typed dup/merge law fails (%s; first: %s) for values loaded via %s" % (", ".join(names), r[2], via), dict(case, law=names[0]))
    cx.sample(lines[0][:300])
