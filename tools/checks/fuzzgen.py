"""Generators of property C05 (component `fuzz`): argument micro-grammars, structure-aware mutations, raw mutations.

Everything is deterministic from the rng passed in.  A *case* is a dict
    {"req": "<op> <args...>" (request without id/component), "entry": <entry point label>, "gen": <generator label>,
     "arg": <bytes the generator varied (for classification)>, "input": <bytes handed to libyang>}
"""
import itertools, os, re
from vlib.proto import hexs

# ---------------------------------------------------------------------------------------------------------------
# helpers

def b(x):
    return x if isinstance(x, bytes) else x.encode("utf-8", "surrogateescape")


def seqs(tokens, maxlen):
    """all token sequences of length 1..maxlen, concatenated"""
    for n in range(1, maxlen + 1):
        for t in itertools.product(tokens, repeat=n):
            yield b"".join(t)


def yang_dq(arg):
    """argument bytes -> YANG double-quoted string"""
    return b'"' + arg.replace(b"\\", b"\\\\").replace(b'"', b'\\"') + b'"'


def case(req, entry, gen, arg, inp):
    return {"req": req, "entry": entry, "gen": gen, "arg": arg, "input": inp}


# parser / validation option sets of lyd_parse_data_mem
P_ONLY, P_STRICT, P_OPAQ, P_NO_STATE, P_LYB_MOD_UPDATE, P_ORDERED = 0x010000, 0x020000, 0x040000, 0x080000, 0x100000, 0x200000
P_WHEN_TRUE, P_NO_NEW, P_STORE_ONLY, P_JSON_NULL = 0x800000, 0x1000000, 0x2010000, 0x4000000
V_NO_STATE, V_PRESENT, V_MULTI_ERROR, V_OPERATIONAL, V_NO_DEFAULTS = 0x1, 0x2, 0x4, 0x8, 0x10
PARSE_SETS = [P_STRICT, P_OPAQ, P_STRICT | P_NO_STATE, P_LYB_MOD_UPDATE, P_ORDERED | P_STRICT, P_ONLY | P_STRICT, P_ONLY | P_OPAQ, 0,
              P_JSON_NULL | P_STRICT, P_STORE_ONLY, P_STRICT | P_OPAQ, P_WHEN_TRUE | P_NO_NEW]
VALIDATE_SETS = [V_PRESENT, V_PRESENT | V_NO_STATE, V_PRESENT | V_MULTI_ERROR, V_PRESENT | V_OPERATIONAL, 0, V_MULTI_ERROR | V_NO_DEFAULTS]

OP_TYPES = {"rpc": 1, "notif": 2, "reply": 3, "rpc-netconf": 4, "notif-netconf": 5, "reply-netconf": 6, "rpc-restconf": 7,
            "notif-restconf": 8, "reply-restconf": 9}


def data_case(fmt, doc, gen, arg, po, vo):
    return case("data %s %x %x %s" % (fmt, po, vo, hexs(doc)), "lyd_parse_data_mem." + fmt, gen, arg, doc)


def schema_case(fmt, text, gen, arg):
    return case("schema %s %s" % (fmt, hexs(text)), "lys_parse_mem." + fmt, gen, arg, text)


def op_case(fmt, kind, parent, doc, gen, arg):
    return case("op %s %d %d %s" % (fmt, OP_TYPES[kind], parent, hexs(doc)), "lyd_parse_op.%s.%s" % (kind, fmt), gen, arg, doc)


# ---------------------------------------------------------------------------------------------------------------
# schema-side argument micro-grammars: the argument is spliced into a template module (unique name zz<N>)

HDR = b"module zz%d {namespace urn:zz%d; prefix z; yang-version 1.1; "
SCHEMA_KINDS = {
    # kind: (template with one %s, token list, quoted?)
    "range": (b'leaf x { type int8 { range %s; } }',
              ["min", "max", "..", "|", "1", "5", "-3", "+2", "1.5", " ", "a", "127", "-129"]),
    "length": (b'leaf x { type string { length %s; } }',
               ["min", "max", "..", "|", "1", "5", "-3", "+2", "1.5", " ", "a", "18446744073709551615", "18446744073709551616"]),
    "range-derived-dec64": (b'typedef t { type decimal64 { fraction-digits 2; range "1.5..10"; } } leaf x { type t { range %s; } }',
                            ["min", "max", "..", "|", "1", "5", "-3", "+2", "1.5", " ", "a", "9.99", "10.001"]),
    "range-derived-int": (b'typedef t { type int8 { range "1..10 | 20..30"; } } leaf x { type t { range %s; } }',
                          ["min", "max", "..", "|", "1", "5", "25", "10", " ", "20", "30", "11", "0"]),
    "if-feature": (b'feature a; feature b; leaf x { if-feature %s; type string; }',
                   ["a", "b", "not ", "and ", "or ", "(", ")", " ", "not", "z:a", "nota", "(not a)"]),
    "must": (b'container c { leaf y {type string;} list l {key k; leaf k {type string;}} leaf x { must %s; type string; } }',
             ["../y", "/z:c/z:l", "[", "]", "k", "=", "'a'", "\"b\"", " and ", " or ", "(", ")", "count(", "current()", ".", "/", "//", "*",
              "|", "1", "not(", "@", "$v", "::", "ancestor", "-", "+", "<", "!="]),
    "when": (b'container c { leaf y {type string;} list l {key k; leaf k {type string;}} leaf x { when %s; type string; } }',
             ["../y", "/z:c/z:l", "[", "]", "k", "=", "'a'", " and ", "(", ")", "count(", "current()", ".", "/", "//", "*", "1", "not(",
              "deref(", "re-match(", ",", "string(", "100000000000000000000"]),
    "leafref-path": (b'container c { leaf y {type string;} list l {key k; leaf k {type string;} leaf v {type string;}} leaf x { type leafref { path %s; } } }',
                     ["../y", "/z:c", "/z:l", "[", "]", "z:k", "=", "current()", "/", "..", "../", "z:v", " ", "deref(", ")", "'a'"]),
    "unique": (b'list l { key k; unique %s; leaf k {type string;} leaf a {type string;} container c { leaf b {type string;} } }',
               ["a", "c/b", " ", "k", "/", "c", "b", "z:a", "../a", "c/"]),
    "bits-default": (b'leaf x { type bits { bit a; bit b; } default %s; }', ["a", "b", " ", "c", "a b", "\t", "b a"]),
    "enum-default": (b'leaf x { type enumeration { enum a; enum "b c"; enum "-1"; } default %s; }', ["a", "b c", " ", "c", "-1", "\t", "b"]),
    "pattern": (b'leaf x { type string { pattern %s; } default "ab"; }',
                ["a", "b", ".", "*", "+", "?", "(", ")", "[", "]", "^", "-", "\\p{L}", "\\P{", "\\d", "\\", "{", "}", "2", ",", "|", "$",
                 "\\p{IsBasicLatin}", "[a-z-[b]]", "\\i", "\\c"]),
    "int-default": (b'leaf x { type int16 { range "-5..100"; } default %s; }',
                    ["+", "-", "0", "1", "9", " ", "00", "100", "101", "0x1f", "e1", ".", "32768", "\t"]),
    "dec64-default": (b'leaf x { type decimal64 { fraction-digits 3; } default %s; }',
                      ["+", "-", "0", "1", "9", ".", " ", "00", "9223372036854775", "807", "808", "e1", "\t", "0001"]),
    "key": (b'list l { key %s; leaf a {type string;} leaf b {type string;} leaf-list c {type string;} }', ["a", "b", " ", "c", "z:a", "\t", "/", "a b"]),
    "augment": (b'container c { container d { leaf e {type string;} } choice ch { leaf f {type string;} } } augment %s { leaf n {type string;} }',
                ["/z:c", "/z:d", "/z:e", "/", "z:", "c", "/z:ch", "/z:f", " ", "/z:n", "..", "["]),
    "deviation": (b'container c { leaf e {type string;} } deviation %s { deviate add { default "x"; } }',
                  ["/z:c", "/z:e", "/", "z:", "c", " ", "/c", "..", "[", "/z:c/z:e"]),
    "uint-arg": (b'leaf-list x { type string; min-elements %s; }', ["0", "1", "-", "+", " ", "4294967295", "4294967296", "unbounded", "00", "0x1"]),
    "fraction-digits": (b'leaf x { type decimal64 { fraction-digits %s; } }', ["0", "1", "18", "19", "-", "+", " ", "01", "255", "256"]),
    "enum-value": (b'leaf x { type enumeration { enum a { value %s; } enum b; } }', ["0", "1", "-", "+", " ", "2147483647", "2147483648", "-2147483648", "-2147483649", "00"]),
    "revision": (b'revision %s; leaf x {type string;}', ["2020", "-", "01", "13", "00", "32", " ", "2020-01-01", "a", "20200"]),
    "identifier": (b'leaf %s {type string;}', ["a", "_", "-", ".", "1", "xml", "XmL", ":", " ", "\xc3\xa9", "z:a"]),
}
# kinds where the generated argument is spliced *unquoted* (the quoting lexer itself is the subject)
RAW_KINDS = {
    "qstring": (b'leaf x { type string; default %s; }',
                ['"', "'", "\\", "a", " ", "\n", "\t", "+", "\\n", "\\\"", "\\\\", "\\t", "\\x", "//", "/*", "*/", ";", "{", "}", "\"a\"", "'b'"]),
    "statement": (b'%s',
                  ["leaf x", "{", "}", ";", "type string", " ", "container c", "z:ext", "\"q\"", "+", "list l", "key k", "uses g", "grouping g",
                   "choice h", "case j", "default", "augment", "/z:c"]),
}
YIN_KINDS = {
    "yin-arg": (b'<leaf name="x"><type name="int8"><range value="%s"/></type></leaf>',
                ["1", "..", "|", "5", "min", "&lt;", "&#x31;", "&", "\"", "<", " ", "&amp;", "&#0;"]),
    "yin-elem": (b'%s',
                 ["<leaf name=\"x\">", "</leaf>", "<type name=\"string\"/>", "<type name=\"string\">", "</type>", "<description>", "</description>",
                  "<text>", "</text>", "t", "<z:e xmlns:z=\"urn:q\"/>", "<container name=\"c\">", "</container>", "<!--", "-->", "<![CDATA[", "]]>",
                  "<leaf name=\"x\"/>", " ",
                  # instances of an extension of the module itself, without and with (unexpected) text content (finding F104)
                  "<extension name=\"e\"/><z:e/>", "<z:e>t</z:e>"]),
}
YIN_HDR = b'<module name="zz%d" xmlns="urn:ietf:params:xml:ns:yang:yin:1" xmlns:z="urn:zz%d"><namespace uri="urn:zz%d"/><prefix value="z"/><yang-version value="1.1"/>'


def schema_micro(kinds, maxlen, counter):
    """exhaustive token sequences up to maxlen for every schema-side argument kind"""
    for kind, (tmpl, toks) in SCHEMA_KINDS.items():
        if kinds and kind not in kinds:
            continue
        toks = [b(t) for t in toks]
        for arg in seqs(toks, maxlen[kind] if isinstance(maxlen, dict) else maxlen):
            n = next(counter)
            text = (HDR % (n, n)) + tmpl.replace(b"%s", yang_dq(arg)) + b" }"
            yield schema_case("yang", text, "micro:" + kind, arg)
    for kind, (tmpl, toks) in RAW_KINDS.items():
        if kinds and kind not in kinds:
            continue
        toks = [b(t) for t in toks]
        for arg in seqs(toks, maxlen[kind] if isinstance(maxlen, dict) else maxlen):
            n = next(counter)
            text = (HDR % (n, n)) + tmpl.replace(b"%s", arg) + b" }"
            yield schema_case("yang", text, "micro:" + kind, arg)
    for kind, (tmpl, toks) in YIN_KINDS.items():
        if kinds and kind not in kinds:
            continue
        toks = [b(t) for t in toks]
        for arg in seqs(toks, maxlen[kind] if isinstance(maxlen, dict) else maxlen):
            n = next(counter)
            text = (YIN_HDR % (n, n, n)) + tmpl.replace(b"%s", arg) + b"</module>"
            yield schema_case("yin", text, "micro:" + kind, arg)


def schema_micro_sample(rng, kinds, lengths, n, counter):
    """random token sequences of the given lengths for the big token sets"""
    pools = []
    for d, fmt in ((SCHEMA_KINDS, "yang-q"), (RAW_KINDS, "yang-raw"), (YIN_KINDS, "yin")):
        for kind, (tmpl, toks) in d.items():
            if kind in kinds:
                pools.append((kind, tmpl, [b(t) for t in toks], fmt))
    for _ in range(n):
        kind, tmpl, toks, fmt = rng.choice(pools)
        arg = b"".join(rng.choice(toks) for _ in range(rng.choice(lengths)))
        k = next(counter)
        if fmt == "yin":
            yield schema_case("yin", (YIN_HDR % (k, k, k)) + tmpl.replace(b"%s", arg) + b"</module>", "micro-sampled:" + kind, arg)
        else:
            yield schema_case("yang", (HDR % (k, k)) + tmpl.replace(b"%s", yang_dq(arg) if fmt == "yang-q" else arg) + b" }", "micro-sampled:" + kind, arg)


# ---------------------------------------------------------------------------------------------------------------
# data-side micro-grammars (the harness' fixed tree and schema `fz`)

T_XPATH = ["/fz:c", "/l", "[", "]", "k", "=", "'a'", " and ", " or ", "(", ")", "count(", "current()", ".", "/", "//", "*", "|", "1", "not(", "@",
           "::", "ancestor", "-", "<", "!=", "position()", "last()", "string(", ",", "deref(", "re-match(", "../", "y", "ll", "text()", "node()", "fz:",
           "$v", "100000000000000000000", "floor(", "enum-value(", "bit-is-set(", ",'a')", "/fz:t/bi", " div ", "0"]
T_PATH = ["/fz:c", "/l", "/fz:l", "[", "]", "k", "=", "'a'", "\"b\"", ".", "1", " ", "/y", "fz:", "*", "..", "//", "/ll", "k2", "/kl", "/fz:r", "/i", "2"]
T_JSON = ["\"y\"", ":", "\"a\"", ",", "\"ll\"", "[", "]", "{", "}", "\"l\"", "\"k\"", "\"k2\"", "1", "null", "true", "\"@y\"", "\"@\"", "\"fz:hint\"",
          "\"u\"", "-", "1e1", "\"\"", "\"any\"", "\"fz:nx\""]
T_XML = ["<y>", "</y>", "a", "<ll>", "</ll>", "<l>", "</l>", "<k>", "</k>", "<y/>", "&lt;", "&#x41;", "<![CDATA[", "]]>", "<!--", "-->", " ", "<u>",
         "</u>", "<x xmlns=\"urn:q\">", "</x>", "<y a=\"1\">", "&", "<", "<any>", "</any>", "<y xmlns:p=\"urn:fz\" p:hint=\"h\">"]
T_INT = ["+", "-", "0", "1", "9", ".", " ", "\n", "00", "128", "256", "9223372036854775807", "9223372036854775808",
         "18446744073709551615", "18446744073709551616", "0x1f", "e1", "1.5", "5.", "017"]
T_UTF8 = [bytes([x]) for x in (0x41, 0x7f, 0x80, 0xbf, 0xc0, 0xc2, 0xdf, 0xe0, 0xed, 0xef, 0xf0, 0xf4, 0xf5, 0xff, 0x9f, 0xa0, 0x8f, 0x90, 0x01, 0x09, 0xbe)]
T_PRED = ["[", "]", "k", "k2", "=", "'a'", "\"1\"", ".", "1", " ", "fz:k", "][", "v", "''", "'", "current()", "/", "..", "0", "-1", "+"]
VALUE_LEAVES = ["i8", "i16", "i32", "i64", "u8", "u16", "u32", "u64", "d1", "d2", "d18", "s", "sl", "sp", "b", "e", "bi", "bn", "em", "ir", "iid", "iidn",
                "lref", "lrefn", "un", "ip4", "ip4nz", "ip6", "ip6nz", "ipp4", "ipp6", "ip", "ipp", "host", "uri", "dom", "port", "dt", "hs", "mac",
                "uuid", "xp", "oid", "dpn", "tt", "pc"]


def xpath_micro(maxlen, which=("find", "eval1", "sfind", "satoms")):
    toks = [b(t) for t in T_XPATH]
    ent = {"find": "lyd_find_xpath", "find1": "lyd_find_xpath", "eval": "lyd_eval_xpath4", "eval1": "lyd_eval_xpath4", "sfind": "lys_find_xpath",
           "satoms": "lys_find_xpath_atoms"}
    for e in seqs(toks, maxlen):
        for w in which:
            yield case("xpath %s %s" % (w, hexs(e)), ent[w], "micro:xpath", e, e)


def path_micro(maxlen):
    toks = [b(t) for t in T_PATH]
    for p in seqs(toks, maxlen):
        yield case("path find %s" % hexs(p), "lyd_find_path", "micro:path", p, p)
        yield case("path new %s %s" % (hexs(p), hexs("1")), "lyd_new_path", "micro:path", p, p)
        yield case("path sfind %s" % hexs(p), "lys_find_path", "micro:path", p, p)
        yield case("value iidn 0 %s" % hexs(p), "lyd_value_validate+lyd_new_term.iidn", "micro:path-as-instid", p, p)
    toks = [b(t) for t in T_PRED]
    for p in seqs(toks, maxlen):
        full = b"/fz:c/l" + p
        yield case("path find %s" % hexs(full), "lyd_find_path", "micro:predicate", p, full)
        yield case("path new %s %s" % (hexs(full + b"/v"), hexs("1")), "lyd_new_path", "micro:predicate", p, full)
        yield case("path satoms %s" % hexs(full), "lys_find_path_atoms", "micro:predicate", p, full)


def fragment_micro(maxlen):
    for i, f in enumerate(seqs([b(t) for t in T_JSON], maxlen)):
        doc = b'{"fz:c":{' + f + b'}}'
        po, vo = ((P_ONLY | P_STRICT, 0), (P_OPAQ, V_PRESENT))[i & 1]
        yield data_case("json", doc, "micro:json-members", f, po, vo)
    for i, f in enumerate(seqs([b(t) for t in T_XML], maxlen)):
        doc = b'<c xmlns="urn:fz">' + f + b'</c>'
        po, vo = ((P_ONLY | P_OPAQ, 0), (P_STRICT, V_PRESENT))[i & 1]
        yield data_case("xml", doc, "micro:xml-elements", f, po, vo)


def lexical_micro(maxlen_small, maxlen_big):
    toks = [b(t) for t in T_INT]
    for leaf in ("i8", "u8", "i16", "i32", "i64", "u64", "d1", "d2", "d18", "pc", "port", "un", "tt"):
        ml = maxlen_big if leaf in ("i8", "u64", "d2") else maxlen_small
        for v in seqs(toks, ml):
            yield case("value %s 0 %s" % (leaf, hexs(v)), "lyd_value_validate+lyd_new_term." + leaf, "micro:number-lexical", v, v)


def utf8_micro(maxlen):
    for s in seqs(T_UTF8, maxlen):
        yield case("value s 0 %s" % hexs(s), "lyd_value_validate+lyd_new_term.s", "micro:utf8", s, s)
        yield case("opaq xml %s" % hexs(s), "lyd_parse_data_mem.xml", "micro:utf8", s, s)
        yield case("opaq jsonstr %s" % hexs(s), "lyd_parse_data_mem.json", "micro:utf8", s, s)


NUM_DIGITS = ["0", "00", "1", "10", "5", "12", "10203", "9" * 20]
NUM_MAGS = list(range(0, 26)) + [300, 65535, 65536, 100000]


def json_numbers(full):
    """the JSON number micro-grammar: sign x int x frac x exponent"""
    digs = NUM_DIGITS if full else ["0", "1", "10", "5", "12", "10203"]
    for sign in ("", "-"):
        for ip in digs:
            for fp in [None] + digs:
                mant = sign + ip + ("" if fp is None else "." + fp)
                yield mant
                for e in "eE":
                    for es in ("", "+", "-"):
                        for mg in NUM_MAGS:
                            if (e == "E" or es == "+") and mg not in (0, 1, 2, 5, 25, 65535, 65536):
                                continue
                            yield mant + e + es + str(mg)
    for x in ["", "-", ".", "e", "1.", "1.e", "1e", "1e+", "+1", "1.5.5", "1e5e5", "--1", "-.5", "0x10", "01", "1e0.5", "1e00", "1e-00", "-0e5",
              "0.0e3", "0.000", "-0.0", "0.000e9", "1e99999999999999999999", "1e-99999999999999999999", "0e99999999999999999999", "-", "-e1", "1E+", "0.e1", ".0"]:
        yield x


# ---------------------------------------------------------------------------------------------------------------
# value pools per type (boundary-dense) for `value` and for splicing into documents

VALUE_POOL = [b"", b" ", b"0", b"-0", b"+0", b"1", b"-1", b"127", b"128", b"-128", b"-129", b"255", b"256", b"32767", b"32768", b"65535", b"65536",
              b"2147483647", b"2147483648", b"-2147483648", b"-2147483649", b"4294967295", b"4294967296", b"9223372036854775807",
              b"9223372036854775808", b"-9223372036854775808", b"-9223372036854775809", b"18446744073709551615", b"18446744073709551616",
              b"99999999999999999999999999", b" 1", b"1 ", b"\t1\n", b"0x10", b"010", b"1e1", b"1.0", b"1.", b".1", b"-.1", b"0.5", b"20.25", b"20.250",
              b"9.223372036854775807", b"-9.223372036854775808", b"9.223372036854775808", b"922337203685477580.7", b"922337203685477580.8",
              b"0.0000000000000000001", b"1.0000000000000000000", b"true", b"false", b"True", b" true", b"one", b"two", b"with space", b"a", b"a b", b"b a",
              b"a  cc", b"cc a", b"a a", b"x y", b"YWJj", b"YWJ", b"YWJjZA==", b"====", b"Y W J j", b"YWJjZGVmZ2g=", b"id1", b"fz:id2", b"other", b"fz:other",
              b"nope:id1", b":id1", b"fz:", b"/fz:c/y", b"/fz:c/l[k='a'][k2='1']/v", b"/fz:c/l[k='a']", b"/fz:c/ll[.='a']", b"/fz:c/kl[1]", b"/fz:c/kl[0]",
              b"/fz:c/l[fz:k='a'][fz:k2='1']", b"/fz:c/l[k=\"a\"][k2=\"1\"]/v", b"/fz:c/l[k='a'][k2='1']/act", b"/", b"/fz:c/", b"/fz:c/l[", b"/fz:c/l[k=",
              b"b", b"10.0.0.1", b"10.0.0.256", b"1.2.3", b"01.2.3.4", b"10.0.0.1%eth0", b"10.0.0.1%", b"::", b"::1", b"2001:db8::1", b"2001:DB8::1%eth0",
              b"1:2:3:4:5:6:7:8", b"1:2:3:4:5:6:7:8:9", b"::ffff:1.2.3.4", b"fe80::1%", b":::", b"10.0.0.0/8", b"10.0.0.1/8", b"10.0.0.0/33", b"10.0.0.0/",
              b"2001:db8::/32", b"2001:db8::1/32", b"2001:db8::/129", b"::/0", b"example.com", b".", b"a..b", b"-a.com", b"http://x/y?z#w", b"urn:a:b",
              b"2020-01-01T00:00:00Z", b"2020-01-01T00:00:00.123456789+01:00", b"2020-02-30T00:00:00Z", b"2020-01-01T24:00:00Z", b"2020-01-01T00:00:00-00:00",
              b"2020-01-01t00:00:00z", b"2020-01-01T00:00:00", b"0000-01-01T00:00:00Z", b"99999-01-01T00:00:00Z", b"2020-01-01T00:00:60Z", b"0a:ff", b"0A:FF", b"0a:f",
              b"0a:", b"00:11:22:33:44:55", b"00:11:22:33:44", b"f81d4fae-7dec-11d0-a765-00a0c91e6bf6", b"F81D4FAE-7DEC-11D0-A765-00A0C91E6BF6",
              b"/fz:c/l[k='a']/v", b"count(/fz:c/l) > 1", b"deref(/)", b"//*[", b"1.3.6.1", b"1..3", b"3.1", b"1.2.3.4", b"1.2.3.4.5", b"abc", b"abcdefghij",
              b"xabc", b"ABC", b"\xc3\xa9", b"\xe2\x82\xac\xe2\x82\xac", b"\xf0\x90\x80\x80", b"\xf0\x8f\xbf\xbf", b"\xed\xa0\x80", b"\xef\xbf\xbe", b"\xc0\x80",
              b"a\x01b", b"&amp;<>\"'", b"]]>", b"x" * 30, b"x" * 300, b"7", b"100", b"101", b"20", b"-5.5", b"-5.51", b"10.00", b"5", b"-1000", b"99"]


def value_cases(rng, n_random):
    for leaf in VALUE_LEAVES:
        for v in VALUE_POOL:
            yield case("value %s 0 %s" % (leaf, hexs(v)), "lyd_value_validate+lyd_new_term." + leaf, "pool:values", v, v)
    for _ in range(n_random):
        leaf = rng.choice(VALUE_LEAVES)
        v = mutate_bytes(rng, rng.choice(VALUE_POOL), 1 + rng.randrange(3))
        opts = rng.choice((0, 0, 0, 0x02))       # LYD_NEW_VAL_STORE_ONLY
        yield case("value %s %x %s" % (leaf, opts, hexs(v)), "lyd_value_validate+lyd_new_term." + leaf, "mutated:values", v, v)


# ---------------------------------------------------------------------------------------------------------------
# raw byte mutations

INTERESTING_BYTES = [0, 1, 9, 10, 13, 32, 34, 38, 39, 45, 47, 48, 57, 58, 59, 60, 62, 91, 92, 93, 123, 125, 127, 128, 191, 192, 194, 224, 237, 239, 240, 244, 255]


def mutate_bytes(rng, s, k=1):
    s = bytearray(s)
    for _ in range(k):
        r = rng.randrange(7)
        pos = rng.randrange(len(s) + 1)
        if r == 0 and s:
            del s[min(pos, len(s) - 1)]
        elif r == 1:
            s.insert(pos, rng.choice(INTERESTING_BYTES))
        elif r == 2 and s:
            s[min(pos, len(s) - 1)] = rng.choice(INTERESTING_BYTES)
        elif r == 3 and s:
            s[min(pos, len(s) - 1)] ^= 1 << rng.randrange(8)
        elif r == 4 and s:
            a = rng.randrange(len(s)); bb = min(len(s), a + 1 + rng.randrange(16))
            s[pos:pos] = s[a:bb]
        elif r == 5 and s:
            a = rng.randrange(len(s)); bb = min(len(s), a + 1 + rng.randrange(16))
            del s[a:bb]
        else:
            s[pos:pos] = rng.choice(VALUE_POOL)[:40]
    return bytes(s).replace(b"\x00", b"\x01") if rng.random() < 0.9 else bytes(s)


# ---------------------------------------------------------------------------------------------------------------
# structure-aware mutations

RE_YANG = re.compile(rb'"(?:[^"\\]|\\.)*"|\'[^\']*\'|//[^\n]*|/\*.*?\*/|[{};]|[^\s{};"\']+|\s+', re.S)
RE_XML = re.compile(rb'<!--.*?-->|<!\[CDATA\[.*?\]\]>|<[^<>]*>|[^<]+|<', re.S)
RE_JSON = re.compile(rb'"(?:[^"\\]|\\.)*"|-?\d+(?:\.\d+)?(?:[eE][+-]?\d+)?|true|false|null|[{}\[\]:,]|\s+|.', re.S)


def tokenize(fmt, text):
    rx = {"yang": RE_YANG, "yin": RE_XML, "xml": RE_XML, "json": RE_JSON}[fmt]
    return [m.group(0) for m in rx.finditer(text)]


def tok_class(fmt, t):
    if not t.strip():
        return "ws"
    if fmt == "yang":
        if t[:1] in (b'"', b"'"): return "str"
        if t in (b"{", b"}", b";"): return t.decode()
        if t[:2] in (b"//", b"/*"): return "comment"
        return "num" if re.fullmatch(rb"[-+]?\d[\d.]*", t) else "word"
    if fmt in ("xml", "yin"):
        if t.startswith(b"</"): return "close"
        if t.startswith(b"<!") or t.startswith(b"<?"): return "special"
        if t.startswith(b"<"): return "empty" if t.endswith(b"/>") else "open"
        return "text"
    if t[:1] == b'"': return "str"
    if re.fullmatch(rb"-?\d.*", t): return "num"
    if t in (b"true", b"false", b"null"): return "lit"
    return t.decode("latin-1")


def blocks(fmt, toks):
    """(start, end) token ranges of statements / elements / members"""
    res = []
    n = len(toks)
    cls = [tok_class(fmt, t) for t in toks]
    if fmt == "yang":
        start_ok = True
        for i in range(n):
            c = cls[i]
            if c in ("ws", "comment"):
                continue
            if start_ok and c == "word":
                depth, j = 0, i
                while j < n:
                    if cls[j] == "{": depth += 1
                    elif cls[j] == "}":
                        depth -= 1
                        if depth <= 0: break
                    elif cls[j] == ";" and depth == 0: break
                    j += 1
                if j < n and depth == 0:
                    res.append((i, j + 1))
            start_ok = c in ("{", "}", ";")
    elif fmt in ("xml", "yin"):
        for i in range(n):
            if cls[i] == "empty":
                res.append((i, i + 1))
            elif cls[i] == "open":
                depth, j = 0, i
                while j < n:
                    if cls[j] == "open": depth += 1
                    elif cls[j] == "close":
                        depth -= 1
                        if depth == 0: break
                    j += 1
                if j < n:
                    res.append((i, j + 1))
    else:
        def value_end(i):
            while i < n and cls[i] == "ws": i += 1
            if i >= n: return None
            if cls[i] in ("{", "["):
                depth, j = 0, i
                while j < n:
                    if cls[j] in ("{", "["): depth += 1
                    elif cls[j] in ("}", "]"):
                        depth -= 1
                        if depth == 0: return j + 1
                    j += 1
                return None
            return i + 1
        for i in range(n):
            if cls[i] == "str":
                j = i + 1
                while j < n and cls[j] == "ws": j += 1
                if j < n and cls[j] == ":":
                    e = value_end(j + 1)
                    if e: res.append((i, e))
            elif cls[i] in ("{", "["):
                e = value_end(i)
                if e: res.append((i, e))
    return res


SPLICE = {
    "yang": [b'""', b'"\\"', b'"a" + "b"', b"'", b'"', b"{", b"}", b";", b"/*", b"//", b'"\\x"', b'"1..2 | 4"', b'"min..max"', b'"not (not a)"', b'")a("',
             b'"min||"', b'"  ../y"', b'"deref(/)"', b'"' + b"a" * 300 + b'"', b"18446744073709551616", b"-1", b"1.1", b"1", b"z:z", b"\xc3\xa9", b'"\xf0\x8f\xbf\xbf"',
             b'"[a-z-[b]]"', b'"\\p{IsX}"', b'"(("', b'"*"', b"current()", b"unbounded", b"2020-13-01", b"true", b"config", b"mandatory", b"type", b"uses", b"augment"],
    "xml": [b"&", b"&lt;", b"&#0;", b"&#x110000;", b"&#xD800;", b"<", b">", b"]]>", b"<![CDATA[", b"<!--", b"-->", b"<?x?>", b"<a/>", b"<a>", b"</a>", b"\xf0\x8f\xbf\xbf",
            b"\xed\xa0\x80", b"\x01", b" ", b"xmlns=\"urn:fz\"", b"xmlns:p=\"urn:fz\"", b"p:hint=\"x\"", b"<!DOCTYPE a>", b"-1", b"256", b"a" * 300, b"'", b"\""],
    "json": [b"\\", b"\\u0000", b"\\uD800", b"\\u00e9", b"\\x", b"\"", b"null", b"[null]", b"true", b"1e5", b"0.5e1", b"1e-5", b"-0", b"1e65535", b"1e65536",
             b"9" * 30, b"{", b"}", b"[", b"]", b":", b",", b"\"@\"", b"\"@y\"", b"\"fz:hint\"", b"\"\"", b"\xf0\x8f\xbf\xbf", b"\x01", b"[]", b"{}", b"[[]]", b"\"a\":1"],
}
SPLICE["yin"] = SPLICE["xml"] + [b"name=\"x\"", b"value=\"1..2|\"", b"<text>", b"</text>", b"xmlns=\"urn:ietf:params:xml:ns:yang:yin:1\""]


def struct_mutants(rng, fmt, text, n, all_truncations=False):
    """n structure-aware mutants of one seed (plus truncation at every token boundary when asked)"""
    toks = tokenize(fmt, text)
    if not toks:
        return
    cls = [tok_class(fmt, t) for t in toks]
    real = [i for i, c in enumerate(cls) if c != "ws"]
    blks = blocks(fmt, toks)
    by_class = {}
    for i in real:
        by_class.setdefault(cls[i], []).append(i)
    if all_truncations:
        for i in real:
            yield b"".join(toks[:i]), "truncate"
            yield b"".join(toks[:i + 1]), "truncate"
    if not real:
        return
    for _ in range(n):
        t = list(toks)
        k = rng.randrange(12)
        what = None
        if k == 0:
            i = rng.choice(real); del t[i]; what = "delete-token"
        elif k == 1:
            i = rng.choice(real); t.insert(i, t[i]); what = "duplicate-token"
        elif k == 2:
            i, j = rng.choice(real), rng.choice(real); t[i], t[j] = t[j], t[i]; what = "swap-tokens"
        elif k == 3:
            i = rng.choice(real); t = t[:i + rng.randrange(2)]; what = "truncate"
        elif k == 4:
            i = rng.choice(real); j = rng.choice(by_class[cls[i]]); t[i] = toks[j]; what = "replace-same-kind"
        elif k in (5, 6):
            i = rng.choice(real); v = rng.choice(SPLICE[fmt] if rng.random() < 0.7 else VALUE_POOL)
            if cls[i] in ("str",) and len(t[i]) >= 2 and rng.random() < 0.7:
                q = t[i][:1]; t[i] = q + v + q
            elif cls[i] == "text" or rng.random() < 0.5:
                t[i] = v
            else:
                t.insert(i, v)
            what = "splice-value"
        elif k == 7 and blks:
            a, e = rng.choice(blks); del t[a:e]; what = "delete-block"
        elif k == 8 and blks:
            a, e = rng.choice(blks); t[a:a] = toks[a:e]; what = "duplicate-block"
        elif k == 9 and len(blks) > 1:
            (a, e), (c, d) = sorted((rng.choice(blks), rng.choice(blks)))
            if e <= c:
                t = toks[:a] + toks[c:d] + toks[e:c] + toks[a:e] + toks[d:]; what = "swap-blocks"
        elif k == 10 and blks:
            a, e = rng.choice(blks); c, d = rng.choice(blks); t[c:c] = toks[a:e]; what = "move-block-copy"
        elif k == 11 and blks:
            # nest a block into itself several times (depth)
            a, e = rng.choice(blks); depth = rng.choice((2, 8, 40))
            if fmt in ("xml", "yin") and e - a >= 2:
                t = toks[:a] + [toks[a]] * depth + toks[a + 1:e - 1] + [toks[e - 1]] * depth + toks[e:]; what = "nest-block"
        if what is None:
            i = rng.choice(real); del t[i]; what = "delete-token"
        yield b"".join(t), what


# ---------------------------------------------------------------------------------------------------------------
# seeds

FZ_XML = (b'<c xmlns="urn:fz"><y>a</y><ll>a</ll><ll>b</ll><ul>3</ul><ul>1</ul><l><k>a</k><k2>1</k2><v>x</v></l><l><k>b</k><k2>2</k2></l>'
          b'<ol><k>z</k></ol><ol><k>a</k><v>&lt;&amp;</v></ol><u>e</u><lr>a</lr><wn>w</wn><mu>m</mu><cb>q</cb><pc><m>mm</m></pc>'
          b'<any><x xmlns="urn:q"><y>1</y></x></any><axml>text<b/></axml></c>'
          b'<t xmlns="urn:fz"><i8>-5</i8><u64>18446744073709551615</u64><d2>20.25</d2><s>text</s><b>true</b><e>two</e><bi>a cc</bi><bn>YWJj</bn><em/>'
          b'<ir>id2</ir><iid xmlns:f="urn:fz">/f:c/f:l[f:k=\'a\'][f:k2=\'1\']/f:v</iid><lref>b</lref><un>1.5</un><ip4>10.0.0.1</ip4><ip6>2001:db8::1</ip6>'
          b'<dt>2020-01-01T00:00:00Z</dt></t>')
FZ_XML_STATE = b'<c xmlns="urn:fz"><kl><z>1</z></kl><kl><z>2</z></kl></c>'
FZ_XML_META = b'<c xmlns="urn:fz" xmlns:f="urn:fz" f:hint="h"><y f:num="5">a</y><unknown a="1">t<child/></unknown></c><foreign xmlns="urn:none">f</foreign>'
FZ_JSON = (b'{"fz:c":{"y":"b","ll":["q","r"],"ul":[3,1],"l":[{"k":"k1","k2":7,"v":"v","@v":{"fz:hint":"h"}},{"k":"k2","k2":8}],"ol":[{"k":"z"},{"k":"a"}],'
           b'"u":3,"pc":{"m":"mm"},"ca":"ca","any":{"x":[1,2.5e1,null,{"q":true}]},"axml":[1,"2"],"@":{"fz:hint":"c"}},'
           b'"fz:t":{"i8":-5,"i64":"-9223372036854775808","u64":"18446744073709551615","d1":"0.5","d2":"2.5e0","d18":"-9.223372036854775808","b":true,'
           b'"e":"with space","bi":"a cc","bn":"YWJj","em":[null],"ir":"fz:id2","iidn":"/fz:c/l[k=\'a\'][k2=\'1\']/v","un":"x y","hs":"0a:ff","ip4":"10.0.0.1"}}')
FZ_JSON_OPAQ = b'{"fz:c":{"y":"b","unknown":{"@":{"fz:hint":"h"},"child":[1,2],"t":true,"n":null},"@y":{"fz:num":5}},"none:foreign":"f"}'
OPS = [
    ("xml", "rpc", 0, b'<r xmlns="urn:fz"><i>x</i><n>-5</n><ic><d>q</d></ic></r>'),
    ("json", "rpc", 0, b'{"fz:r":{"i":"x","n":-5,"ic":{"d":"q"}}}'),
    ("xml", "rpc", 0, b'<c xmlns="urn:fz"><l><k>a</k><k2>1</k2><act><p>x</p></act></l></c>'),
    ("json", "rpc", 0, b'{"fz:c":{"l":[{"k":"a","k2":1,"act":{"p":"x"}}]}}'),
    ("xml", "reply", 0, b'<r xmlns="urn:fz"><o>x</o><ol><k>a</k></ol><ol><k>b</k></ol></r>'),
    ("json", "reply", 0, b'{"fz:r":{"o":"x","ol":[{"k":"a"}]}}'),
    ("xml", "reply", 0, b'<c xmlns="urn:fz"><l><k>a</k><k2>1</k2><act><q>x</q></act></l></c>'),
    ("xml", "notif", 0, b'<n1 xmlns="urn:fz"><sev>low</sev><info><msg>m</msg></info></n1>'),
    ("json", "notif", 0, b'{"fz:n1":{"sev":"high","info":{"msg":"m"}}}'),
    ("xml", "notif", 0, b'<c xmlns="urn:fz"><l><k>a</k><k2>1</k2><ln><z>zz</z></ln></l></c>'),
    ("xml", "rpc-netconf", 0, b'<rpc xmlns="urn:ietf:params:xml:ns:netconf:base:1.0" message-id="1" xmlns:x="urn:x" x:a="b"><r xmlns="urn:fz"><i>x</i></r></rpc>'),
    ("xml", "rpc-netconf", 0, b'<rpc xmlns="urn:ietf:params:xml:ns:netconf:base:1.0" message-id="2"><action xmlns="urn:ietf:params:xml:ns:yang:1"><c xmlns="urn:fz"><l><k>a</k><k2>1</k2><act><p>x</p></act></l></c></action></rpc>'),
    ("xml", "notif-netconf", 0, b'<notification xmlns="urn:ietf:params:xml:ns:netconf:notification:1.0"><eventTime>2020-01-01T00:00:00Z</eventTime><n1 xmlns="urn:fz"><sev>low</sev></n1></notification>'),
    ("xml", "reply-netconf", 1, b'<rpc-reply xmlns="urn:ietf:params:xml:ns:netconf:base:1.0" message-id="1"><o xmlns="urn:fz">x</o><ol xmlns="urn:fz"><k>a</k></ol></rpc-reply>'),
    ("xml", "reply-netconf", 1, b'<rpc-reply xmlns="urn:ietf:params:xml:ns:netconf:base:1.0" message-id="1"><ok/></rpc-reply>'),
    ("xml", "reply-netconf", 1, b'<rpc-reply xmlns="urn:ietf:params:xml:ns:netconf:base:1.0" message-id="1"><rpc-error><error-type>rpc</error-type><error-tag>bad-element</error-tag>'
                                b'<error-severity>error</error-severity><error-app-tag>t</error-app-tag><error-path xmlns:f="urn:fz">/f:c</error-path><error-message xml:lang="en">m</error-message>'
                                b'<error-info><bad-element>x</bad-element><any xmlns="urn:q">y</any></error-info></rpc-error></rpc-reply>'),
    ("xml", "reply-netconf", 2, b'<rpc-reply xmlns="urn:ietf:params:xml:ns:netconf:base:1.0" message-id="1"><q xmlns="urn:fz">x</q></rpc-reply>'),
    ("json", "rpc-restconf", 1, b'{"fz:input":{"i":"x","n":5}}'),
    ("xml", "rpc-restconf", 1, b'<input xmlns="urn:fz"><i>x</i></input>'),
    ("json", "rpc-restconf", 2, b'{"fz:input":{"p":"x"}}'),
    ("json", "notif-restconf", 0, b'{"ietf-restconf:notification":{"eventTime":"2020-01-01T00:00:00Z","fz:n1":{"sev":"low"}}}'),
    ("json", "reply-restconf", 1, b'{"fz:output":{"o":"x","ol":[{"k":"a"}]}}'),
    ("xml", "reply-restconf", 1, b'<output xmlns="urn:fz"><o>x</o></output>'),
]
YIN_SEED = (b'<?xml version="1.0" encoding="UTF-8"?>\n<module name="yinseed" xmlns="urn:ietf:params:xml:ns:yang:yin:1" xmlns:ys="urn:yinseed">'
            b'<yang-version value="1.1"/><namespace uri="urn:yinseed"/><prefix value="ys"/><revision date="2020-01-01"><description><text>r</text></description></revision>'
            b'<feature name="f"/><typedef name="t"><type name="int8"><range value="1..10 | 20"><error-message><value>em</value></error-message></range></type></typedef>'
            b'<container name="c"><leaf name="l"><if-feature name="f"/><type name="t"/><default value="5"/></leaf>'
            b'<list name="li"><key value="k"/><leaf name="k"><type name="string"><pattern value="[a-z]+"/><length value="1..5"/></type></leaf>'
            b'<leaf name="r"><type name="leafref"><path value="../../l"/></type></leaf><must condition="k != \'x\'"/></list></container></module>')
YANG_SEED = (b'module yseed {yang-version 1.1; namespace "urn:yseed"; prefix ys; import ietf-yang-types {prefix yang; revision-date 2013-07-15;}'
             b' revision 2020-01-01 {description "d";} feature f; feature g {if-feature "f or not f";} identity i0; identity i1 {base i0;}'
             b' typedef t {type int8 {range "1..10 | 20";} default "5"; units "u";} typedef dt {type decimal64 {fraction-digits 2; range "1.5..10";}}'
             b' extension e {argument a {yin-element true;}} grouping g {leaf gl {type t;} leaf-list gll {type string {pattern \'[a-z]+\' {modifier invert-match;} length "1..5";}}}'
             b' container c {presence "p"; uses g {refine gl {default "7";} augment "." {leaf ag {type string;}}} leaf l {if-feature "f and (g or f)"; type dt {range "2..3 | 5.55";} must ". > 1" {error-message "m"; error-app-tag "t";}}'
             b' list li {key "k1 k2"; unique "u c2/u2"; min-elements 0; max-elements unbounded; ordered-by user; leaf k1 {type string;} leaf k2 {type uint8;} leaf u {type string;} container c2 {leaf u2 {type string;}}'
             b' leaf r {type leafref {path "../../li[k1=current()/../u]/k2"; require-instance false;}} action a {input {leaf i {type bits {bit b0; bit b1 {position 7;}} default "b1 b0";}}} notification n {leaf x {type enumeration {enum a; enum b {value -5;}}}}}'
             b' choice ch {default ca; case ca {leaf x1 {type union {type int8; type identityref {base i0;} type instance-identifier; type yang:date-and-time;}}} leaf x2 {when "../l = 2.5"; type empty;}}'
             b' anydata ad; anyxml ax; ys:e "arg";} augment "/ys:c/ys:li" {leaf aug {type binary {length "2..4";}}} deviation "/ys:c/ys:gll" {deviate add {max-elements 5;}}'
             b' rpc rp {input {leaf i {type string; mandatory true;}} output {leaf o {type boolean;}}} notification nt {leaf s {type string;}}}')


def load_seeds(repo):
    """seed documents by target: list of (fmt, target, bytes, name)"""
    seeds = []
    cdir = os.path.join(repo, "tests", "fuzz", "corpus")
    for sub, tgt in (("lys_parse_mem", "schema"), ("lyd_parse_mem_xml", "data-xml"), ("lyd_parse_mem_json", "data-json")):
        d = os.path.join(cdir, sub)
        if not os.path.isdir(d):
            continue
        for f in sorted(os.listdir(d)):
            data = open(os.path.join(d, f), "rb").read()
            if tgt == "schema":
                fmt = "yin" if data.lstrip()[:1] == b"<" else "yang"
                seeds.append((fmt, "schema", data, "corpus/" + f))
            else:
                seeds.append((tgt[5:], "data", data, "corpus/" + f))
    mdir = os.path.join(repo, "tests", "modules", "yang")
    if os.path.isdir(mdir):
        for f in sorted(os.listdir(mdir)):
            if f.endswith(".yang"):
                seeds.append(("yang", "schema-big", open(os.path.join(mdir, f), "rb").read(), "modules/" + f))
    seeds.append(("yang", "schema", YANG_SEED, "own/yseed"))
    seeds.append(("yin", "schema", YIN_SEED, "own/yinseed"))
    for name, doc in (("fz", FZ_XML), ("fz-state", FZ_XML_STATE), ("fz-meta", FZ_XML_META)):
        seeds.append(("xml", "data", doc, "own/" + name))
    for name, doc in (("fz", FZ_JSON), ("fz-opaq", FZ_JSON_OPAQ)):
        seeds.append(("json", "data", doc, "own/" + name))
    return seeds
