"""C16 — one context can be shared by concurrent readers.

(P)  lean/LyModel/Props/C16.lean over the lock paths re-extracted from dict.c/log.c/lyb.c on every run.
(K)  harness/wb_log.c    deterministic schedule replay on the real log.c / dict.c   == LyModel.Conc.errRun / exec
     harness/wb_canon.c  deterministic check-then-set replay on the real bits.c     == LyModel.Conc.lrun
(L)+(R) harness/api_threads.c   N real threads on one context, ASan and TSan builds; every thread's digest of all
     its outputs and error records is compared with the serial run of the same script; every sanitizer report is a
     failure and is classified by the functions on its stacks.
"""
import itertools, os, re, subprocess, time
from vlib import paths, proto

LEAN_TARGETS = ["LyModel.Props.C16"]
AUDIT = "Audit/C16.lean"
GENERATED = ["LockPaths", "Consts"]
ASSUMPTIONS = [
    "pthread mutexes: lock/unlock delimit atomic sections (DESIGN §3); the hash-table primitives lyht_* act atomically on the table they are given when called under its mutex",
    "the path extractor treats every event of a statement as happening (no short-circuit), follows each loop body zero times and once, and recognises shared accesses by the field names listed in tools/extractors/conc.py",
    "context creation/destruction (ly_ctx_new, ly_ctx_destroy, lydict_init, lydict_clean) runs while no other thread uses the context",
    "reads of lysc_node.hash[] outside lyb_hash_lock are preceded, in the reading thread, by its own lyb_cache_module_hash() call (write-once publication)",
    "glibc tzset()/localtime_r() are MT-safe; ThreadSanitizer cannot see libc-internal locks (suppressions in corpus/conc/tsan.supp)",
    "data races at the memory-model level are not exhibited by the Lean model: that part is carried by TSan on the schedules the harness happens to produce (R)",
]
TRUSTED = ["tools/extractors/conc.py (lock-path extractor, light C front end)", "clang-14 AddressSanitizer / ThreadSanitizer",
           "harness/wb_log.c baton scheduler (one runnable thread at a time, switch at pthread_mutex_unlock of log.c)"]

SUPP = os.path.join(paths.CORPUS, "conc", "tsan.supp")

# the print callbacks with an unsynchronised lazy `_canonical` fill (Generated.lazyCanonSites, proved in Props.C16.lazy_canon_sites)
LAZY_SITES = {"lyplg_type_print_binary", "lyplg_type_print_bits", "lyplg_type_print_date_and_time", "lyplg_type_print_ipv4_address",
              "lyplg_type_print_ipv4_address_no_zone", "lyplg_type_print_ipv4_prefix", "lyplg_type_print_ipv6_address",
              "lyplg_type_print_ipv6_address_no_zone", "lyplg_type_print_ipv6_prefix", "lyplg_type_print_union"}
ERR_DEREF = {"ly_err_first", "ly_err_last", "ly_err_clean", "log_store", "ly_err_move"}


# --------------------------------------------------------------------------------- classification
def classify(component, what, case):
    """Only the four mechanisms below; anything else stays a violation."""
    if not isinstance(case, dict):
        return None
    fr = set(case.get("frames") or [])
    flags = case.get("flags")
    kind = case.get("kind", "")
    if kind == "sanitizer":
        if "lyb_union_print" in fr:
            # since the repair of F72 lyb_union_print only READS the shared member value (struct copy into a temporary); when the
            # writer of the race is the lazy `_canonical` fill of that member by another thread's printer (a lazy site other than
            # the union's own, publishing through the dictionary) this is the known race F9 seen by one more reader
            lazy = (fr & LAZY_SITES) - {"lyplg_type_print_union"}
            if case.get("summary", "").startswith("data race") and lazy and (fr & {"dict_insert", "lydict_insert", "lydict_insert_zc"}) \
                    and re.search(r"Previous write of size \d+ at \S+ by thread T\d+[^\n]*\n\s+#0 (dict_insert|lydict_insert)", case.get("text", "")):
                return "F9"
            return "F72"                                   # LYB print of a union re-stores the shared member value
        if "ly_err_new_rec" in fr and ("lyht_resize" in fr or "_lyht_insert_with_resize_cb" in fr) and (fr & ERR_DEREF or "ly_err_get_rec" in fr):
            return "F8"                                    # record array replaced while another thread holds a pointer into it
        if "F8" in (case.get("prior") or []) and flags is not None and not (flags & 1) and \
                re.search(r"in (ly_err_clean|ly_err_free|ly_err_first|ly_err_last|log_store)\b", case.get("summary", "")):
            return "F8"                                    # the stale record pointer is used again later in the same process
        if "lyd_new_path_check_find_lypath" in fr and re.search(r"^data race .*in (lyd_new_path_check_find_lypath|lysc_type_free)\b", case.get("summary", "")):
            return "F73"                                   # non-atomic ++type->refcount on the shared compiled type
        if {"lysc_type_free", "ly_path_predicates_free", "lyd_new_path_"} <= fr and flags is not None and (flags & 32):
            return "F73"                                   # … whose lost update lets lyd_new_path free the type under the other threads
        if case.get("summary", "").startswith("SEGV") and flags is not None and (flags & 32) and "F73" in (case.get("prior") or []):
            return "F73"                                   # … and the crash that follows in the same process
        if flags is not None and (flags & 16):
            # F72 corrupts the shared value: what follows in the same process, and the printers' error exits when a
            # half-built value cannot be printed, are consequences — only in the regime with shared unions
            if case.get("summary", "").startswith("SEGV") and ("F72" in (case.get("prior") or []) or
                                                              fr & {"lyplg_type_print_union", "lyplg_type_compare_union", "lyplg_type_sort_union"}):
                return "F72"                               # … incl. a reader that finds the member value zeroed (realtype NULL)
            if "leaked in" in case.get("summary", "") and fr & {"json_print_data", "xml_print_data", "lyb_print_data"}:
                return "F72"
            if "runtime error" in case.get("summary", "") and (fr & {"lyplg_type_print_union", "union_store_type"} or
                                                                re.search(r"union\.c:\d+:\d+: runtime error: member access within null pointer", case.get("summary", ""))):
                return "F72"                               # the member value is read while another thread re-stores it (NULL realtype / items)
        if fr & LAZY_SITES and case.get("summary", "").startswith("data race"):
            return "F9"                                    # lazy _canonical fill / its freshly published string
        return None
    if kind == "surplus" and flags is not None and not (flags & 2):
        return "F9"                                        # surplus dictionary reference on a tree that was not pre-printed
    if kind == "surplus" and flags is not None and (flags & 16):
        return "F72"                                       # re-stored union member is filled lazily again
    if kind == "digest" and flags is not None and (flags & 16):
        return "F72"                                       # a reader saw the half-built member value (e.g. ip 0.0.0.0)
    if kind == "model-stale":
        return "F8"
    if kind == "lazy-surplus":
        return "F9"
    return None


def report_blocks(stderr):
    """Sanitizer reports in a stderr text -> list of (summary, frames, text)."""
    out = []
    if "ThreadSanitizer" in stderr:
        for b in re.split(r"^==================\s*$", stderr, flags=re.M):
            m = re.search(r"(?:WARNING|ERROR): ThreadSanitizer: ([^\n]*)", b)
            if not m:
                continue
            s = re.search(r"^SUMMARY: ThreadSanitizer: ([^\n]*)", b, re.M)
            out.append(((s.group(1) if s else m.group(1)).strip(), sorted(set(re.findall(r"#\d+ (?:0x[0-9a-f]+ in )?([A-Za-z_]\w*)", b))), b))
    for m in re.finditer(r"==\d+==ERROR: (AddressSanitizer|LeakSanitizer): [^\n]*\n.*?(?=\n==\d+==ERROR|\Z)", stderr, re.S):
        b = m.group(0)
        s = re.search(r"^SUMMARY: \w+Sanitizer: ([^\n]*)", b, re.M)
        head = b.split("\n")[0]
        out.append(((s.group(1) if s else head).strip(), sorted(set(re.findall(r"#\d+ 0x[0-9a-f]+ in ([A-Za-z_]\w*)", b))), b))
    for m in re.finditer(r"[^\n]*runtime error:[^\n]*(?:\n\s+#\d+ [^\n]*)*", stderr):
        b = m.group(0)
        out.append((b.split("\n")[0].strip(), sorted(set(re.findall(r"#\d+ 0x[0-9a-f]+ in ([A-Za-z_]\w*)", b))), b))
    return out


def strip_addr(s):
    return re.sub(r"0x[0-9a-f]+|\(pid=\d+\)|\+0x[0-9a-f]+|/\S+/", "", s)


# --------------------------------------------------------------------------------------- plumbing
def run_one(exe, line, config, timeout=300, halt=False):
    e = dict(os.environ); e.update(proto.ASAN_ENV)
    if config == "tsan":
        e["TSAN_OPTIONS"] = "exitcode=95:halt_on_error=%d:second_deadlock_stack=1:suppressions=%s" % (1 if halt else 0, SUPP)
    try:
        p = subprocess.run([exe], input=(line + "\n").encode(), stdout=subprocess.PIPE, stderr=subprocess.PIPE, timeout=timeout, env=e)
        out, err, rc = p.stdout.decode("utf-8", "replace"), p.stderr.decode("utf-8", "replace"), p.returncode
    except subprocess.TimeoutExpired as ex:
        out, err, rc = (ex.stdout or b"").decode("utf-8", "replace"), (ex.stderr or b"").decode("utf-8", "replace") + "\nTIMEOUT", -9
    reply = None
    for l in out.split("\n"):
        t = l.split()
        if len(t) >= 2 and t[0] == line.split()[0] and t[1] in ("ok", "err"):
            reply = t[1:]
    return reply, rc, err


def report_failures(cx, comp, line, err, extra):
    """every sanitizer report of one process run becomes one failure (deduplicated by summary)"""
    seen = set()
    prior = []
    blocks = report_blocks(err)
    for summ, frames, text in blocks:
        key = strip_addr(summ)
        if key in seen:
            continue
        seen.add(key)
        case = dict(extra); case.update({"kind": "sanitizer", "line": line, "frames": frames, "summary": summ, "prior": list(prior),
                                         "text": text[:2500]})
        fid = cx.fail(comp, "sanitizer report: " + key[:160], case)
        if fid:
            prior.append(fid)
    return len(blocks)


# ------------------------------------------------------------------------------------- generators
def merges(counts):
    """all interleavings (as lists of thread ids) of threads with the given step counts"""
    total = sum(counts)
    def rec(rem, acc):
        if len(acc) == total:
            yield list(acc); return
        for t, c in enumerate(rem):
            if c:
                rem[t] -= 1; acc.append(t)
                yield from rec(rem, acc)
                acc.pop(); rem[t] += 1
    yield from rec(list(counts), [])


def steps_of(prog):
    return sum(3 if c[0] == "L" else 2 for c in prog)


def prog_str(prog):
    return ".".join(prog) if prog else "-"


def random_merge(rng, counts):
    pool = [t for t, c in enumerate(counts) for _ in range(c)]
    rng.shuffle(pool)
    return pool


def gen_errsched(cx):
    rng = cx.sub_rng("errsched")
    cases = []
    # exhaustive: every interleaving of two small programs
    for progs in ([["L1", "F"], ["L2", "F"]], [["L1", "C", "F"], ["L2"]], [["F", "L1", "F"], ["L2", "F"]]):
        for m in merges([steps_of(p) for p in progs]):
            cases.append((progs, m))
    # random: up to 5 threads below the threshold, 6..9 threads around it
    ne = 0
    for _ in range(cx.n(260, 6000)):
        n = rng.choice([1, 2, 3, 3, 4, 5, 5, 6, 6, 7, 8, 9])
        progs = []
        for t in range(n):
            k = rng.choice([1, 1, 2, 2, 3, 4])
            p = []
            for _ in range(k):
                r = rng.random()
                if r < 0.5:
                    ne += 1; p.append("L%d" % ne)
                elif r < 0.85:
                    p.append("F")
                else:
                    p.append("C")
            progs.append(p)
        counts = [steps_of(p) for p in progs]
        if rng.random() < 0.3:      # nearly serial: far fewer stale schedules
            order = list(range(n)); rng.shuffle(order)
            m = [t for t in order for _ in range(counts[t])]
            for _ in range(rng.randrange(0, 4)):
                i, j = rng.randrange(len(m)), rng.randrange(len(m))
                m[i], m[j] = m[j], m[i]
        else:
            m = random_merge(rng, counts)
        cases.append((progs, m))
    # malformed: incomplete / overlong / out-of-range schedules
    cases.append(([["L1"], ["F"]], [0, 0, 1]))
    cases.append(([["L1"], ["F"]], [0, 0, 0, 1, 1, 1]))
    cases.append(([["L1"], ["F"]], [0, 0, 0, 1, 2]))
    return cases


def errsched_line(i, progs, m):
    return "%d conc errsched %d %s %s" % (i, len(progs), " ".join(prog_str(p) for p in progs), ".".join(map(str, m)) if m else "-")


F8_WITNESS = ([["L100", "F"], ["L101"], ["L102"], ["L103"], ["L104"], ["L105"]],
              [0, 0, 0, 1, 1, 1, 2, 2, 2, 3, 3, 3, 4, 4, 4, 0, 5, 5, 5, 0])       # = LyModel.Conc.staleSchedule 6


def gen_dict_threads(rng, owned=True):
    """thread programs over a small string universe that follow the reference discipline"""
    strs = ["76712d61", "76712d62", "76712d63"]
    n = rng.randrange(1, 5)
    ts = []
    for t in range(n):
        bal = {s: 0 for s in strs}
        p = []
        for _ in range(rng.randrange(1, 8)):
            s = rng.choice(strs)
            r = rng.random()
            if r < 0.45 or (owned and bal[s] == 0):
                p.append("i%d:%s" % (t, s)); bal[s] += 1
            elif r < 0.7:
                p.append("d%d:%s" % (t, s)); bal[s] += (1 if owned else 0)
            else:
                p.append("r%d:%s" % (t, s)); bal[s] = max(0, bal[s] - 1)
        ts.append(p)
    return ts


def interleave(ts, order):
    pos = [0] * len(ts)
    out = []
    for t in order:
        out.append(ts[t][pos[t]]); pos[t] += 1
    return out


# -------------------------------------------------------------------------------------------- run
def corpus_lines():
    out = []
    try:
        for l in open(os.path.join(paths.CORPUS, "conc", "seeds.txt")):
            l = l.strip()
            if l and not l.startswith("#"):
                out.append(l)
    except OSError:
        pass
    return out


def run(cx):
    t_start = time.time()
    run_wb_log(cx)
    run_wb_canon(cx)
    run_threads(cx, "asan")
    left = cx.n(90, 900) - (time.time() - t_start)
    run_threads(cx, "tsan", budget=max(15, left))


def run_wb_log(cx):
    cx.rule("conc/errsched: every interleaving of 3 two-thread program pairs exhaustively + random programs (1-9 threads, calls log/first/clean) under "
            "random and nearly-serial merges; the model says which schedules dereference a stale record pointer, those are run one process each and must "
            "abort in ASan with the F8 stacks, all others must reply token for token like the model; non-trivial = distinct request")
    cases = gen_errsched(cx)
    wl = errsched_line(900000, *F8_WITNESS)         # the model's own witness schedule first
    seeds = ["%d conc %s" % (800000 + i, l) for i, l in enumerate(corpus_lines()) if l.startswith("errsched")]
    lines = [wl] + seeds + [errsched_line(i, p, m) for i, (p, m) in enumerate(cases)]
    lines = list(dict.fromkeys(lines))
    rm = cx.run_model(lines)
    ok_lines, stale_lines = [], []
    for l in lines:
        r = rm.get(l.split()[0], ["err", "NoReply"])
        (stale_lines if r[:2] == ["err", "Stale"] else ok_lines).append(l)

    def kind(line, reply):
        return "conc:errsched:" + (reply[0] if reply[0] == "ok" else reply[1])
    cx.differential("conc", ok_lines, "wb_log", kind=kind, timeout=240)

    exe = cx.harness("wb_log")
    # schedules the model calls stale: the library itself must touch freed memory (F8), one process per schedule
    rng = cx.sub_rng("stale-pick")
    pick = stale_lines if len(stale_lines) <= cx.n(6, 60) else rng.sample(stale_lines, cx.n(6, 60))
    pick = [l for l in [wl] + seeds if l in stale_lines and l not in pick] + pick
    cx.dist["conc:errsched:model-says-stale"] += len(stale_lines)
    for l in pick:
        reply, rc, err = run_one(exe, l, "asan")
        cx.count(" ".join(l.split()[1:]), True, "conc:errsched:model-stale")
        blocks = report_blocks(err)
        uaf = [b for b in blocks if "heap-use-after-free" in b[0] and "ly_err_new_rec" in b[1] and "lyht_resize" in b[1]]
        if uaf:
            fid = cx.fail("conc", "stale error-record pointer dereferenced (model: stalePointer; ASan: %s)" % strip_addr(uaf[0][0])[:100],
                          {"kind": "sanitizer", "line": l, "frames": uaf[0][1], "text": uaf[0][2][:2500]})
            continue
        # the model predicts a use-after-free and the code does not show one
        if reply is not None and reply[0] == "ok":
            cx.disagree("conc", l, reply, ["err", "Stale"])
        else:
            cx.fail("conc", "schedule the model calls stale: harness died differently", {"kind": "other", "line": l, "stderr": err[-2000:]})
    cx.sample(wl)

    # dictionary: op semantics, then the law of dict_linearizable on the implementation
    cx.rule("conc/dictsched: random insert/remove/dup sequences over 3 strings (model == dict.c refcounts and return codes); law: thread programs that "
            "follow the reference discipline give the same final refcounts and per-thread returns under 2 random interleavings and a serial order")
    rng = cx.sub_rng("dict")
    dl = []
    for i in range(cx.n(250, 5000)):
        ts = gen_dict_threads(rng, owned=rng.random() < 0.5)
        order = random_merge(rng, [len(p) for p in ts])
        dl.append("%d conc dictsched %s" % (100000 + i, " ".join(interleave(ts, order))))
    dl.append("199999 conc dictsched")
    dl += ["%d conc %s" % (190000 + i, l) for i, l in enumerate(corpus_lines()) if l.startswith("dictsched")]
    cx.differential("conc", list(dict.fromkeys(dl)), "wb_log", kind=lambda l, r: "conc:dictsched:" + r[0])
    law_lines, groups = [], []
    for g in range(cx.n(60, 1500)):
        ts = gen_dict_threads(rng, owned=True)
        counts = [len(p) for p in ts]
        serial = [t for t in rng.sample(range(len(ts)), len(ts)) for _ in range(counts[t])]
        scheds = [random_merge(rng, counts), random_merge(rng, counts), serial]
        ids = []
        for s in scheds:
            i = 200000 + len(law_lines)
            law_lines.append("%d conc dictsched %s" % (i, " ".join(interleave(ts, s))))
            ids.append((str(i), s))
        groups.append((ts, ids))
    rr = cx.run_impl("wb_log", law_lines, component="conc")
    for ts, ids in groups:
        views = []
        for i, s in ids:
            r = rr.get(i, ["err", "NoReply"])
            if r[0] != "ok":
                views.append(None); continue
            rets = r[1].split(".") if r[1] != "-" else []
            per = {}
            for t, ret in zip(s, rets):
                per.setdefault(t, []).append(ret)
            names = list(dict.fromkeys(o.split(":")[1] for o in interleave(ts, s)))
            views.append((dict(zip(names, r[2].split("."))), per))
        cx.count(("dictlaw", tuple(map(tuple, ts))), True, "conc:dict-law")
        if None in views or any(v != views[0] for v in views[1:]) or any("N" in x or "E" in x or "Pdiff" in x for v in views for x in v[1].values()):
            cx.fail("conc", "dictionary: interleavings of disciplined threads disagree with the serial order",
                    {"kind": "dict-law", "threads": ts, "schedules": [s for _, s in ids], "views": views})


def run_wb_canon(cx):
    cx.rule("conc/lazy: k = 1..8 readers of one bits value all inside the check-then-set window (deterministic, via the insert hook), with and without "
            "a cached canonical string: model == bits.c on dictionary references after the readers and after freeing the value")
    lines = []
    for k in range(1, 9):
        for pre in (0, 1):
            lines.append("%d conc lazy %d %d" % (300000 + k * 2 + pre, k, pre))
    ri, rm = cx.differential("conc", lines, "wb_canon", kind=lambda l, r: "conc:lazy:" + r[0])
    for l in lines:
        r = ri.get(l.split()[0], ["err", "NoReply"])
        k, pre = int(l.split()[3]), int(l.split()[4])
        if r[0] != "ok":
            continue
        after, freed, same = int(r[1]), int(r[2]), int(r[3])
        if same != 1:
            cx.fail("conc", "lazy canonical: readers obtained different strings", {"kind": "lazy-value", "line": l, "reply": r})
        if freed != 0:
            # law: freeing the value leaves no reference behind
            cx.fail("conc", "lazy canonical: %d surplus dictionary reference(s) after %d readers raced in the check-then-set window" % (freed, k),
                    {"kind": "lazy-surplus" if (pre == 0 and k >= 2) else "lazy-surplus-unexpected", "line": l, "reply": r})
    cx.sample(lines[2])


# configurations of api_threads: (N, mode, flags, iterations)
def thread_configs(cx, config):
    q = cx.tier != "thorough"
    it = (3 if q else 12) if config == "tsan" else (6 if q else 40)
    cfgs = []
    # the regime in which the property is claimed to hold: records pre-created, shared tree pre-printed, no union in the shared tree
    for n in (2, 4, 8, 16):
        cfgs.append((n, 31, 3, it))
    cfgs.append((8, 31, 7, it))            # shared tree parsed from LYB
    cfgs.append((4, 31, 11, it))           # LY_LOSTORE
    cfgs.append((16, 8, 1, it * 3))        # errors only
    cfgs.append((16, 4, 3, it * 6))        # dictionary only
    cfgs.append((16, 16, 3, it * 3))       # shared reads only
    cfgs.append((8, 18, 3, it * 3))        # shared + schema
    cfgs.append((8, 1, 3, it))             # private trees only
    # regimes with a known finding in reach
    cfgs.append((16, 24, 2, it * 3))       # F8: records created concurrently with readers
    cfgs.append((16, 16, 1, it * 2))       # F9: shared tree never printed before
    cfgs.append((8, 16, 5, it * 2))        # F9 on LYB-parsed values
    cfgs.append((8, 16, 19, it * 2))       # F72: union-typed leaves in the shared tree, LYB print
    cfgs.append((8, 1, 35, it * 2))        # F73: lyd_new_path(leaf-list, value) by several threads
    cfgs.append((16, 31, 0, it))           # everything at once
    if not q:
        for n in (2, 4, 8, 16):
            cfgs.append((n, 31, 0, it)); cfgs.append((n, 31, 16, it)); cfgs.append((n, 27, 3, it * 2)); cfgs.append((n, 1, 35, it))
    return cfgs


def run_threads(cx, config, budget=None):
    cx.rule("api_threads (%s build): N in {2,4,8,16} threads x {private parse/validate/print/xpath/diff/dup/free, schema reads, dictionary, own "
            "errors, reads of one shared tree}; law: every thread's digest equals the serial run, no foreign error record, no surplus dictionary "
            "reference, no sanitizer report; non-trivial = distinct (config, seed) that ran to a reply" % config)
    exe = cx.harness("api_threads", config)
    t0 = time.time()
    rng = cx.sub_rng("threads-" + config)
    cfgs = thread_configs(cx, config)
    if cx.tier == "thorough":
        cfgs = cfgs * 3                     # what a run shows depends on timing: repeat with other seeds
    for ci, (n, mode, flags, it) in enumerate(cfgs):
        if budget is not None and time.time() - t0 > budget:
            cx.notes.append("api_threads/%s: time budget reached after %d configurations" % (config, ci))
            break
        seed = rng.randrange(0, 5) if ci < 40 else rng.randrange(0, 1000)
        line = "%d conc run %d %d %d %d %d" % (400000 + ci, n, mode, flags, it, seed)
        # F72 and F73 corrupt memory shared by all threads: in those regimes the run stops at the first report (what
        # follows a corrupted heap is arbitrary); everywhere else every report of the run is collected
        reply, rc, err = run_one(exe, line, config, timeout=240, halt=bool(flags & 48))
        extra = {"flags": flags, "mode": mode, "n": n, "config": config}
        nrep = report_failures(cx, "api_threads", line, err, extra)
        good = (flags & 3) == 3 and not (flags & 16)
        cx.count((config, n, mode, flags, it, seed), reply is not None and reply[0] == "ok",
                 "api_threads:%s:%s" % (config, "ok" if reply and reply[0] == "ok" else "died"))
        cx.dist["api_threads:%s:%s" % (config, "claimed-regime" if good else "finding-regime")] += 1
        if reply is None or reply[0] != "ok":
            if not nrep:
                cx.fail("api_threads", "harness died without a sanitizer report (rc=%s)" % rc,
                        dict(extra, kind="died", line=line, stderr=err[-2000:]))
            continue
        equal, mism, ops, wrong, surplus = int(reply[2]), reply[3], int(reply[4]), int(reply[5]), int(reply[6])
        if equal != n:
            cx.fail("api_threads", "threads %s obtained results that differ from their serial run" % mism,
                    dict(extra, kind="digest", line=line, reply=reply))
        if wrong:
            cx.fail("api_threads", "ly_err_last() did not show the calling thread's own error record (%d times)" % wrong,
                    dict(extra, kind="foreign-error", line=line, reply=reply))
        if surplus:
            cx.fail("api_threads", "%d surplus reference(s) to canonical strings of the shared tree left in the dictionary" % surplus,
                    dict(extra, kind="surplus", line=line, reply=reply))
        if rc != 0 and not nrep:
            cx.fail("api_threads", "harness exit status %s without a report" % rc, dict(extra, kind="exit", line=line, stderr=err[-2000:]))
        cx.sample(line)


def replay(cx, payload):
    f = payload.get("failure", {})
    case = f.get("case", {})
    line = case.get("line")
    if not line:
        return run(cx)
    op = line.split()[2]
    if op == "run":
        config = case.get("config", "asan")
        reply, rc, err = run_one(cx.harness("api_threads", config), line, config)
        n = report_failures(cx, "api_threads", line, err, {"flags": case.get("flags"), "config": config})
        print("replay:", line, "->", reply, "rc", rc, "reports", n)
    else:
        h = "wb_canon" if op == "lazy" else "wb_log"
        reply, rc, err = run_one(cx.harness(h), line, "asan")
        report_failures(cx, "conc", line, err, {})
        print("replay:", line, "->", reply, "rc", rc, "model", cx.run_model([line]))
