"""C11, load-order independence for *chained* augments (added after the seeded regression C11-augment-set-restart was missed):
module sets in which an augment targets a node that another augment creates, together with sibling augments of the same target,
spread over 1-4 modules.  Law on the implementation: every load order x {immediate, explicit compile} of a valid set compiles, and
the effective schema of every module is the same up to the order of sibling nodes contributed by different augments."""
import itertools, re
from vlib.proto import hexs, unhex

HARNESS = "api_compile"


def gen_set(rng, idx):
    """-> list of (name, yang_text); module 0 is the base"""
    base = "ca%da" % idx
    mods = {base: ["container n { leaf x { type string; } }"]}
    nodes = [(base, "/%s:n" % base)]          # (owner module, absolute path with prefixes = module names)
    nmod = rng.randrange(1, 4)
    names = [base] + ["ca%d%s" % (idx, chr(98 + i)) for i in range(nmod)]
    augs = {m: [] for m in names}
    k = 0
    for step in range(rng.randrange(3, 7)):
        tmod, tpath = rng.choice(nodes)
        need = max(names.index(p) for p in re.findall(r"/([\w]+):", tpath))
        owner = rng.choice(names[need:])       # imports only point to modules of lower index: no import cycles
        k += 1
        cname = "c%d" % k
        if rng.random() < 0.6:
            augs[owner].append((tpath, "container %s { leaf v%d { type string; } }" % (cname, k)))
            nodes.append((owner, tpath + "/%s:%s" % (owner, cname)))
        else:
            augs[owner].append((tpath, "leaf l%d { type int8; }" % k))
    out = []
    for m in names:
        used = sorted({p for (tp, _) in augs[m] for p in re.findall(r"/([\w]+):", tp)} - {m})
        body = ["  yang-version 1.1;", '  namespace "urn:%s";' % m, "  prefix %s;" % m] + ["  import %s { prefix %s; }" % (u, u) for u in used]
        body += ["  " + s for s in mods.get(m, [])]
        a = list(augs[m])
        rng.shuffle(a)                          # nested augments may well come before the augment that creates their target
        for tp, stmt in a:
            body.append('  augment "%s" { %s }' % (tp, stmt))
        out.append((m, "module %s {\n%s\n}\n" % (m, "\n".join(body))))
    return out


def canon(text):
    """compiled text with the sibling order inside every block normalised (set of lines per nesting level, recursively)"""
    lines = [l.rstrip() for l in text.split("\n") if l.strip()]
    def block(i, ind):
        items = []
        while i < len(lines):
            l = lines[i]
            cur = len(l) - len(l.lstrip())
            if cur < ind:
                break
            if l.rstrip().endswith("{"):
                sub, i = block(i + 1, cur + 1)
                items.append((l.strip(), tuple(sorted(sub))))
                if i < len(lines) and lines[i].strip() == "}":
                    i += 1
            else:
                items.append((l.strip(), ()))
                i += 1
        return items, i
    return tuple(sorted(block(0, 0)[0]))


def run_aug(cx):
    rng = cx.sub_rng("c11aug")
    nsets = cx.n(40, 600)
    cx.rule("c11aug: %d generated module sets with chained / sibling augments (1-4 modules, nested augments listed before their parents), all load "
            "orders (<= 24) x immediate/explicit compile; non-trivial = distinct (set, order, mode)" % nsets)
    lines, meta = [], {}
    for si in range(nsets):
        mods = gen_set(rng, si)
        units = " ".join("m:%s:%s" % (n, hexs(t)) for n, t in mods)
        names = ",".join(n for n, _ in mods)
        orders = list(itertools.permutations(range(len(mods))))
        if len(orders) > 12:
            orders = rng.sample(orders, 12)
        for o in orders:
            for ex in (0, 1):
                lines.append("%d cmp load %d %s %s - %s" % (len(lines), ex, ",".join(map(str, o)), names, units))
                meta[len(lines) - 1] = (si, o, ex, mods)
    ri = cx.run_impl(HARNESS, lines, component="compile", timeout=900)
    ref = {}
    for i in range(len(lines)):
        si, o, ex, mods = meta[i]
        r = ri.get(str(i), ["err", "NoReply"])
        cx.count(("aug", si, o, ex), True, "c11aug:" + (r[0] if r[0] == "ok" else " ".join(r[:2])))
        case = {"units": [(n, t) for n, t in mods], "order": list(o), "explicit_compile": ex, "reply": r[:3]}
        if r[0] != "ok":
            cx.fail("compile", "a valid module set with chained augments does not compile under this load order / compile mode", case)
            continue
        got = tuple(canon(unhex(x).decode("utf-8", "replace")) for x in r[1:])
        if si not in ref:
            ref[si] = (got, o, ex)
        elif ref[si][0] != got:
            cx.fail("compile", "effective schema of a module set with chained augments depends on load order / compile mode",
                    dict(case, reference_order=list(ref[si][1]), reference_explicit=ref[si][2]))
    if lines:
        cx.sample(lines[0][:300])
