"""date-and-time: correspondence of lean/LyModel/Val/DateTime.lean with src/plugins_types/date_and_time.c (component `val`).

`run_dt(run)` is called at the end of valcomp.run_val with the `Run` object of valcomp (run.diff(cases) = same lines to the harness
and to the model, replies must be equal; run.impl_only(cases); run.get(case); run.cx = the check context).

Differential (pools below), then laws on the implementation's replies that share nothing with the model (`laws_dt`):
  dt_ascii_digits      an accepted value is written with ASCII digits (RFC 6991 pattern as XSD reads it)              -> F414
  dt_zone_range        the zone hour of an accepted value is 00..23 (RFC 3339 sec. 5.6 time-hour)                     -> F416
  dt_zone_sign         the stored instant is the local time minus the offset with the sign of the zone character      -> F415
  dt_canon_idempotent  the canonical form of an accepted value is accepted and is its own canonical form              -> F417
  dt_sort_far          the sort callback orders two instants 2^31 s or more apart by time (implementation only:
                       the pinned tree computes (int)difftime(..), UBSan stops the harness)                           -> F413
`classify_dt` recognises exactly these instances.  Pools:
  grid      every field at and beyond its range, leap years, time_t edges, fractions 0..12 digits, zones at their edges
  damage    one-character replacement / insertion / deletion at every position of a few valid values, truncations, junk around
  libc      what atoi / strtol accept at the fixed offsets (blanks, signs, short and long digit runs, ':' where the zone starts)
  unicode   first, last and neighbouring code point of every Nd run of Unicode 14 in a position the field reader skips, 4-byte digits
            in the year (they shift every field), malformed UTF-8 in the separator positions
  cmp       all pairs inside clusters of close instants (fraction / zone / -00:00 variants), random pairs less than 2^31 s apart
  lyb       value -> LYB -> value for the accepted values; hand-made LYB values (sizes 0..12, flag byte, non-digits, time_t edges)

Left out of the differential on purpose (undefined behaviour in the C, UBSan stops the harness):
  * cmp of two instants 2^31 s or more apart: lyplg_type_sort_date_and_time returns (int)difftime(..) (finding F413; a few such
    lines run on the implementation only, see dt_sort_far);
  * a year field below INT_MIN + 1900 / a month field of INT_MIN (atoi(..) - 1900, atoi(..) - 1), zone hours beyond 2^63 / 3600;
  * a LYB time_t whose year is in (INT_MAX, INT_MAX + 1900] (tm_year + 1900 in the printf arguments).
"""
import re
from vlib.proto import hexs, unhex

DT = "t:ietf-yang-types:date-and-time"

ND_RUNS = [(0x30, 10), (0x660, 10), (0x6f0, 10), (0x7c0, 10), (0x966, 10), (0x9e6, 10), (0xa66, 10), (0xae6, 10), (0xb66, 10), (0xbe6, 10),
           (0xc66, 10), (0xce6, 10), (0xd66, 10), (0xde6, 10), (0xe50, 10), (0xed0, 10), (0xf20, 10), (0x1040, 10), (0x1090, 10), (0x17e0, 10),
           (0x1810, 10), (0x1946, 10), (0x19d0, 10), (0x1a80, 10), (0x1a90, 10), (0x1b50, 10), (0x1bb0, 10), (0x1c40, 10), (0x1c50, 10),
           (0xa620, 10), (0xa8d0, 10), (0xa900, 10), (0xa9d0, 10), (0xa9f0, 10), (0xaa50, 10), (0xabf0, 10), (0xff10, 10), (0x104a0, 10),
           (0x10d30, 10), (0x11066, 10), (0x110f0, 10), (0x11136, 10), (0x111d0, 10), (0x112f0, 10), (0x11450, 10), (0x114d0, 10),
           (0x11650, 10), (0x116c0, 10), (0x11730, 10), (0x118e0, 10), (0x11950, 10), (0x11c50, 10), (0x11d50, 10), (0x11da0, 10),
           (0x16a60, 10), (0x16ac0, 10), (0x16b50, 10), (0x1d7ce, 50), (0x1e140, 10), (0x1e2f0, 10), (0x1e950, 10), (0x1fbf0, 10)]

FRACS = [b"", b".", b".0", b".00", b".000", b".5", b".50", b".05", b".500", b".1", b".9", b".999", b".123456789", b".1234567890",
         b".000000000000", b".000000000001", b".999999999999", b".12345678901", b".x", b".1x", b".-1", b". 1", b".."]
ZONES = [b"Z", b"z", b"+00:00", b"-00:00", b"+00:01", b"-00:01", b"+00:30", b"-00:30", b"+00:59", b"-00:59", b"+01:00", b"-01:00",
         b"+12:00", b"-12:00", b"+14:00", b"+23:59", b"-23:59", b"+23:00", b"-23:00", b"+24:00", b"-24:00", b"-24:59", b"+99:00", b"-99:59",
         b"+01:59", b"+01:60", b"-01:60", b"+01:99", b"+1:00", b"+0100", b"", b"+01", b"+01:", b"+01:0", b"+01:000", b" 01:00", b"+ 1:00",
         b"+-1:00", b"--1:00", b"+01:-1", b"+01:+1", b"+01: 1", b":00", b":59", b":60", b"+:00", b"-:30", b"Z0", b"ZZ", b"+01:00Z", b"Z+01:00",
         b"+01:00 ", b"-00:00 ", b"-00:00Z", b"Z-00:00", b"+001:00", b"+01:0a", b"T", b"\t01:00", b"+01.00", b"+01-00"]
GOOD_ZONES = [b"Z", b"+00:00", b"-00:00", b"+00:30", b"-00:30", b"+01:00", b"-01:00", b"+23:59", b"-23:59", b"-12:00", b"+14:00", b"-24:00"]
BASES = [b"2020-01-01T00:00:00Z", b"1999-12-31T23:59:59+01:00", b"2020-02-29T12:30:15.25-08:00", b"2021-06-30T23:59:60Z",
         b"0001-01-01T00:00:00.000000001+23:59", b"1969-12-31T23:59:59.5-00:00", b"2038-01-19T03:14:07-00:00"]
DAMAGE = b"0159-:Tt Zz+.x\t\n\xff"


def c_strtol(s):
    """glibc strtol(s, &end, 10) -> (value clamped to long, number of bytes consumed)"""
    i = 0
    while i < len(s) and s[i] in b" \t\n\v\f\r":
        i += 1
    neg = False
    if i < len(s) and s[i] in b"+-":
        neg = s[i] == 0x2d
        i += 1
    j = i
    while j < len(s) and 0x30 <= s[j] <= 0x39:
        j += 1
    if j == i:
        return 0, 0
    v = int(s[i:j])
    v = -v if neg else v
    return max(-2**63, min(2**63 - 1, v)), j


def c_atoi(s):
    v = c_strtol(s)[0]
    return (v + 2**31) % 2**32 - 2**31


def undefined(s):
    """inputs on which ly_time_str2time computes with signed overflow (see the module text): kept out of the differential"""
    s = s.split(b"\0")[0]
    if len(s) <= 18:
        return False
    if c_atoi(s) - 1900 < -2**31 or c_atoi(s[5:]) == -2**31:
        return True
    return re.search(rb"[0-9]{15}", s[19:]) is not None


def days_from_civil(y, m, d):
    y -= m <= 2
    era = y // 400
    yoe = y - era * 400
    doy = (153 * (m - 3 if m > 2 else m + 9) + 2) // 5 + d - 1
    doe = yoe * 365 + yoe // 4 - yoe // 100 + doy
    return era * 146097 + doe - 719468


RE_CANON = re.compile(rb"(-?\d+)-(\d\d)-(\d\d)T(\d\d):(\d\d):(\d\d)")


def instant(canon):
    """time_t of a canonical value (the canonical form is UTC)"""
    m = RE_CANON.match(canon)
    y, mo, d, h, mi, s = (int(g) for g in m.groups())
    return ((days_from_civil(y, mo, d) * 24 + h) * 60 + mi) * 60 + s


def fmt(y, mo, d, h, mi, s, frac=b"", zone=b"Z"):
    return b"%04d-%02d-%02dT%02d:%02d:%02d%s%s" % (y, mo, d, h, mi, s, frac, zone)


def pool_grid(cx, rng):
    out = []
    years = [0, 1, 1583, 1899, 1900, 1901, 1969, 1970, 1971, 1999, 2000, 2001, 2020, 2021, 2037, 2038, 2039, 2100, 2400, 9998, 9999]
    # every day number of every month, for the leap-year kinds (divisible by 400 / 100 / 4 / none)
    for y in (1900, 2000, 2020, 2021, 2100, 1970, 0, 9999):
        for mo in (0, 1, 2, 3, 4, 6, 7, 8, 9, 11, 12, 13, 20, 99):
            for d in (0, 1, 27, 28, 29, 30, 31, 32, 40, 99):
                out.append(fmt(y, mo, d, 0, 0, 0))
    for y in years:
        for mo, d, h, mi, s in ((1, 1, 0, 0, 0), (12, 31, 23, 59, 59), (12, 31, 23, 59, 60), (2, 29, 12, 0, 0), (3, 1, 0, 0, 0)):
            for z in GOOD_ZONES:
                out.append(fmt(y, mo, d, h, mi, s, b"", z))
    for h in (0, 1, 12, 22, 23, 24, 25, 60, 99):
        for mi in (0, 1, 58, 59, 60, 61, 99):
            for s in (0, 1, 58, 59, 60, 61, 62, 99):
                out.append(fmt(2020, 6, 15, h, mi, s))
    for f in FRACS:
        for z in ZONES:
            out.append(b"2020-06-15T12:30:45" + f + z)
    for z in ZONES:
        for b in (b"1970-01-01T00:00:00", b"0000-01-01T00:00:00", b"9999-12-31T23:59:59", b"2038-01-19T03:14:07.5"):
            out.append(b + z)
    for _ in range(cx.n(1500, 30000)):
        y = rng.choice(years)
        mo = rng.choice([0, 1, 2, 2, 4, 11, 12, 13])
        d = rng.choice([0, 1, 28, 29, 30, 31, 32])
        h, mi, s = rng.choice([0, 12, 23, 24]), rng.choice([0, 30, 59, 60]), rng.choice([0, 30, 59, 60, 61])
        out.append(fmt(y, mo, d, h, mi, s, rng.choice(FRACS), rng.choice(ZONES)))
    return out


def pool_damage(cx, rng):
    out = []
    for b in BASES:
        for i in range(len(b) + 1):
            out.append(b[:i])                                   # every length
            out.append(b[i:])
            if i < len(b):
                out.append(b[:i] + b[i + 1:])                   # a character missing
                out.append(b[:i] + b[i:i + 1] + b[i:])          # a character doubled
            for c in DAMAGE:
                c = bytes([c])
                out.append(b[:i] + c + b[i:])                   # a surplus character
                if i < len(b):
                    out.append(b[:i] + c + b[i + 1:])           # a wrong character
        for junk in (b"junk", b" ", b"Z", b"0", b"\n", b"+", b".5", b"\0", b"\0Z", b"-00:00"):
            out.append(b + junk)
            out.append(junk + b)
        out.append(b.lower()); out.append(b.replace(b"T", b" ")); out.append(b.replace(b"-", b"/")); out.append(b.replace(b":", b"."))
        out.append(b.replace(b":", b"-")); out.append(b.replace(b"-", b":")); out.append(b[:16] + b[19:]); out.append(b[:4] + b[7:])
    return out


def pool_libc(cx, rng):
    out = []
    fields = [(0, 4), (5, 2), (8, 2), (11, 2), (14, 2), (17, 2)]
    subst4 = [b" 202", b"+202", b"-202", b"  20", b"\t 20", b"20 0", b"2 20", b"    ", b"+-20", b"0x20", b"202a", b"a202", b"-000", b"+000", b"2e03"]
    subst2 = [b" 1", b"+1", b"-1", b" 0", b"-0", b"+0", b"  ", b"1 ", b"a1", b"1a", b"\t5", b"\n9", b"+-", b"--", b"0x", b"1e", b".5", b"5.", b"\r3", b"\x0b2",
              b"\x0c4", b"12", b"31", b"23", b"59", b"60"]
    base = b"2020-06-15T12:30:45Z"
    for (o, n) in fields:
        for s in (subst4 if n == 4 else subst2):
            out.append(base[:o] + s + base[o + n:])
            out.append(base[:o] + s + base[o + n:-1] + b"+01:00")
    # separators are never looked at by the field reader
    for c in b"-:Tt /.0+x\t\xc3":
        c = bytes([c])
        for o in (4, 7, 10, 13, 16):
            out.append(base[:o] + c + base[o + 1:])
        out.append(base.replace(b"-", c).replace(b":", c).replace(b"T", c))
    # digit runs that continue through a separator position, long runs (strtol clamps at LONG_MAX, atoi keeps the low 32 bits)
    out += [b"20200615T123045Z", b"20200615123045000000Z", b"2020-06-15T12:30:45.1234567890123Z", b"99999999999999999999", b"9999999999999999999Z",
            b"00000000000000000000", b"0000-0000000000000001Z", b"2020-06-150T12:30:45Z", b"2020-060-15T12:30:45Z", b"2020-06-15T120:30:45Z",
            b"2147483647-06-15T12:30:45Z", b"4294967297-06-15T12:30:45Z", b"2020-4294967302-15T12:30Z", b"2020-06-4294967311T12:3Z",
            b"2020-06-15T-4294967295:00:00Z", b"2020-06-15T12:-4294967295:00Z", b"2020-06-15T12:30:-4294967295Z", b"2020-06-15T12:30:4294967296Z",
            b"2020-06-15T-1:30:45Z", b"2020-06-15T12:-1:45Z", b"2020-06-15T12:30:-1Z", b"2020-06-15T-9:-9:-9Z", b"2020-06-15T-99:-99:-99+01:00"]
    # the zone: strtol at the first byte that is neither '.'+digits nor Z
    for z in (b":00", b":59", b":60", b": 7", b":+7", b":-7", b":-0", b" :00", b"+9223372036854775807:00", b"-1000000:00", b"-00000000000001:30",
              b"+00000000000023:59", b"+00000000000024:00", b"+23:00000000000059", b"+23:00000000000060", b"+23:9223372036854775808",
              b"+23:-9223372036854775809", b"\n\t+5:30", b"+5:\n\t 30", b"+5:30junk", b"+05:30:00", b"+05:3", b"-05:3", b"-5:3", b"-0:3", b"-0:0", b"-00:0",
              b"-000:00", b"-0:00", b"- 0:00", b"-00:00", b"+-00:00", b"x-00:00", b"Z-00:00", b"z-00:00", b".5-00:00", b".5 -00:00"):
        out.append(b"2020-06-15T12:30:45" + z)
    return out


def pool_unicode(cx, rng):
    out = []
    for start, n in ND_RUNS:
        for cp in (start - 1, start, start + 1, start + 9, start + n - 1, start + n):
            c = chr(cp).encode("utf-8", "surrogatepass")
            out.append(b"2020-06-15T12:30:45+00:0" + c)          # last digit of the zone minutes: strtol stops in front of it
            out.append(b"2020-06-15T12:30:45+00:" + c + c)
            out.append(b"2020-06-15T12:30:45.5" + c + b"Z")
            if len(c) == 4:
                out.append(c + b"012-01-01T00:00:00Z")           # the fields move by three bytes, the zone is read at the last ':'
                out.append(c + b"012-12-23T59:59:59Z")
                out.append(c + b"012-12-23T59:59:59.5Z")
                out.append(c + b"011-31-23T59:60:30-00:00")
                out.append(c + b"013-01-01T00:00:00Z")
            if len(c) == 3:
                out.append(c + b"201-01-05T07:08:09Z")
            if len(c) == 2:
                out.append(c + b"020-01-01T00:00:00Z")
                out.append(b"2020-0" + c + b"-01T00:00:00Z")
    bad = [b"\x80", b"\xbf", b"\xc0\x80", b"\xc1\xbf", b"\xc2", b"\xc2\x41", b"\xe0\x80\x80", b"\xe0\x9f\xbf", b"\xe0\xa0\x80", b"\xe2\x82", b"\xed\x9f\xbf",
           b"\xed\xa0\x80", b"\xed\xbf\xbf", b"\xee\x80\x80", b"\xef\xbf\xbe", b"\xef\xbf\xbf", b"\xf0\x80\x80\x80", b"\xf0\x8f\xbf\xbf", b"\xf0\x90\x80\x80",
           b"\xf0\x90\x80", b"\xf4\x8f\xbf\xbf", b"\xf4\x90\x80\x80", b"\xf5\x80\x80\x80", b"\xf8\x88\x80\x80\x80", b"\xfc\x84\x80\x80\x80\x80", b"\xfe", b"\xff",
           b"\xc3\xa9", b"\xe2\x82\xac", b"\xf0\x9f\x98\x80", b"\x01", b"\x7f", b"\x00"]
    for b in bad:
        if len(b) <= 5:                                           # the character ends where a separator is: the field reader does not see it
            out.append(b"2020"[:5 - len(b)] + b + b"06-15T12:30:45Z")
            out.append(b"2020-06-15"[:11 - len(b)] + b + b"12:30:45Z")
        out.append(b"2020-06-15T12:30:45Z" + b)
        out.append(b"2020-06-15T12:30:45+00:0" + b)
        out.append(b"2020-06-15T12:30:45+00:00" + b)
        out.append(b + b"2020-06-15T12:30:45Z")
    return out


CLUSTERS = [
    [b"2020-01-01T00:00:00Z", b"2020-01-01T00:00:00+00:00", b"2020-01-01T00:00:00-00:00", b"2020-01-01T00:00:00.0Z", b"2020-01-01T00:00:00.00Z",
     b"2020-01-01T00:00:00.0-00:00", b"2020-01-01T00:00:00.5Z", b"2020-01-01T00:00:00.50Z", b"2020-01-01T00:00:00.05Z", b"2020-01-01T00:00:00.5-00:00",
     b"2020-01-01T00:00:00.49Z", b"2020-01-01T00:00:00.6Z", b"2020-01-01T00:00:00.000000000001Z", b"2019-12-31T23:00:00-01:00", b"2020-01-01T01:00:00+01:00",
     b"2020-01-01T00:30:00+00:30", b"2020-01-01T00:30:00-00:30", b"2020-01-01T00:00:01Z", b"2019-12-31T23:59:59Z", b"2019-12-31T23:59:59.999Z",
     b"2019-12-31T23:59:60Z", b"2019-12-32T00:00:00Z", b"2020-02-29T00:00:00Z", b"2020-02-30T00:00:00Z", b"2020-03-01T00:00:00Z", b"2020-03-01T00:00:00-00:00",
     b"2021-02-29T00:00:00Z", b"2021-03-01T00:00:00Z"],
    [b"1969-12-31T23:59:59Z", b"1969-12-31T23:59:59.5Z", b"1969-12-31T23:59:59.999-00:00", b"1970-01-01T00:00:00Z", b"1970-01-01T00:00:00-00:00",
     b"1970-01-01T00:00:00.0Z", b"1969-12-31T23:59:60Z", b"1970-01-01T00:00:01Z", b"1970-01-01T01:00:00+01:00", b"2038-01-19T03:14:06Z", b"2038-01-19T03:14:07Z",
     b"2038-01-19T03:14:07.5-00:00", b"1901-12-13T20:45:53Z", b"1901-12-13T20:45:54Z", b"1935-06-15T12:00:00Z", b"2004-02-29T23:59:59.25Z"],
    [b"0000-01-01T00:00:00Z", b"0000-01-01T00:00:00+23:59", b"0000-01-01T00:00:00-23:59", b"0000-02-29T00:00:00Z", b"0001-01-01T00:00:00Z", b"0000-12-31T23:59:60Z",
     b"0001-01-01T00:00:00.5-00:00", b"0050-06-15T12:00:00Z", b"0000-01-01T00:00:00-00:00", b"0000-01-01T00:00:00.0+00:01"],
    [b"9999-12-31T23:59:59Z", b"9999-12-31T23:59:60Z", b"9999-12-31T23:59:59-23:59", b"9999-12-31T23:59:59+23:59", b"9999-12-31T23:59:59.999999999999Z",
     b"9999-12-31T23:59:59-00:00", b"9999-12-32T00:00:00Z", b"9950-01-01T00:00:00Z", b"9999-12-31T23:59:59-99:59"],
]


def pool_unlyb(cx, rng):
    out = []
    t0 = (1577836800).to_bytes(8, "little")
    for n in range(0, 13):
        out.append((t0 + b"\x00123456")[:n])
        out.append((t0 + b"\x01000")[:n])
    for flag in (0, 1, 2, 0x30, 0x80, 0xff):
        for fr in (b"", b"0", b"5", b"05", b"50", b"123456789012", b"a", b"1a", b"a1", b"1 ", b".5", b"\x00", b"1\x00", b"\xff", b"\xb9", b"/", b":", b"-1"):
            out.append(t0 + bytes([flag]) + fr)
    y_max = ((days_from_civil(2**31 - 1, 12, 31) * 24 + 23) * 60 + 59) * 60 + 59         # last second tm_year + 1900 is computed without overflow
    y_null = days_from_civil(2**31 + 1900, 1, 1) * 86400                                 # first second gmtime_r refuses (tm_year > INT_MAX)
    y_min = days_from_civil(-2**31 + 1900, 1, 1) * 86400                                 # first second gmtime_r accepts
    for t in (0, 1, -1, 59, 60, 86399, 86400, -86400, -86401, 2**31 - 1, 2**31, -2**31, -2**31 - 1, 2**32, 951782400, 951868800, 4107542400,
              253402300799, 253402300800, -62135596800, -62135596801, -62167219200, -62167219201, -62198755200, 2**53, -2**53, y_max, y_max - 1,
              y_null, y_null + 12345, y_min, y_min - 1, 2**62, -2**62, 2**63 - 1, -2**63):
        for tail in (b"", b"\x00", b"\x01", b"\x01999", b"\x00000000001"):
            out.append((t % 2**64).to_bytes(8, "little") + tail)
    for _ in range(cx.n(300, 5000)):
        t = rng.choice([rng.randrange(-2**40, 2**40), rng.randrange(-2**33, 2**33), rng.randrange(-62167219200, 253402300800), rng.randrange(-2**55, 2**55)])
        tail = rng.choice([b"", b"\x00", b"\x01", b"\x00" + b"%d" % rng.randrange(0, 10**6), b"\x01" + b"%03d" % rng.randrange(0, 1000), b"\x02x"])
        out.append((t % 2**64).to_bytes(8, "little") + tail)
    return out


RE_ASCII = re.compile(rb"(\d{4})-(\d{2})-(\d{2})T(\d{2}):(\d{2}):(\d{2})(\.\d+)?(Z|([+-])(\d{2}):(\d{2}))")       # bytes: \d = [0-9]
RE_UNI = re.compile(r"\d{4}-\d{2}-\d{2}T\d{2}:\d{2}:\d{2}(\.\d+)?(Z|[+-]\d{2}:\d{2})")                              # str: \d = Unicode Nd
RE_BAD_YEAR = re.compile(rb"(-\d{3,}|\d{5,})-")
FAR = [(b"1900-01-01T00:00:00Z", b"2020-01-01T00:00:00Z"), (b"2038-01-19T03:14:08Z", b"1970-01-01T00:00:00Z"),
       (b"9999-12-31T23:59:59Z", b"0001-01-01T00:00:00Z"), (b"1970-01-01T00:00:00Z", b"2038-01-19T03:14:08Z"),
       (b"0001-01-01T00:00:00Z", b"9999-12-31T23:59:59Z"), (b"1951-12-13T20:45:52Z", b"2020-01-01T00:00:00.5-00:00")]


def sign(x):
    return (x > 0) - (x < 0)


def laws_dt(run, lex, acc):
    """laws on the replies of the implementation (see the module text); `acc`: accepted lexical -> (instant of the canonical form, canonical)"""
    cx = run.cx
    for x, (t, c) in acc.items():
        case = {"type": DT, "lexical_hex": hexs(x), "lexical": x.decode("latin1"), "canonical": c.decode("latin1"), "reply": ["ok", hexs(c)]}
        m = RE_ASCII.fullmatch(x)
        if not m:
            try:
                u = x.decode("utf-8")
            except UnicodeDecodeError:
                u = None
            uni = bool(u and RE_UNI.fullmatch(u) and not u.isascii())
            cx.count(("dt-law-ascii", x), True, "val:dt:law:ascii-digits:violated")
            cx.fail("val", "date-and-time accepts a value that is not in the lexical space of the type (RFC 6991 pattern: ASCII digits)",
                    dict(case, law="dt_ascii_digits", unicode_digits=uni))
            continue
        cx.count(("dt-law-ascii", x), True, "val:dt:law:ascii-digits:ok")
        y, mo, d, h, mi, sec = (int(m.group(i)) for i in range(1, 7))
        local = ((days_from_civil(y, mo, d) * 24 + h) * 60 + mi) * 60 + sec        # a day beyond the month / second 60 run on (F107 is not this law)
        if m.group(9):
            zs, zh, zm = m.group(9), int(m.group(10)), int(m.group(11))
            off = (zh * 3600 + zm * 60) * (-1 if zs == b"-" else 1)
            zc = dict(case, zone_sign=zs.decode(), zone_hour=zh, zone_minute=zm, instant=t, expected_instant=local - off)
            if zh > 23 or zm > 59:
                cx.count(("dt-law-zone", x), True, "val:dt:law:zone-range:violated")
                cx.fail("val", "date-and-time accepts a zone offset outside RFC 3339 (time-hour 00..23, time-minute 00..59)", dict(zc, law="dt_zone_range"))
                continue
            cx.count(("dt-law-zone", x), True, "val:dt:law:zone-range:ok")
        else:
            off = 0
            zc = dict(case, zone_sign="Z", zone_hour=0, zone_minute=0, instant=t, expected_instant=local)
        if t != local - off:
            cx.count(("dt-law-instant", x), True, "val:dt:law:instant:violated")
            cx.fail("val", "date-and-time stores another instant than local time minus zone offset (RFC 3339 sec. 4.2)", dict(zc, law="dt_zone_sign"))
        else:
            cx.count(("dt-law-instant", x), True, "val:dt:law:instant:ok")
        r = run.get("validate %s %s" % (DT, hexs(c)))
        if r[:2] != ["ok", hexs(c)]:
            cx.count(("dt-law-idem", x), True, "val:dt:law:canonical-idempotent:violated")
            cx.fail("val", "the canonical form of an accepted date-and-time value is not accepted as its own canonical form", dict(case, law="dt_canon_idempotent", restore=r))
        else:
            cx.count(("dt-law-idem", x), True, "val:dt:law:canonical-idempotent:ok")
    # the sort callback on instants 2^31 s and more apart: implementation only, a crash is recorded by vcheck (classify_dt: F413)
    far = FAR[:cx.n(2, len(FAR))]
    lines = ["cmp %s %s %s" % (DT, hexs(a), hexs(b)) for a, b in far]
    run.impl_only(lines, count_kind="val:dt:law:sort-far")
    if all(run.get(l)[0] == "ok" for l in lines):
        # defined on this tree (repaired, or no sanitizer): these pairs and more of them belong to the correspondence, too
        run.diff(["cmp %s %s %s" % (DT, hexs(a), hexs(b)) for a, b in FAR] + ["cmp %s %s %s" % (DT, hexs(b), hexs(a)) for a, b in FAR])
    for (a, b), l in zip(far, lines):
        r = run.get(l)
        if r[0] != "ok":
            continue
        ta = instant(unhex(run.get("validate %s %s" % (DT, hexs(a)))[1])) if run.get("validate %s %s" % (DT, hexs(a)))[0] == "ok" else None
        tb = instant(unhex(run.get("validate %s %s" % (DT, hexs(b)))[1])) if run.get("validate %s %s" % (DT, hexs(b)))[0] == "ok" else None
        if ta is None or tb is None:
            continue
        if int(r[2]) != sign(ta - tb) or (r[4], r[5]) != (("a", "a") if ta < tb else ("b", "b")):
            cx.fail("val", "date-and-time sort callback / leaf-list order does not follow the instants of two values far apart",
                    {"type": DT, "law": "dt_sort_far", "line": l, "reply": r, "instant_a": ta, "instant_b": tb})


def classify_dt(component, what, case):
    """-> id of the date-and-time finding this failing case is an instance of, or None"""
    if component != "val" or not isinstance(case, dict):
        return None
    line = case.get("line") or ""
    if case.get("crash"):
        # F413: (int)difftime(..) in lyplg_type_sort_date_and_time
        if (" cmp %s " % DT) in line and "date_and_time.c" in case.get("stderr", "") and "outside the range of representable values of type 'int'" in case.get("stderr", ""):
            return "F413"
        return None
    if case.get("type") != DT:
        return None
    law = case.get("law")
    if law == "dt_sort_far" and abs(case.get("instant_a", 0) - case.get("instant_b", 0)) >= 2**31:
        return "F413"       # no sanitizer: the conversion yields INT_MIN, the later value sorts first
    if law == "dt_ascii_digits" and case.get("unicode_digits"):
        return "F414"
    if law == "dt_zone_sign" and case.get("zone_sign") == "-" and case.get("zone_hour") == 0 and case.get("zone_minute", 0) > 0 \
            and case.get("instant", 0) - case.get("expected_instant", 0) == -2 * 60 * case["zone_minute"]:
        return "F415"
    if law == "dt_zone_range" and case.get("zone_sign") == "-" and 24 <= case.get("zone_hour", 0) <= 99 and case.get("zone_minute", 99) <= 59:
        return "F416"
    if law == "dt_canon_idempotent" and RE_BAD_YEAR.match(case.get("canonical", "").encode("latin1")):
        return "F417"
    return None


def run_dt(run):
    cx = run.cx
    rng = cx.sub_rng("valdt")
    probe = "validate %s %s" % (DT, hexs(b"2020-01-01T00:00:00Z"))
    run.diff([probe])
    if run.get(probe)[:2] == ["err", "Schema"]:
        cx.notes.append("date-and-time: type not available in this tree")
        return
    pools = {"grid": pool_grid(cx, rng), "damage": pool_damage(cx, rng), "libc": pool_libc(cx, rng), "unicode": pool_unicode(cx, rng),
             "cmp-clusters": [x for c in CLUSTERS for x in c]}
    lex, skipped = [], 0
    for name, p in pools.items():
        p = list(dict.fromkeys(p))
        keep = [x for x in p if not undefined(x)]
        skipped += len(p) - len(keep)
        cx.dist["val:dt:pool:" + name] = len(keep)
        lex += keep
    lex = list(dict.fromkeys(lex))
    cx.dist["val:dt:pool:skipped-undefined-behaviour"] = skipped
    run.diff(["validate %s %s" % (DT, hexs(x)) for x in lex])

    # the accepted values with their instants; reasons of the refusals
    acc = {}
    for x in lex:
        r = run.get("validate %s %s" % (DT, hexs(x)))
        if r[0] == "ok":
            c = unhex(r[1])
            acc[x] = (instant(c), c)
            shape = "canonical-year-not-4-digits" if not re.match(rb"\d{4}-", c) else ("unknown-zone" if c.endswith(b"-00:00") else "utc")
            cx.count(("dt-acc", x), True, "val:dt:accepted:" + shape + (":fraction" if b"." in c else ""))
            if not x.isascii():
                cx.count(("dt-acc-u", x), True, "val:dt:accepted:non-ascii-digit")
        else:
            cx.count(("dt-rej", x), True, "val:dt:rejected:" + r[1])
    cx.dist["val:dt:accepted"] = len(acc)
    cx.dist["val:dt:rejected"] = len(lex) - len(acc)

    # store with other hints (the hint check comes first), and the canonical form stored again
    cases = []
    some = sorted(acc)[:: max(1, len(acc) // cx.n(60, 600))] + [b"", b"x", b"2020-13-01T00:00:00Z"]
    for h in (0x03F3, 0x03FF, 0x0011, 0x0002, 0x0020, 0, 1, 2, 4, 8, 16, 32, 64):
        for x in some:
            cases.append("store %s %d %s" % (DT, h, hexs(x)))
    for x, (_, c) in acc.items():
        cases.append("validate %s %s" % (DT, hexs(c)))
        cases.append("lybrt %s %s" % (DT, hexs(x)))
    run.diff(cases)
    n_idem = sum(1 for x, (_, c) in acc.items() if run.get("validate %s %s" % (DT, hexs(c)))[:2] != ["ok", hexs(c)])
    cx.dist["val:dt:canonical-not-restorable"] = n_idem
    laws_dt(run, lex, acc)

    # cmp: only pairs the sort callback is defined on (less than 2^31 seconds apart, see the module text)
    LIM = 2**31
    cases = []
    for cl in CLUSTERS:
        cl = [x for x in cl if x in acc]
        for a in cl:
            for b in cl:
                if abs(acc[a][0] - acc[b][0]) < LIM:
                    cases.append("cmp %s %s %s" % (DT, hexs(a), hexs(b)))
    cases.append("cmp %s %s %s" % (DT, hexs(b"1970-01-01T00:00:00Z"), hexs(b"2038-01-19T03:14:07Z")))         # 2^31 - 1 apart
    cases.append("cmp %s %s %s" % (DT, hexs(b"2038-01-19T03:14:07Z"), hexs(b"1970-01-01T00:00:00Z")))
    cases.append("cmp %s %s %s" % (DT, hexs(b"2020-01-01T00:00:00Z"), hexs(b"2020-13-01T00:00:00Z")))
    cases.append("cmp %s %s %s" % (DT, hexs(b"2020-01-01T00:00:00z"), hexs(b"2020-01-01T00:00:00Z")))
    by_t = sorted((x for x in acc if b"\0" not in x), key=lambda x: (acc[x][0], x))
    n_pairs = cx.n(2500, 40000)
    for _ in range(n_pairs):
        i = rng.randrange(len(by_t))
        j = min(len(by_t) - 1, max(0, i + rng.randrange(-40, 41)))
        a, b = by_t[i], by_t[j]
        if abs(acc[a][0] - acc[b][0]) < LIM:
            cases.append("cmp %s %s %s" % (DT, hexs(a), hexs(b)))
    run.diff(cases)
    eqs = [c for c in dict.fromkeys(cases) if run.get(c)[0] == "ok"]
    cx.dist["val:dt:cmp:equal"] = sum(1 for c in eqs if run.get(c)[1] == "1")
    cx.dist["val:dt:cmp:sort-equal-but-unequal"] = sum(1 for c in eqs if run.get(c)[1] == "0" and run.get(c)[2] == "0")
    cx.dist["val:dt:cmp:ordered"] = sum(1 for c in eqs if run.get(c)[2] != "0")

    ul = list(dict.fromkeys(pool_unlyb(cx, rng)))
    cx.dist["val:dt:pool:unlyb"] = len(ul)
    run.diff(["unlyb %s %s" % (DT, hexs(b)) for b in ul])
    cx.rule("val: date-and-time (differential against lean/LyModel/Val/DateTime.lean): %d lexical values (field grid at and beyond every range, leap years, "
            "time_t edges, fractions of 0..12 digits, zones at their edges; one-character damage at every position of %d valid values; atoi/strtol "
            "corner cases at the fixed offsets; first/last/neighbour code point of all %d Nd runs of Unicode 14 and malformed UTF-8), %d accepted; "
            "every accepted value stored again from its canonical form and through LYB; cmp over %d pairs less than 2^31 s apart; %d hand-made and "
            "random LYB values; %d inputs with undefined behaviour in ly_time_str2time left out"
            % (len(lex), len(BASES), len(ND_RUNS), len(acc), len(set(cases)), len(ul), skipped))
