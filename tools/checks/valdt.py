"""date-and-time: correspondence of lean/LyModel/Val/DateTime.lean with src/plugins_types/date_and_time.c (component `val`).

`run_dt(run)` is called at the end of valcomp.run_val with the `Run` object of valcomp (run.diff(cases) = same lines to the harness
and to the model, replies must be equal; run.impl_only(cases); run.get(case); run.cx = the check context)."""
from vlib.proto import hexs, unhex

DT = "t:ietf-yang-types:date-and-time"


def run_dt(run):
    pass
