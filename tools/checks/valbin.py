"""built-in `binary` (RFC 7950 section 9.8, base64 of RFC 4648 section 4): correspondence of lean/LyModel/Val/Binary.lean with
src/plugins_types/binary.c (component `val`), and the laws of the value on the implementation's replies.

`run_bin(run)` is called from valcomp.run_val with the `Run` object of valcomp (run.diff(cases) = same lines to the harness and to the
model, replies must be equal; run.get(case); run.cx = the check context).  Type descriptors: `bin`, `bin:<lo>..<hi>,<lo>..<hi>`.

Pools (lexical values):
  canonical   random / edge octet strings of every length 0..10 and around the 48-octet line (64 characters), encoded by an encoder written
              from RFC 4648 here (cross-checked with python's base64)
  padding     0/1/2 padding characters as required; padding removed, doubled, tripled, in the middle, in front, alone
  trailing    every non-zero value of the bits of the last sextet that belong to no octet (`QQ==` .. `Qf==`, `QUI=` .. `QUL=`)
  blanks      space, tab, LF, CR, VT, FF at every position of a few values, in front, at the end
  layout      the values of 48.. octets in lines: 64 columns + LF (PEM; with and without a LF after the last line, last line full / short /
              empty), 64 + CRLF, 76 columns + LF / CRLF (MIME), a missing LF, a LF one column early / late, two LFs
  alphabet    one character replaced, at every position, by `-` `_` (base64url) `.` `,` `:` `@` `[` `` ` `` `{` `~` `*`, control characters,
              DEL, bytes >= 0x80, a two-byte UTF-8 character; NUL (only in values that stay off the newline path, see below)
  bounds      for every `length` part of every type: values of lo-1, lo, hi, hi+1 octets (canonical, with trailing bits, in lines)
  lyb         octet strings of every size 0..9 and around the bounds, stored with LY_VALUE_LYB
  hints       accepted and refused values with several hint sets
  cmp         pairs: equal octets (canonical / trailing bits / lines), one octet changed, prefixes, different sizes in both byte orders

Independent oracle (`rfc4648_decode`: alphabet, length a multiple of 4, padding only at the end, written from the RFC; python `base64` as a
second opinion on the strictly canonical values):
  bin_accept_iff        stored <=> (after removing the LF of the 64-column layout the plug-in documents) the text is base64 of RFC 4648
                        section 4 and the number of decoded octets is inside the `length` parts; error kind by the first failing step
  bin_canonical         canonical value = encode(octets) — broken for non-zero trailing bits (the input is kept): finding `canon`
  bin_eq_iff_canon_eq   compare callback = octets equal; canonical strings equal <=> octets equal — same finding
  bin_sort_*            sort callback = sign of the comparison by (size, octets)
  bin_lyb_roundtrip     LYB form = octets; stored from LYB any octet string is accepted with canonical value encode(octets) — also
                        outside the `length` restriction: finding `lyb-length`
  + the generic laws of valcomp.laws_value on the values with zero trailing bits.

Findings are looked up in the list by their witness tag (`"witness": {"valbin": "<tag>", ...}`); while a tag is not listed its instances
are counted as `val:bin:unfiled-defect:<tag>` and noted, nothing else is tolerated.

Not generated: a NUL byte inside a value that takes the newline path (>= 65 bytes with a LF at offset 64) — `binary_base64_newlines` works
on a `strndup` copy with the original length: heap overflow (reported separately, the harness would abort).
"""
import base64, re
from vlib.proto import hexs, unhex

ALPHA = b"ABCDEFGHIJKLMNOPQRSTUVWXYZabcdefghijklmnopqrstuvwxyz0123456789+/"
U64 = 2 ** 64 - 1
TYPES = ["bin", "bin:0..0", "bin:1..1", "bin:2..4", "bin:0..2,5..6,9..9", "bin:3..%d" % U64, "bin:47..49,96..96"]
HINTS = (0x03F3, 0x03FF, 0x0011, 0x0001, 0x0002, 0x0020, 0, 2, 4, 8, 16, 32, 64, 20)
BLANKS = [b" ", b"\t", b"\n", b"\r", b"\x0b", b"\x0c"]
NONALPHA = [b"-", b"_", b".", b",", b":", b"@", b"[", b"`", b"{", b"~", b"*", b"\x01", b"\x08", b"\x1b", b"\x1f", b"\x7f", b"\x80", b"\xbf", b"\xff", b"\xc3\xa9"]
FIDS = {}         # witness tag -> finding id (filled from the findings list at run time)

SEEDS = [("bin", "validate", b"QQ=="), ("bin", "validate", b"QR=="), ("bin", "validate", b""), ("bin", "validate", b"QQ="), ("bin", "validate", b"Q==="),
         ("bin", "validate", b"QQ Q="), ("bin", "validate", b"QUJD\n"), ("bin", "validate", b"QU-D"), ("bin", "validate", b"Q=JD"), ("bin", "validate", b"QUJD\x00"),
         ("bin", "store 1011", b"QUJD"), ("bin", "store 2", b"QUJD"), ("bin", "lybrt", b"QR=="), ("bin", "lybrt", b"QQ=="), ("bin:2..4", "unlyb", b"ABCDEFGH"),
         ("bin:2..4", "validate", b"QQ=="), ("bin:2..4", "validate", b"QUI="), ("bin", "unlyb", b""), ("bin", "unlyb", b"\x00\xff")]
SEED_PAIRS = [("bin", b"QQ==", b"QR=="), ("bin", b"QQ==", b"QUI="), ("bin", b"/w==", b"AAA="), ("bin", b"QUJD", b"QUJD")]


# ------------------------------------------------------------------------------------------------ RFC 4648 section 4
def rfc4648_encode(octets):
    out = bytearray()
    for i in range(0, len(octets), 3):
        g = octets[i:i + 3]
        n = int.from_bytes(g + b"\0" * (3 - len(g)), "big")
        cs = [ALPHA[(n >> s) & 63] for s in (18, 12, 6, 0)]
        out += bytes(cs[:len(g) + 1]) + b"=" * (3 - len(g))
    return bytes(out)


def rfc4648_decode(t):
    """-> (octets, trailing_bits_are_zero) | "B64Char" | "B64Len": the text must be alphabet characters followed by at most two `=`, its length a
    multiple of 4 (which fixes the number of `=`: a final quantum of 8 bits has two, of 16 bits one)."""
    body = t.rstrip(b"=")
    if len(t) - len(body) > 2 or any(c not in ALPHA for c in body):
        return "B64Char"
    if len(t) % 4:
        return "B64Len"
    bits = 0
    for c in body:
        bits = (bits << 6) | ALPHA.index(c)
    nbits = 6 * len(body)
    spare = nbits % 8
    return (bits >> spare).to_bytes(nbits // 8, "big"), (bits & ((1 << spare) - 1)) == 0


def unfold64(s):
    """the layout the plug-in documents ("accept newline every 64 characters (PEM data)"): only looked at when byte 64 is a LF; then every
    line but the last has exactly 64 bytes + LF.  -> text without those LFs | None"""
    if len(s) < 65 or s[64] != 10:
        return s
    if not re.fullmatch(rb"(?s)(.{64}\n)*.{0,64}", s):
        return None
    return b"".join(s[i:i + 64] for i in range(0, len(s), 65))


def in_parts(n, parts):
    return not parts or any(lo <= n <= hi for lo, hi in parts)


def parts_of(d):
    if ":" not in d:
        return []
    return [tuple(int(x) for x in p.split("..")) for p in d.split(":", 1)[1].split(",")]


def oracle(d, s):
    """-> ("ok", octets, canonical_input) | ("err", kind)"""
    t = unfold64(s)
    if t is None:
        return ("err", "B64Newline")
    r = rfc4648_decode(t)
    if isinstance(r, str):
        return ("err", r)
    if not in_parts(len(r[0]), parts_of(d)):
        return ("err", "Length")
    return ("ok", r[0], r[1])


def fold(text, col, nl, last_nl):
    lines = [text[i:i + col] for i in range(0, len(text), col)]
    return nl.join(lines) + (nl if last_nl else b"")


# ------------------------------------------------------------------------------------------------ pools
def octet_strings(rng, n_random):
    out = [b""]
    for n in range(1, 11):
        out += [bytes(n), b"\xff" * n, bytes(rng.randrange(256) for _ in range(n))]
        for _ in range(n_random):
            out.append(bytes(rng.choice((0, 1, 0x3f, 0x40, 0x7f, 0x80, 0xfb, 0xfe, 0xff, rng.randrange(256))) for _ in range(n)))
    out += [b"A", b"AB", b"ABC", b"\xfb\xff\xbf", b"\xfb\xef\xbe", b"\x00\x10\x83", b"\x14\xfb\x9c\x03\xd9\x7e"]       # RFC 4648 section 9 vectors among them
    return list(dict.fromkeys(out))


def long_strings(rng):
    return [bytes(rng.randrange(256) for _ in range(n)) for n in (45, 47, 48, 49, 50, 51, 57, 58, 95, 96, 97, 100, 144)]


def padding_of(vals):
    out = [b"=", b"==", b"===", b"====", b"A", b"AA", b"AAA", b"A=", b"A==", b"A===", b"AA=", b"AA===", b"AAA==", b"AAAA=", b"AAAA==", b"AAAA====", b"=AAA", b"==AA", b"A=AA", b"AA=A",
           b"AA==AAAA", b"AAA=AAAA", b"AAAAAA=", b"AAAAAAA", b"AAAAA===", b"AAAA===="]
    for v in vals:
        body = v.rstrip(b"=")
        npad = len(v) - len(body)
        out += [body, v + b"=", v + b"==", body + b"=" * (npad + 1), body + b"=" * 3, b"=" + v, v[:2] + b"=" + v[2:], v[:-1], v + b"A", v + v]
        if npad:
            out += [body[:-1] + b"=" + body[-1:] + b"=" * (npad - 1), body + b"=" * (npad - 1)]
    return out


def trailing_of(octs):
    out = []
    for o in octs:
        c = rfc4648_encode(o)
        spare = {1: 4, 2: 2}.get(len(o) % 3)
        if not spare:
            continue
        p = len(c.rstrip(b"=")) - 1
        for x in range(1, 1 << spare):
            out.append(c[:p] + bytes([ALPHA[ALPHA.index(c[p]) | x]]) + c[p + 1:])
    return out


def blanks_of(vals):
    out = list(BLANKS)
    for v in vals:
        for b in BLANKS:
            out += [b + v, v + b, b + v + b, v + b + b]
            for p in range(1, len(v)):
                out.append(v[:p] + b + v[p:])
    return out


def layouts_of(octs):
    out = []
    for o in octs:
        c = rfc4648_encode(o)
        for col, nl in ((64, b"\n"), (64, b"\r\n"), (76, b"\n"), (76, b"\r\n"), (63, b"\n"), (65, b"\n"), (32, b"\n")):
            for last in (False, True):
                out.append(fold(c, col, nl, last))
        f = fold(c, 64, b"\n", False)
        out += [f + b"\n\n", f.replace(b"\n", b"", 1), f.replace(b"\n", b"\n\n", 1), f.replace(b"\n", b" ", 1), b"\n" + f, f[:64] + b"\n", f[:64] + b"\n" + f[:64], f[:64] + b"\n" + f[:64] + b"\n",
                f[:64] + b"\n" + f[:64] + f[:4], f[:64] + b"\n" + f[:64] + b"\n" + f[:64] + b"\n" + f[:8], f[:60] + b"\n" + f[60:64] + b"\n"]
        if f.count(b"\n") > 1:
            i = f.index(b"\n", 65)
            out += [f[:i] + f[i + 1:], f[:i] + b"\r" + f[i + 1:]]
    return out


def alphabet_of(rng, vals):
    out = []
    for v in vals:
        for p in range(len(v)):
            for b in NONALPHA:
                out.append(v[:p] + b + v[p + 1:])
            out.append(v[:p] + b"\x00" + v[p + 1:])
        out += [v + b"\x00", b"\x00" + v, v + b"\x00AAAA"]
    return out


def bounds_of(rng, d):
    out = []
    ns = set()
    for lo, hi in parts_of(d):
        ns |= {lo - 1, lo, lo + 1, hi - 1, hi, hi + 1}
    for n in sorted(x for x in ns if 0 <= x <= 200):
        o = bytes(rng.randrange(256) for _ in range(n))
        c = rfc4648_encode(o)
        out += [c] + trailing_of([o])[:2]
        if len(c) > 64:
            out += [fold(c, 64, b"\n", False), fold(c, 64, b"\n", True)]
    return out


def lookup_findings(cx):
    FIDS.clear()
    for fid, f in getattr(cx, "findings", {}).items():
        w = f.get("witness")
        if isinstance(w, dict) and w.get("valbin") and f.get("status") == "known":
            FIDS[w["valbin"]] = fid


def classify_bin(component, what, case):
    """hook for c03.classify: the instances of the two findings of the plug-in, by the witness tag of the listed finding"""
    if component != "val" or not isinstance(case, dict) or not str(case.get("type", "")).startswith("bin"):
        return None
    tag = case.get("bin_finding")
    if tag == "canon" and case.get("trailing_bits_nonzero"):
        return FIDS.get("canon")
    if tag == "lyb-length" and case.get("octets_outside_length"):
        return FIDS.get("lyb-length")
    return None


def defect(cx, tag, what, case):
    """an instance of a defect of the plug-in the model has as well (see the `_fails` theorems of Props/C03Bin.lean)"""
    case = dict(case, bin_finding=tag)
    if tag in FIDS:
        cx.fail("val", what, case)
    else:
        cx.count(("bin-defect", tag, repr(sorted(case.items()))), True, "val:bin:unfiled-defect:" + tag)
        note = "binary: defect `%s` is not in the findings list (witness tag valbin=%s): %s" % (tag, tag, what)
        if note not in cx.notes:
            cx.notes.append(note)


# ------------------------------------------------------------------------------------------------ the check
def run_bin(run):
    from checks import valcomp
    cx = run.cx
    rng = cx.sub_rng("valbin")
    lookup_findings(cx)
    probe = "validate bin %s" % hexs(b"QUJD")
    run.diff([probe])
    if run.get(probe)[:2] == ["err", "Schema"]:
        cx.notes.append("binary: the harness does not know the descriptor")
        return
    run.diff(["%s %s%s %s" % (op.split()[0], ty, op[len(op.split()[0]):], hexs(v)) for ty, op, v in SEEDS] +
             ["cmp %s %s %s" % (ty, hexs(a), hexs(b)) for ty, a, b in SEED_PAIRS])

    octs = octet_strings(rng, cx.n(1, 8))
    longs = long_strings(rng)
    canon = [rfc4648_encode(o) for o in octs]
    for o, c in zip(octs + longs, canon + [rfc4648_encode(o) for o in longs]):
        if base64.b64encode(o) != c or rfc4648_decode(c) != (o, True):
            raise AssertionError("valbin: the RFC 4648 encoder / decoder of the check disagree with python's base64 on %r" % o)
    small = [c for c in canon if 0 < len(c) <= 8][:cx.n(4, 12)] + [rfc4648_encode(b"\xfb\xff\xbf"), rfc4648_encode(b"\xfb\xff")]
    pools = {
        "canonical": canon + [rfc4648_encode(o) for o in longs],
        "padding": padding_of([c for c in canon if len(c) <= 12][:cx.n(10, 40)]),
        "trailing": trailing_of([o for o in octs if len(o) % 3][:cx.n(14, 60)] + [o[:-1] for o in longs[:4]] + [o[:-2] for o in longs[:4]]),
        "blanks": blanks_of(small[:cx.n(3, 8)]),
        "layout": layouts_of(longs[:cx.n(13, 13)]),
        "alphabet": alphabet_of(rng, small[:cx.n(3, 8)] + [rfc4648_encode(longs[2])[:68]][:cx.n(0, 1)]),
    }
    pools = {k: list(dict.fromkeys(v)) for k, v in pools.items()}
    # a NUL on the newline path is undefined behaviour of the C (heap overflow): not sent
    safe = lambda s: not (b"\0" in s and len(s) >= 65 and s[64] == 10)
    total = n_acc = n_lyb = n_pairs = 0
    accepted, pairs = {}, {}
    for d in TYPES:
        parts = parts_of(d)
        lex = []
        per = dict(pools, bounds=bounds_of(rng, d))
        for name, p in per.items():
            p = [s for s in p if safe(s)]
            if d != "bin" and name in ("blanks", "alphabet", "padding"):
                p = p[:: max(1, len(p) // cx.n(40, 400))]
            if d != "bin" and name == "layout":
                p = p[:: max(1, len(p) // cx.n(60, 400))]
            cx.dist["val:bin:%s:pool:%s" % (d.split(".")[0] if d == "bin" else "restricted", name)] += len(p)
            lex += p
        lex = list(dict.fromkeys(lex))
        total += len(lex)
        run.diff(["validate %s %s" % (d, hexs(x)) for x in lex])

        # ---- acceptance, error kind, canonical form against the oracle
        acc = {}
        for x in lex:
            r = run.get("validate %s %s" % (d, hexs(x)))
            want = oracle(d, x)
            case = {"type": d, "value_hex": hexs(x), "got": r, "oracle": [want[0]] + [hexs(w) if isinstance(w, bytes) else w for w in want[1:]], "law": "bin_accept_iff"}
            if r[0] == "ok":
                shape = "empty" if not x else ("lines" if b"\n" in x else ("canonical" if want[0] == "ok" and want[2] else "trailing-bits"))
                cx.count(("bin-acc", d, x), True, "val:bin:accepted:%s:pad%d" % (shape, len(x) - len(x.rstrip(b"="))))
            else:
                cx.count(("bin-rej", d, x), True, "val:bin:rejected:%s" % r[1])
            if (r[0] == "ok") != (want[0] == "ok"):
                cx.fail("val", "a binary value is not accepted exactly when it is base64 of RFC 4648 section 4 (64-column newlines removed) with an octet count inside the length parts", case)
                continue
            if r[0] != "ok":
                if r[1] != want[1]:
                    cx.fail("val", "a refused binary value is refused at another step than the first one that fails", dict(case, law="bin_accept_kind"))
                continue
            octets, zero = want[1], want[2]
            acc[x] = (octets, zero, unhex(r[1]))
            if unhex(r[1]) != rfc4648_encode(octets):
                if not zero and unhex(r[1]) == unfold64(x):
                    defect(cx, "canon", "the canonical value of a binary value with non-zero trailing bits is the input text, not the base64 encoding of its octets",
                           dict(case, law="bin_canonical", trailing_bits_nonzero=True, rfc_canonical_hex=hexs(rfc4648_encode(octets))))
                else:
                    cx.fail("val", "the canonical value of a binary value is not the base64 encoding of its octets", dict(case, law="bin_canonical"))
        n_acc += len(acc)

        # ---- store: LYB form = the octets; hints; the canonical form stored again; every value also from LYB
        cases = []
        acc_keys = sorted(acc)
        some = acc_keys[:: max(1, len(acc_keys) // cx.n(10, 80))] + [b"", b"x", b"====", b"QUJD"]
        for h in HINTS:
            for x in some:
                cases.append("store %s %d %s" % (d, h, hexs(x)))
        for x in acc_keys:
            cases.append("store %s %d %s" % (d, HINTS[0], hexs(x)))
            cases.append("validate %s %s" % (d, hexs(rfc4648_encode(acc[x][0]))))
            cases.append("validate %s %s" % (d, hexs(acc[x][2])))
        lybs = [bytes(rng.randrange(256) for _ in range(n)) for n in range(0, 10) for _ in range(cx.n(2, 10))] + [bytes(n) for n in range(0, 10)]
        for lo, hi in parts:
            lybs += [bytes(rng.randrange(256) for _ in range(n)) for n in (lo - 1, lo, hi, hi + 1) if 0 <= n <= 200]
        lybs += [b"QUJD", b"QQ==", b"\n" * 70, b"\x00" * 70] + [o for o, _, _ in list(acc.values())[:cx.n(20, 200)]]
        lybs = list(dict.fromkeys(lybs))
        for b in lybs:
            cases.append("unlyb %s %s" % (d, hexs(b)))
        run.diff(cases)
        n_lyb += len(lybs)
        for x in acc_keys:
            r = run.get("store %s %d %s" % (d, HINTS[0], hexs(x)))
            if r[0] != "ok" or unhex(r[2]) != acc[x][0]:
                cx.fail("val", "the LYB form of a binary value is not the octet string its base64 text stands for", {"type": d, "value_hex": hexs(x), "reply": r, "octets_hex": hexs(acc[x][0]), "law": "bin_lyb_roundtrip"})
        for b in lybs:
            r = run.get("unlyb %s %s" % (d, hexs(b)))
            inside = in_parts(len(b), parts)
            cx.count(("bin-unlyb", d, b), True, "val:bin:unlyb:%s:%s" % ("inside-length" if inside else "outside-length", r[0] if r[0] == "ok" else r[1]))
            case = {"type": d, "lyb_hex": hexs(b), "reply": r, "law": "bin_lyb_roundtrip"}
            if r[0] == "ok" and unhex(r[1]) != rfc4648_encode(b):
                cx.fail("val", "the canonical value of a binary value stored from LYB is not the base64 encoding of the octets", case)
            elif r[0] == "ok" and not inside:
                defect(cx, "lyb-length", "a binary value stored from LYB is accepted although its size is outside the length restriction of the type",
                       dict(case, octets_outside_length=True, size=len(b)))
            elif r[0] != "ok" and inside:
                cx.fail("val", "an octet string inside the length restriction is refused as a LYB value", case)

        # ---- cmp / lybrt
        by_o = {}
        for x, (o, zero, c) in acc.items():
            if b"\0" not in x:
                by_o.setdefault(o, []).append(x)
        keys = sorted(by_o, key=lambda o: (len(o), o))
        pr = []
        for o in keys[:cx.n(25, 200)]:
            xs = by_o[o][:5]
            pr += [(a, b) for a in xs for b in xs]
        for i in range(len(keys) - 1):
            pr.append((by_o[keys[i]][0], by_o[keys[i + 1]][-1]))
        lexk = sorted(by_o)
        for i in range(len(lexk) - 1):          # neighbours in plain byte order: different sizes, prefixes
            pr.append((by_o[lexk[i]][0], by_o[lexk[i + 1]][0]))
        flat = [x for o in keys for x in by_o[o]]
        for _ in range(cx.n(60, 2000)):
            pr.append((rng.choice(flat), rng.choice(flat)))
        pr = list(dict.fromkeys(pr))
        sub = list(dict.fromkeys([a for a, _ in pr]))[:cx.n(40, 400)]
        cases = []
        for a, b in pr:
            cases += ["cmp %s %s %s" % (d, hexs(a), hexs(b)), "cmp %s %s %s" % (d, hexs(b), hexs(a))]
        for a in sub:
            cases.append("lybrt %s %s" % (d, hexs(a)))
            cases.append("cmp %s %s %s" % (d, hexs(a), hexs(acc[a][2])))
        rejected = [x for x in lex if x not in acc and b"\0" not in x][:5]
        for x in rejected:
            cases += ["cmp %s %s %s" % (d, hexs(x), hexs(flat[0])), "cmp %s %s %s" % (d, hexs(flat[0]), hexs(x)), "lybrt %s %s" % (d, hexs(x))]
        run.diff(cases)
        n_pairs += len(pr)

        def clean(x):
            return acc[x][1]            # zero trailing bits: canonical value = encode(octets)
        for a, b in pr + [(b, a) for a, b in pr]:
            r = run.get("cmp %s %s %s" % (d, hexs(a), hexs(b)))
            oa, ob = acc[a][0], acc[b][0]
            ca, cb = acc[a][2], acc[b][2]
            case = {"type": d, "a_hex": hexs(a), "b_hex": hexs(b), "reply": r}
            if r[0] != "ok":
                cx.fail("val", "a value accepted by lyd_value_validate is rejected by lyd_new_term", dict(case, law="same_verdict"))
                continue
            want_sort = (len(oa) > len(ob)) - (len(oa) < len(ob)) or (oa > ob) - (oa < ob)
            same = oa == ob
            cx.count(("bin-cmp", d, a, b), True, "val:bin:cmp:%s" % ("equal-octets-different-text" if same and ca != cb else "equal" if same else
                                                                   "size" if len(oa) != len(ob) else "bytes"))
            if int(r[2]) != want_sort:
                cx.fail("val", "the sort callback of binary is not the order by (size, octets)", dict(case, law="bin_sort_total_order", want=want_sort))
            if same and ca != cb:
                # equal octets, different canonical texts: the compare callback says equal, lyd_compare_single (texts) says different
                if r[1:] == ["2", "0", "0", "a", "b"] and not (clean(a) and clean(b)):
                    defect(cx, "canon", "two binary values with the same octets have different canonical values (compare callback: equal; lyd_compare_single: different)",
                           dict(case, law="bin_eq_iff_canon_eq", trailing_bits_nonzero=True))
                else:
                    cx.fail("val", "two binary values with the same octets and different canonical values: unexpected reply", dict(case, law="bin_eq_iff_canon_eq"))
            elif (r[1] == "1") != same or (r[3] == "1") != same:
                cx.fail("val", "two binary values are not equal exactly when their octets are equal", dict(case, law="bin_eq_iff_canon_eq"))
        for a in sub:
            r = run.get("lybrt %s %s" % (d, hexs(a)))
            o, zero, c = acc[a]
            case = {"type": d, "value_hex": hexs(a), "reply": r, "law": "bin_lyb_roundtrip"}
            cx.count(("bin-lybrt", d, a), True, "val:bin:lybrt:%s" % ("canonical" if zero else "trailing-bits"))
            if r[0] != "ok" or unhex(r[1]) != o or unhex(r[2]) != rfc4648_encode(o) or r[3] != "1" or r[4] != "1":
                cx.fail("val", "binary value -> LYB -> value does not return the octets / an equal value / the base64 encoding", case)
            elif r[5] != "1":
                if not zero and c != rfc4648_encode(o):
                    defect(cx, "canon", "a data tree with a binary value with non-zero trailing bits, printed in LYB and parsed back, differs (canonical value changes)",
                           dict(case, trailing_bits_nonzero=True))
                else:
                    cx.fail("val", "data tree printed in LYB and parsed back differs", dict(case, law="lyb_tree_roundtrip"))
        # generic laws on the values whose canonical value is the encoding of their octets
        cl = [x for x in acc if clean(x) and b"\0" not in x]
        cls = set(cl)
        accepted[d] = cl
        pairs[d] = ([a for a in sub if a in cls], [(a, b) for a, b in pr if a in cls and b in cls])
    valcomp.laws_value(run, accepted, pairs)
    cx.rule("val: binary (differential against lean/LyModel/Val/Binary.lean; laws against a base64 decoder / encoder written from RFC 4648 section 4, cross-checked with "
            "python base64): %d lexical values over %d types (no / one / several length parts): canonical encodings of every octet count 0..10 and around the 48-octet "
            "line, padding removed / doubled / misplaced, every non-zero value of the trailing bits, blanks at every position, 64-column LF / CRLF and 76-column MIME "
            "layouts with missing / misplaced / doubled newlines, one character replaced at every position by base64url, punctuation, control, NUL and non-ASCII bytes, "
            "octet counts around every length bound; %d accepted; %d LYB values of every size 0..9 and around the bounds; %d hint sets; cmp / leaf-list order over %d "
            "pairs (same octets in different texts, one octet changed, prefixes, different sizes), value -> LYB -> value, dup, tree LYB"
            % (total, len(TYPES), n_acc, n_lyb, len(HINTS), n_pairs))
