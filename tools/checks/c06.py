"""C06 — applying the diff of two trees to the first yields the second (src/diff.c).

(K) correspondence, harness `api_diff` vs model `LyModel.Diff`:
      schema   the DSL the model parses and the YANG libyang compiles describe the same nodes
      canon    the sibling order libyang maintains = Tree.insertNode (scrambled canonical trees are put back)
      diff     libyang's diff tree (operation + orig-value/orig-default/key/value/position/orig-key/orig-position, flags,
               order) = the model's, token for token, with and without LYD_DIFF_DEFAULTS
      diffapply / apply3   result of applying diff(A,B) to A / to an unrelated tree C (the malformed stream), or the error
(L) laws on the implementation (`law` op): diff succeeds, diff(A,A) = diff(B,B) = empty, apply succeeds,
      lyd_compare_siblings(apply(A, diff(A,B)), B) with the defaults flag (after re-validation and without the flag when the
      diff ignored defaults), inputs unchanged (A, B after diff; diff after apply), and the same through
      print -> free A, B -> parse -> apply for XML, JSON, LYB.
Generators: >= 30 random S1 schemas, B = random edit of A (treegen), plus all pairs of duplicate-free user-ordered
sequences over <= 4 (quick) / <= 5 (thorough) keys for keyed lists and leaf-lists (smaller bound for the position-addressed kinds).
"""
import json, os
from vlib import treegen as tg, paths

LEAN_TARGETS = ["LyModel.Props.C06", "LyModel.Props.C06UO", "LyModel.Props.C06UOList", "LyModel.Props.C06UONb", "LyModel.Props.C06UONest"]
AUDIT = "Audit/C06.lean"
HARNESS = "api_diff"
COMP = "diff"
ENV = {"VERIF_YANG_DIR": os.path.join(paths.REPO, "tests", "modules", "yang")}     # ietf-netconf-with-defaults for the tagged print modes
ASSUMPTIONS = [
    "data trees are valid instances over schema family S1 (DESIGN §2.4), built through the public API and validated; one module",
    "model fragment for apply: no two equal instances inside one duplicate-instance sibling group (key-less list, state leaf-list), "
    "no operation below a matched key-less list instance (also excluded from the diff comparison); without LYD_DIFF_DEFAULTS no create "
    "next to default instances of the same user-ordered leaf-list; outside it only the laws are evaluated (findings F121, F123, F127)",
    "KNOWN MODEL GAP: the order of the diff siblings of one system-ordered list when >= 2 parent copies and a delete/create meet below "
    "an existing diff parent (libyang inserts the parent copies by its sorting tree, the model appends); such diffs are not compared",
    "the default flag of non-presence containers is not compared after apply (lyd_compare_siblings ignores it; finding F124)",
    "equality after apply is lyd_compare_siblings(FULL_RECURSION | DEFAULTS), the property's observation point",
]
TRUSTED = ["tools/vlib/treegen.py (schema/instance generator, YANG renderer)", "harness/treeproto.h (tree loader and canonical dump)"]

LAW_OK = {"diff": "Success", "selfA": "empty", "selfB": "empty", "pureA": "1", "pureB": "1", "apply": "Success", "pureD": "1",
          "cmp": "1", "xml": "ok", "json": "ok", "lyb": "ok", "reval": "ok", "npstale": "0"}
LAW_TEXT = {
    "diff": "computing the diff fails",
    "selfA": "the diff of a tree with itself is not empty", "selfB": "the diff of a tree with itself is not empty",
    "pureA": "computing the diff modified its first input", "pureB": "computing the diff modified its second input",
    "apply": "applying diff(A,B) to a copy of A fails",
    "pureD": "applying the diff modified the diff",
    "cmp": "apply(A, diff(A,B)) is not equal to B (lyd_compare_siblings)",
    "reval": "re-validation of apply(A, diff(A,B)) fails",
    "npstale": "apply(A, diff(A,B)) has a non-presence container still flagged default above an explicit node (dropped by LYD_PRINT_WD_TRIM)",
    "xml": "diff printed as XML, parsed back after A and B were freed, does not take A to B",
    "json": "diff printed as JSON, parsed back after A and B were freed, does not take A to B",
    "lyb": "diff printed as LYB, parsed back after A and B were freed, does not take A to B",
}


# ----------------------------------------------------------------------------------------------------
# features of a case that the finding predicates look at
# ----------------------------------------------------------------------------------------------------

def full_eq(a, b):
    """lyd_compare_single(FULL_RECURSION) without the defaults flag: values and structure"""
    if a.sn is not b.sn or a.val != b.val or len(a.kids) != len(b.kids):
        return False
    return all(full_eq(x, y) for x, y in zip(a.kids, b.kids))


def groups(forest, pred, out=None):
    """all maximal runs of sibling instances of one schema node satisfying pred(snode), at any depth"""
    out = [] if out is None else out
    run = []
    for n in forest:
        if run and run[-1].sn is not n.sn:
            out.append(run)
            run = []
        if pred(n.sn):
            run.append(n)
        groups(n.kids, pred, out)
    if run:
        out.append(run)
    return out


def dupinst_has_duplicates(forest):
    for g in groups(forest, lambda sn: sn.dup_inst()):
        for i in range(len(g)):
            for j in range(i + 1, len(g)):
                if full_eq(g[i], g[j]):
                    return True
    return False


def meta(n, name):
    for k, v in n.meta:
        if k == name:
            return v
    return None


def walk_diff(forest, inh=None, out=None):
    """(node, effective-op) for every diff node (lyd_diff_get_op: a parent's replace is not inherited)"""
    out = [] if out is None else out
    for n in forest:
        own = meta(n, "operation")
        op = own.decode() if own is not None else inh
        out.append((n, op))
        walk_diff(n.kids, (inh if own == b"replace" else op), out)
    return out


def features(s, A, B, D, o):
    f = set()
    wd = walk_diff(D)
    dup_sids = set()
    for t in (A, B):
        for g in groups(t, lambda sn: sn.dup_inst()):
            if any(full_eq(g[i], g[j]) for i in range(len(g)) for j in range(i + 1, len(g))):
                dup_sids.add(g[0].sn.sid)
    dflt_uo_sids = set(g[0].sn.sid for g in groups(A, lambda sn: sn.kind == "leaflist" and sn.is_userord()) if g[0].flags & tg.F_DFLT)
    for n, op in wd:
        sn = n.sn
        own = meta(n, "operation")
        if sn.kind == "leaflist" and sn.is_userord() and not sn.dup_inst() and own == b"replace":
            od = meta(n, "orig-default")
            if od is not None and (od == b"true") != bool(n.flags & tg.F_DFLT):
                f.add("uo-move-with-dflt-change")                                                    # F120
        if sn.is_term() and own == b"none" and meta(n, "orig-default") == b"true" and not (n.flags & tg.F_DFLT):
            f.add("dflt-cleared-by-none")                                                            # F124
        if sn.kind == "list" and not sn.keys and op == "none":
            f.add("op-below-keyless-instance")                                                       # F121
        if sn.dup_inst() and own in (b"replace", b"delete") and sn.sid in dup_sids:
            f.add("dupinst-duplicate-touched")                                                       # F123
        if sn.kind == "list" and own == b"replace" and len(n.kids) > len(sn.keys):
            f.add("move-with-content")                                                               # F126
        if not o and sn.sid in dflt_uo_sids and op == "create":
            # without LYD_DIFF_DEFAULTS the default instances stay next to the created ones until re-validation; which of two
            # equal instances an anchor lookup returns then depends on the children hash table
            f.add("create-next-to-default-instances")
    for g in groups(B, lambda sn: sn.kind == "leaflist" and sn.is_userord() and not sn.dup_inst()):
        if any(x.val == b"" for x in g[:-1]):
            f.add("uo-empty-value-anchor")                                                           # F122
    if dup_sids:
        f.add("dupinst-duplicates")
    for g in groups(D, lambda sn: sn.kind == "leaflist" and not sn.is_userord()):
        # instances of a system-ordered leaf-list whose order in the diff is not the sorted order, with differing metadata
        srt = sorted(g, key=lambda n: n.sn.ty.sortkey(n.val))
        if [x.val for x in srt] != [x.val for x in g] and len(set(tuple(x.meta) + (x.flags & tg.F_DFLT,) for x in g)) > 1:
            f.add("json-leaflist-meta-order")                                                        # F34
    return sorted(f)


def in_fragment(feat):
    return not ({"dupinst-duplicates", "op-below-keyless-instance", "create-next-to-default-instances"} & set(feat))


def classify(component, what, case):
    """Which known finding is this failing case an instance of?  Specific: law + feature of the input."""
    law, feat = case.get("law"), set(case.get("features", []))
    verdict = case.get("verdict")
    if law == "json" and "json-leaflist-meta-order" in feat and case.get("route_only"):
        return "F34"
    if law in ("apply", "xml", "json", "lyb") and verdict in ("Eint", "applyerr") and "move-with-content" in feat:
        return "F126"
    if law in ("cmp", "xml", "json", "lyb") and verdict in ("0", "differs") and "uo-move-with-dflt-change" in feat:
        return "F120"
    if law in ("apply", "cmp", "xml", "json", "lyb") and "op-below-keyless-instance" in feat:
        # the partial parent copy in the diff matches no instance (LY_EINVAL) or, compared by full recursion, another one
        return "F121"
    if law in ("cmp", "xml", "json", "lyb") and verdict in ("0", "differs") and "uo-empty-value-anchor" in feat:
        return "F122"
    if law in ("apply", "cmp", "xml", "json", "lyb") and "dupinst-duplicate-touched" in feat:
        return "F123"
    if law == "npstale" and "dflt-cleared-by-none" in feat:
        return "F124"
    if law in ("ptr", "cmp", "apply") and "diff-pointer-not-first" in feat:
        return "F128"
    if law in ("cmp", "xml", "json", "lyb") and verdict in ("0", "differs") and "create-next-to-default-instances" in feat and not case.get("opts"):
        return "F127"
    return None


# ----------------------------------------------------------------------------------------------------
# case generation
# ----------------------------------------------------------------------------------------------------

class Case:
    __slots__ = ("s", "A", "B", "C", "kind", "a", "b", "c", "D", "feat")

    def __init__(self, s, A, B, kind, C=None):
        self.s, self.A, self.B, self.C, self.kind = s, A, B, C, kind
        self.a = self.b = self.c = None     # canonical dump tokens as built by libyang
        self.D = {}                          # opts -> libyang's diff (parsed)
        self.feat = {}


def schema_line(i, s):
    return "%s %s schema %s %s" % (i, COMP, tg.hx(s.dsl()), tg.hx(s.yang().encode()))


def run_with_schemas(cx, schemas, lines, model=False):
    """run request lines with the schema registrations in front; re-run what a restarted harness answered with NoSchema"""
    head = [schema_line("S%d" % i, s) for i, s in enumerate(schemas)]
    rep = cx.run_impl(HARNESS, head + lines, component=COMP, env=ENV)
    for _ in range(3):
        lost = [l for l in lines if rep.get(l.split()[0], [None, None])[:2] == ["err", "NoSchema"]]
        if not lost:
            break
        rep.update(cx.run_impl(HARNESS, head + lost, component=COMP, env=ENV))
    return rep


def gen_pairs(cx, s, rng, n):
    g = tg.TreeGen(rng, s, density=rng.choice([0.4, 0.6, 0.8]), max_inst=rng.choice([3, 4]))
    gmin = tg.TreeGen(rng, s, density=0.0)
    out = []
    for _ in range(n):
        A = g.tree()
        r = rng.random()
        if r < 0.72:
            B, kind = g.edit(A, rate=rng.choice([0.15, 0.35, 0.6])), "edit"
        elif r < 0.84:
            B, kind = g.tree(), "independent"
        elif r < 0.90:
            B, kind = [n.clone() for n in A], "same"
        elif r < 0.95:
            B, kind = gmin.tree(), "to-minimal"         # the smallest valid tree: only what mandatory / min-elements force
        else:
            A, B, kind = gmin.tree(), A, "from-minimal"
        out.append(Case(s, A, B, kind, C=g.edit(A, rate=0.5) if rng.random() < 0.5 else g.tree()))
    return out


def userord_cases(cx, kind, nkeys):
    """all ordered pairs of duplicate-free sequences over `nkeys` keys, inside a container and at top level"""
    s = tg.userord_schema(kind)
    cont = s.nodes[0]
    a, ul, z = cont.kids
    top_ul = s.top[1]
    seqs = tg.all_nodup_seqs(nkeys)

    def inst(sn, k, changed=False):
        if sn.kind == "leaflist":
            return tg.DN(sn, str(k).encode())
        kids = []
        if sn.keys:
            kids.append(tg.DN(sn.kids[0], str(k).encode()))
            kids.append(tg.DN(sn.kids[1], (b"w%d" if changed else b"v%d") % k))
        else:
            kids.append(tg.DN(sn.kids[0], str(k).encode()))
        return tg.DN(sn, None, kids)

    def tree(seq, nested, vmask=0, az=(b"x", b"y")):
        """vmask: bit k set = the non-key leaf of instance k has the other value; az: values of the leaves around the list"""
        if nested:
            return [tg.DN(cont, None, [tg.DN(a, az[0])] + [inst(ul, k, vmask >> k & 1) for k in seq] + [tg.DN(z, az[1])])]
        return [inst(top_ul, k, vmask >> k & 1) for k in seq]
    return s, seqs, tree


# ----------------------------------------------------------------------------------------------------
# the check
# ----------------------------------------------------------------------------------------------------

def run(cx):
    cx.rule("diff: B = random edit of a random valid tree A over random S1 schemas (value changes, create/delete at any depth, case "
            "switch, user-ordered rotations/reversals/moves/interleaved inserts) + independent / equal / empty partners; both "
            "option settings; exhaustive pairs of duplicate-free user-ordered sequences; non-trivial = distinct (schema, A, B, opts) "
            "whose diff is not empty or whose reply is a distinct error")
    rng = cx.sub_rng("schemas")
    nsch = cx.n(24, 100)
    per = cx.n(56, 300)
    schemas = [tg.gen_schema(rng, i, max_depth=rng.choice([2, 3, 3])) for i in range(nsch)]
    corpus_cases = load_corpus(cx)
    cases = []
    for i, s in enumerate(schemas):
        cases += gen_pairs(cx, s, cx.sub_rng("pairs%d" % i), per)
    cases = corpus_cases + cases
    all_schemas = list({id(c.s): c.s for c in cases}.values())
    process(cx, all_schemas, cases, tag="rand")
    exhaustive(cx)


def load_corpus(cx):
    d = os.path.join(os.path.dirname(os.path.dirname(os.path.dirname(os.path.abspath(__file__)))), "corpus", "diff")
    out = []
    if not os.path.isdir(d):
        return out
    for fn in sorted(os.listdir(d)):
        if fn.endswith(".json"):
            out += corpus_file(os.path.join(d, fn))
    return out


def corpus_file(path):
    """{"schema": {"gen": [seed, idx]} | {"userord": kind} | {"hand": function of treegen}, "pairs": [[A-dump, B-dump], ...]}
    (dumps as text, explicit nodes only: libyang adds the implicit ones)"""
    import random
    j = json.load(open(path))
    sj = j["schema"]
    if "userord" in sj:
        s = tg.userord_schema(sj["userord"])
    elif "hand" in sj:
        s = getattr(tg, sj["hand"])()
    else:
        s = tg.gen_schema(random.Random(sj["gen"][0]), sj["gen"][1], **sj.get("kw", {}))
    return [Case(s, tg.parse_dump(s, a), tg.parse_dump(s, b), "corpus") for a, b in j["pairs"]]


def build_trees(cx, schemas, cases):
    """explicit python trees -> libyang builds, validates (adds defaults) and dumps them"""
    lines, want = [], []
    for k, c in enumerate(cases):
        d = tg.hx(c.s.dsl())
        for which, t in (("a", c.A), ("b", c.B), ("c", c.C)):
            if t is None:
                continue
            i = "b%d%s" % (k, which)
            lines.append("%s %s build %s %s" % (i, COMP, d, tg.tok(t)))
            want.append((i, c, which))
    rep = run_with_schemas(cx, schemas, lines)
    bad = 0
    for i, c, which in want:
        r = rep.get(i, ["err", "NoReply"])
        if r[0] == "ok":
            setattr(c, which, r[1])
        else:
            bad += 1
            cx.dist["build:" + " ".join(r[:2])] += 1
    if bad:
        cx.notes.append("%d generated trees were not accepted by libyang (generator defect, cases dropped)" % bad)
    return [c for c in cases if c.a is not None and c.b is not None]


def process(cx, schemas, cases, tag, laws=True, apply3=True, law_mod=1):
    cases = build_trees(cx, schemas, cases)
    rng = cx.sub_rng("proc" + tag)
    # repaired findings: the model follows the repaired code (LyModel.Diff.Fixes)
    fx = "fx=" + (",".join(sorted(f[1:] for f in ("F120", "F126", "F128") if cx.findings.get(f, {}).get("status") == "fixed")) or "-")
    # ---- 1. diff correspondence (also gives the features used for the fragment and for classification)
    head = [schema_line("S%d" % i, s) for i, s in enumerate(schemas)]
    lines, idx = [], {}
    for k, c in enumerate(cases):
        d = tg.hx(c.s.dsl())
        for o in (0, 1):
            i = "d%s%d.%d" % (tag, k, o)
            lines.append("%s %s diff %s %s %s %d %s" % (i, COMP, d, c.a, c.b, o, fx))
            idx[i] = (c, o)
        if rng.random() < 0.25:
            i = "k%s%d" % (tag, k)
            lines.append("%s %s canon %s %s" % (i, COMP, d, tg.tok(tg.scramble(rng, tg.untok(c.s, c.a)))))
            idx[i] = (c, None)

    def kind(line, reply):
        op = line.split()[2]
        return "diff:%s:%s" % (op, reply[0] if reply[0] == "ok" else reply[1])

    def nontrivial(line, reply):
        return not (reply[0] == "ok" and len(reply) > 1 and reply[1] == "-")
    def below_keyless(line, reply):
        """libyang's diff has an operation below a matched key-less list instance (every such operation gets its own copy of
        the parents: the model does not follow that; it only arises from default-flag-only differences, finding F121)"""
        c, o = idx[line.split()[0]]
        if o is None or reply[0] != "ok":
            return False
        return any(n.sn.kind == "list" and not n.sn.keys and op == "none" for n, op in walk_diff(tg.untok(c.s, reply[1])))
    def lyds_parent_copies(line, reply):
        """KNOWN MODEL GAP (reported by the C13 builder): below an already existing diff parent, lyd_diff_add connects the parent
        copies of a system-ordered list through lyd_insert_node(..., LYD_INSERT_NODE_DEFAULT), i.e. sorted by the lyds tree among
        the diff siblings that are in that tree (earlier parent copies), while nodes that carry an operation are appended; the
        model appends both.  Only the ORDER of the diff siblings of one list differs (apply does not depend on it).  Recognised
        on libyang's diff: a nested sibling group of a system-ordered keyed list with >= 2 parent copies and a delete/create."""
        c, o = idx[line.split()[0]]
        if o is None or reply[0] != "ok":
            return False
        wd = dict((id(n), op) for n, op in walk_diff(tg.untok(c.s, reply[1])))

        def rec(nodes, depth):
            byg = {}
            for n in nodes:
                if depth and n.sn.kind == "list" and n.sn.keys and not n.sn.is_userord():
                    byg.setdefault(n.sn.sid, []).append(n)
            for g in byg.values():
                copies = sum(1 for n in g if meta(n, "operation") in (None, b"none"))
                ops = sum(1 for n in g if meta(n, "operation") in (b"delete", b"create"))
                if copies >= 2 and ops >= 1:
                    return True
            return any(rec(n.kids, depth + 1) for n in nodes)
        return rec(tg.untok(c.s, reply[1]), 0)
    ri, rm = differential(cx, head, lines, kind, nontrivial,
                          skip=lambda l, r: below_keyless(l, r) or lyds_parent_copies(l, r))
    for i, (c, o) in idx.items():
        r = ri.get(i, ["err", "NoReply"])
        if o is None:
            if r[0] == "ok" and r[1] != c.a:
                cx.fail(COMP, "a tree rebuilt node by node in another sibling order is not the canonical tree", case_payload(c, None, "canon", r[1]))
            continue
        if r[0] == "ok":
            c.D[o] = tg.untok(c.s, r[1])
            c.feat[o] = features(c.s, tg.untok(c.s, c.a), tg.untok(c.s, c.b), c.D[o], o)
        cx.dist["pair:" + c.kind] += 1
    # ---- 1b. which cases satisfy the hypotheses of the proved theorem Props.C06UO.apply_diff_userord_flat_ll(_dec)?
    theorem_cases(cx, head, cases, tag)
    # ---- 2. apply correspondence inside the model's fragment
    lines = []
    for k, c in enumerate(cases):
        d = tg.hx(c.s.dsl())
        for o in (0, 1):
            if o not in c.feat or not in_fragment(c.feat[o]):
                cx.dist["out-of-fragment(apply)"] += 1
                continue
            lines.append("a%s%d.%d %s diffapply %s %s %s %d %s" % (tag, k, o, COMP, d, c.a, c.b, o, fx))
            if apply3 and c.c is not None and o == (k % 2) and not dupinst_has_duplicates(tg.untok(c.s, c.c)):
                lines.append("m%s%d.%d %s apply3 %s %s %s %s %d %s" % (tag, k, o, COMP, d, c.a, c.b, c.c, o, fx))
    differential(cx, head, lines, kind, nontrivial)
    # ---- 3. the laws on the implementation
    if not laws:
        return
    lines, idx = [], {}
    for k, c in enumerate(cases):
        d = tg.hx(c.s.dsl())
        if k % law_mod:
            continue
        for o in (0, 1):
            i = "l%s%d.%d" % (tag, k, o)
            lines.append("%s %s law %s %s %s %d" % (i, COMP, d, c.a, c.b, o))
            idx[i] = (c, o)
    rep = run_with_schemas(cx, schemas, lines)
    for i, (c, o) in idx.items():
        eval_law(cx, c, o, rep.get(i, ["err", "NoReply"]))


def core_ops_of_diff(D, keyed=False):
    """libyang's diff of a flat user-ordered leaf-list / key-only single-key list pair, rendered like
    LyModel.Diff.UOB.renderOp / renderOpK (identity = value / key value, anchor = yang:value / yang:key)"""
    out = []
    for n in D:
        op = meta(n, "operation")
        anchor = meta(n, "key" if keyed else "value")
        a = "~" if not anchor else tg.hx(anchor)
        if keyed == "multi":
            ident = ",".join(tg.hx(k.val) for k in n.kids)
        else:
            ident = tg.hx(n.kids[0].val if keyed and n.kids else n.val)
        if op == b"delete":
            out.append("d:" + ident)
        elif op == b"create":
            out.append("c:%s:%s" % (ident, a))
        elif op == b"replace":
            out.append("m:%s:%s" % (ident, a))
        else:
            out.append("?:" + ident)
    return out


def theorem_cases(cx, head, cases, tag):
    """Per generated case (with LYD_DIFF_DEFAULTS): the driver evaluates the DECIDABLE hypothesis of the theorem
    `apply_diff_userord_flat_ll_dec` (`flatLL`: both trees = plain instances of one user-ordered configuration leaf-list,
    duplicate-free, no empty value in B).  Counted in the distribution; for those cases libyang's diff must be, node for node,
    the encoding of the list core's `UOG.diffU` (theorem `diff_userord_flat_ll_sim`), and the law `cmp` must hold (theorem
    `apply_diff_userord_flat_ll`; evaluated with the other laws, unclassifiable there because F122 is excluded)."""
    lines, idx = [], {}
    for k, c in enumerate(cases):
        if 1 not in c.D:
            continue
        A, B = tg.untok(c.s, c.a), tg.untok(c.s, c.b)
        tops = A + B
        # cheap necessary condition (the driver decides): a user-ordered (leaf-)list has instances at the top level
        if not any(n.sn.kind in ("leaflist", "list") and n.sn.is_userord() for n in tops) and not (
                len(A) == 1 and len(B) == 1 and A[0].sn is B[0].sn and A[0].sn.kind == "container"
                and any(n.sn.kind == "leaflist" and n.sn.is_userord() for n in A[0].kids + B[0].kids)):
            cx.dist["thm:apply_diff_userord_flat:hypotheses-fail"] += 1
            continue
        i = "h%s%d" % (tag, k)
        lines.append("%s %s uohyp %s %s %s" % (i, COMP, tg.hx(c.s.dsl()), c.a, c.b))
        idx[i] = c
    if not lines:
        return
    rm = cx.run_model(head + lines)
    for l in lines:
        i = l.split()[0]
        c = idx[i]
        r = rm.get(i, ["err", "NoReply"])
        if r[0] != "ok":
            cx.disagree(COMP, l, ["ok", "?"], r)
            continue
        if r[1] not in ("1", "2", "3", "4", "5"):
            cx.dist["thm:apply_diff_userord_flat:hypotheses-fail"] += 1
            continue
        # flatLL (leaf-list alone) / flatKL (single-key list, key-only instances) / nbLL (leaf-list between inert neighbours)
        # contLL (both trees one container holding the leaf-list between inert neighbours)
        thm = {"1": "ll", "2": "kl", "3": "ll_neighbours", "4": "ll_in_container", "5": "kl_multikey"}[r[1]]
        cx.dist["thm:apply_diff_userord_flat_%s:hypotheses-hold" % thm] += 1
        c.feat[1] = sorted(set(c.feat.get(1, [])) | {"thm-userord-flat-" + thm})
        core = r[3:]
        if thm == "ll_in_container":
            # the diff is one copy of the container with operation=none holding the operations (or empty)
            D = c.D[1]
            top = tg.untok(c.s, c.a)[0].sn
            ok_shape = not D or (len(D) == 1 and D[0].sn is top and meta(D[0], "operation") == b"none")
            impl = core_ops_of_diff(D[0].kids) if D and ok_shape else ([] if ok_shape else ["?shape"])
        else:
            impl = core_ops_of_diff(c.D[1], keyed=("multi" if thm == "kl_multikey" else thm == "kl"))
        cx.count(("uocore", c.s.name, c.a, c.b), bool(core), "diff:uocore-%s:%s" % (thm, "ops" if core else "empty"))
        if impl != core:
            cx.dist["thm:apply_diff_userord_flat_%s:libyang-diff-differs-from-core" % thm] += 1
            cx.disagree(COMP, l, ["ok", r[1], r[2]] + impl, r)


def differential(cx, head, lines, kind, nontrivial, skip=None):
    """cx.differential with the schema registrations in front of the batch (not counted as cases); skip(line, impl_reply):
    the case is outside the model's fragment, decided from what the implementation answered"""
    if not lines:
        return {}, {}
    ri = cx.run_impl(HARNESS, head + lines, component=COMP, env=ENV)
    for _ in range(3):
        lost = [l for l in lines if ri.get(l.split()[0], [None, None])[:2] == ["err", "NoSchema"]]
        if not lost:
            break
        ri.update(cx.run_impl(HARNESS, head + lost, component=COMP, env=ENV))
    rm = cx.run_model(head + lines)
    for l in head + lines:
        i = l.split()[0]
        a, b = ri.get(i, ["err", "NoReply"]), rm.get(i, ["err", "NoReply"])
        if l in lines:
            cx.count(" ".join(l.split()[2:]), nontrivial(l, a), kind(l, a))
        if a != b and a[:2] not in (["err", "Crash"], ["err", "Timeout"]):
            if skip is not None and l in lines and skip(l, a):
                cx.dist["out-of-fragment(diff)"] += 1
                continue
            cx.disagree(COMP, l, a, b)
    cx.sample(lines[cx.rng.randrange(len(lines))][:600])
    return ri, rm


def case_payload(c, o, law, verdict, route_only=None):
    return {"law": law, "verdict": verdict, "opts": o, "features": c.feat.get(o, []) if o is not None else [], "pair_kind": c.kind,
            "route_only": route_only, "schema_dsl": c.s.dsl().decode(), "schema_yang": c.s.yang(), "A": c.a, "B": c.b,
            "A_text": tg.pretty(c.s, tg.untok(c.s, c.a))[:3000], "B_text": tg.pretty(c.s, tg.untok(c.s, c.b))[:3000],
            "diff_text": tg.pretty(c.s, c.D[o])[:3000] if o in c.D else None}


def eval_law(cx, c, o, reply):
    if reply[0] != "ok":
        if reply[:2] != ["err", "Crash"]:
            cx.fail(COMP, "law op failed: " + " ".join(reply[:2]), case_payload(c, o, "harness", " ".join(reply[:2])))
        return
    v = dict(f.split("=", 1) for f in reply[1:])
    key = (c.s.name, c.a, c.b, o)
    cx.count(("law",) + key, bool(c.D.get(o)), "diff:law:" + ("all-hold" if all(v.get(k, LAW_OK[k]) == LAW_OK[k] for k in LAW_OK) else "some-fail"))
    cx.dist["law:exact=" + v.get("exact", "-")] += 1
    if v.get("ptr", "0") != "0":
        c.feat[o] = sorted(set(c.feat.get(o, [])) | {"diff-pointer-not-first"})                      # F128
        cx.fail(COMP, "lyd_diff_siblings returns a node that is not the first sibling of the diff", case_payload(c, o, "ptr", v["ptr"]))
    for k in ("diff", "selfA", "selfB", "pureA", "pureB", "apply", "pureD", "reval", "cmp", "npstale", "xml", "json", "lyb"):
        if k in v and v[k] != LAW_OK[k]:
            if k in ("xml", "json", "lyb") and v.get("apply") == "Success" and v.get("cmp") == "0" and v[k] == "differs":
                continue        # the same failure as the direct route, reported there
            if k in ("xml", "json", "lyb") and v.get("apply", "Success") != "Success" and v[k] == "applyerr":
                continue
            cx.fail(COMP, LAW_TEXT[k] + (" [LYD_DIFF_DEFAULTS]" if o else ""), case_payload(c, o, k, v[k], route_only=(v.get("apply") == "Success" and (v[k] == "applyerr" or v.get("cmp") == "1"))))


def exhaustive(cx):
    """all ordered pairs of duplicate-free user-ordered sequences over <= n keys, at the top level (complete) and, for a sample,
    nested in a container between two leaves (the algorithm does not depend on the level)"""
    thorough = cx.tier == "thorough"
    #        kind         keys   share of the pairs taken at the top level   share nested
    plan = [("list", 5 if thorough else 4, 1, 0 if thorough else 4), ("leaflist", 5 if thorough else 4, 4 if thorough else 1, 0 if thorough else 4),
            ("keyless", 4 if thorough else 3, 1, 1), ("statell", 4 if thorough else 3, 1, 1), ("statelist", 4 if thorough else 3, 1, 1)]
    if thorough:
        plan += [("leaflist", 4, 1, 1), ("list", 4, 0, 1)]
    total, complete = 0, []
    for kind, nk, top_mod, nested_mod in plan:
        s, seqs, tree = userord_cases(cx, kind, nk)
        cases = []
        for nested, mod in ((False, top_mod), (True, nested_mod)):
            if not mod:
                continue
            for ia, x in enumerate(seqs):
                for ib, y in enumerate(seqs):
                    if mod == 1 or (ia * 7 + ib) % mod == 0:
                        cases.append(Case(s, tree(x, nested), tree(y, nested), "userord-" + kind))
        if top_mod == 1:
            complete.append("%s<=%d" % (kind, nk))
        total += len(cases)
        for lo in range(0, len(cases), 6000):
            # the complete 5-key runs: every pair through diff and apply of implementation and model, every third one through
            # the (three times more expensive) print/parse routes of the law op as well
            process(cx, [s], cases[lo:lo + 6000], tag="x%s%d.%d" % (kind, nk, lo), laws=True, apply3=False,
                    law_mod=3 if nk >= 5 else 1)
    # moves combined with changes INSIDE the moved instances and changes of the siblings around the list (the diff nodes of such
    # instances exist before their move is recorded and are relocated by lyd_diff_add; a changed later sibling is then the
    # last diff sibling): all ordered pairs over <= 3 keys x inner-change masks x changed neighbours
    for kind in ("list", "statelist"):
        nk = 4 if thorough else 3
        s, seqs, tree = userord_cases(cx, kind, nk)
        cases = []
        masks = list(range(1 << (nk + 1))) if thorough else [(1 << (nk + 1)) - 1, 0b0101, 0b0110]
        for ia, x in enumerate(seqs):
            for ib, y in enumerate(seqs):
                for vm in masks:
                    for iz, az in enumerate(((b"x", b"y"), (b"x", b"y2"), (b"x2", b"y2"))):
                        if thorough and (ia * 31 + ib * 7 + vm * 3 + iz) % 7:
                            continue
                        cases.append(Case(s, tree(x, True), tree(y, True, vm, az), "userord-inner-" + kind))
        total += len(cases)
        for lo in range(0, len(cases), 6000):
            process(cx, [s], cases[lo:lo + 6000], tag="i%s%d.%d" % (kind, nk, lo), laws=True, apply3=False, law_mod=1)
    # the class of the proved theorem Props.C06UO.apply_diff_userord_flat_ll: a module whose ONLY node is a user-ordered
    # configuration leaf-list (in the schemas above libyang puts the implicit container next to the top-level instances), all
    # ordered pairs of duplicate-free sequences; values with blanks and both quote characters, never the empty string (F122)
    s = tg.Schema("uollonly", [tg.SNode("leaflist", "ul", ty=tg.Ty("string"), userord=True)])
    vals = [b"a", b"b b", b"c'", b'd"', b"ee"]
    for nk, mod in (((5, 16), (4, 1)) if thorough else ((4, 8), (3, 1))):
        seqs = tg.all_nodup_seqs(nk)
        cases = [Case(s, [tg.DN(s.top[0], vals[k]) for k in x], [tg.DN(s.top[0], vals[k]) for k in y], "userord-llonly")
                 for ia, x in enumerate(seqs) for ib, y in enumerate(seqs) if mod == 1 or (ia * 7 + ib) % mod == 0]
        total += len(cases)
        for lo in range(0, len(cases), 6000):
            process(cx, [s], cases[lo:lo + 6000], tag="xllonly%d.%d" % (nk, lo), laws=True, apply3=False, law_mod=3 if nk >= 5 else 1)
    # the class of Props.C06UO.apply_diff_userord_flat_kl: a module whose only node is a single-key user-ordered list, key-only
    s = tg.Schema("uoklonly", [tg.SNode("list", "ul", keys=["k"], userord=True, kids=[tg.SNode("leaf", "k", ty=tg.Ty("string"), iskey=True)])])
    for nk, mod in (((5, 16), (4, 1)) if thorough else ((4, 8), (3, 1))):
        seqs = tg.all_nodup_seqs(nk)
        cases = [Case(s, [tg.DN(s.top[0], None, [tg.DN(s.top[0].kids[0], vals[k])]) for k in x],
                      [tg.DN(s.top[0], None, [tg.DN(s.top[0].kids[0], vals[k])]) for k in y], "userord-klonly")
                 for ia, x in enumerate(seqs) for ib, y in enumerate(seqs) if mod == 1 or (ia * 7 + ib) % mod == 0]
        total += len(cases)
        for lo in range(0, len(cases), 6000):
            process(cx, [s], cases[lo:lo + 6000], tag="xklonly%d.%d" % (nk, lo), laws=True, apply3=False, law_mod=3 if nk >= 5 else 1)
    # the class of Props.C06UO.apply_diff_userord_flat_kl_multikey: a module whose only node is a user-ordered list with TWO keys,
    # key-only instances; identities = pairs of key values (flatMK, reply code 5)
    s = tg.Schema("uok2only", [tg.SNode("list", "ul", keys=["k1", "k2"], userord=True, kids=[
        tg.SNode("leaf", "k1", ty=tg.Ty("string"), iskey=True), tg.SNode("leaf", "k2", ty=tg.Ty("string"), iskey=True)])])
    pairs = [(b"a", b"x"), (b"a", b"y y"), (b"b'", b"x"), (b'c"', b"y y"), (b"a", b"z'")]
    def inst2(k):
        return tg.DN(s.top[0], None, [tg.DN(s.top[0].kids[0], pairs[k][0]), tg.DN(s.top[0].kids[1], pairs[k][1])])
    for nk, mod in (((5, 16), (4, 1)) if thorough else ((4, 12), (3, 1))):
        seqs = tg.all_nodup_seqs(nk)
        cases = [Case(s, [inst2(k) for k in x], [inst2(k) for k in y], "userord-k2only")
                 for ia, x in enumerate(seqs) for ib, y in enumerate(seqs) if mod == 1 or (ia * 7 + ib) % mod == 0]
        total += len(cases)
        for lo in range(0, len(cases), 6000):
            process(cx, [s], cases[lo:lo + 6000], tag="xk2only%d.%d" % (nk, lo), laws=True, apply3=False, law_mod=3 if nk >= 5 else 1)
    cx.exhaustive = True
    cx.notes.append("exhaustive: %d ordered pairs of duplicate-free user-ordered sequences; complete at the top level for %s"
                    % (total, ", ".join(complete)))


def replay(cx, payload):
    """re-run the failing pair of a replay file: laws + correspondence"""
    f = payload.get("failure", {}).get("case") or {}
    if "schema_dsl" not in f:
        return run(cx)
    s = ReplaySchema(f["schema_dsl"], f["schema_yang"])
    c = Case(s, None, None, "replay")
    c.a, c.b = f["A"], f["B"]
    o = f.get("opts") or 0
    head = [schema_line("S0", s)]
    d = tg.hx(s.dsl())
    rep = cx.run_impl(HARNESS, head + ["l0 %s law %s %s %s %d" % (COMP, d, c.a, c.b, o), "d0 %s diff %s %s %s %d fx=-" % (COMP, d, c.a, c.b, o)], component=COMP, env=ENV)
    c.feat[o] = f.get("features", [])
    eval_law(cx, c, o, rep.get("l0", ["err", "NoReply"]))


class ReplaySchema:
    """schema of a replay file: the texts as recorded (no python structure needed to re-run)"""

    def __init__(self, dsl, yang):
        self._dsl, self._yang = dsl.encode(), yang
        self.name = dsl.split("\n")[0].split(" ")[1]
        self.nodes = _nodes_from_dsl(dsl)

    def dsl(self):
        return self._dsl

    def yang(self):
        return self._yang


def _nodes_from_dsl(dsl):
    """enough of SNode for parse_dump/pretty"""
    out, stack = [], []
    for line in dsl.split("\n")[1:]:
        f = line.split(" ")
        d, kind, name = int(f[0]), f[1], f[2]
        n = tg.SNode(kind, name)
        if kind == "list":
            n.keys = ["k"] * int(f[3])
            n.userord = f[4] == "1"
            n.config = f[7] == "1"
        elif kind == "leaflist":
            n.userord = f[4] == "1"
            n.config = f[7] == "1"
            n.ty = tg.Ty("string")
        elif kind == "leaf":
            n.ty = tg.Ty("string")
        n.sid = len(out)
        del stack[d:]
        n.parent = stack[-1] if stack else None
        stack.append(n)
        out.append(n)
    return out
