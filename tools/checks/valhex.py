"""hex-string / mac-address / phys-address / uuid (ietf-yang-types): correspondence of lean/LyModel/Val/HexStr.lean with
src/plugins_types/hex_string.c (component `val`), and the laws of the value on the implementation's replies.

`run_hex(run)` is called from valcomp.run_val with the `Run` object of valcomp (run.diff(cases) = same lines to the harness and to the
model, replies must be equal; run.get(case); run.cx = the check context).

Pools, per typedef (every value in lower, upper and mixed case):
  valid      octet strings of 0..9 octets / the 6 octets of a MAC address / the 8-4-4-4-12 groups of a UUID, random digits, the digits
             at the edges of the three classes (0 9 a f A F)
  bounds     one octet / group more and less, odd digit counts, empty value, a lone separator
  separator  every separator position with - . space :: and nothing; ':' and '-' at either end
  neighbour  the bytes next to the classes in a digit position: / : @ G ` g [ { and 0x00 0x7f 0x80 0xff
  damage     replacement / insertion / deletion of one byte at every position of a few valid values
  blanks     space, tab, LF, CR, VT, FF at the ends and inside
  bytes      NUL at every position (the plug-in stores the part before it), well-formed multi-byte UTF-8 (incl. letters whose lower
             case is ASCII in Unicode: U+212A KELVIN SIGN, U+0130, full-width digits), malformed UTF-8 of every kind PCRE2 reports
  hints      the accepted and some refused values with every hint set of the value API
  lyb        every pool value as a LYB value (store with LY_VALUE_LYB: upper case is lower-cased as well), value -> LYB -> value
  cmp        all pairs inside clusters of case variants, neighbours in strcmp order, random pairs

Laws on the implementation (oracle: the RFC 6991 patterns in python `re`, on the value lower-cased in the C locale):
  hex_accept_iff            stored <=> the lower-cased value (up to the first NUL) matches the pattern; canonical = that value
  hex_canonical_lowercase   no A-Z in a canonical value
  hex_case_insensitive      values that differ in the case of ASCII letters only: all refused, or all stored with one canonical value
                            and pairwise equal
  + the generic laws of valcomp.laws_value (equality = canonical equality, sort preorder consistent with equality, leaf-list order,
    canonical idempotent, value -> LYB -> value, dup, tree LYB round trip)
"""
import re
from vlib.proto import hexs, unhex

MOD = "t:ietf-yang-types:"
TYPES = ["hex-string", "mac-address", "phys-address", "uuid"]
ORACLE = {
    "hex-string": re.compile(rb"([0-9a-fA-F]{2}(:[0-9a-fA-F]{2})*)?"),
    "phys-address": re.compile(rb"([0-9a-fA-F]{2}(:[0-9a-fA-F]{2})*)?"),
    "mac-address": re.compile(rb"[0-9a-fA-F]{2}(:[0-9a-fA-F]{2}){5}"),
    "uuid": re.compile(rb"[0-9a-fA-F]{8}-[0-9a-fA-F]{4}-[0-9a-fA-F]{4}-[0-9a-fA-F]{4}-[0-9a-fA-F]{12}"),
}
HINTS = (0x03F3, 0x03FF, 0x0011, 0x0002, 0x0020, 0, 1, 2, 4, 8, 16, 32, 64, 20)
EDGE = "09afAF"
NEIGH = [b"/", b":", b"@", b"G", b"`", b"g", b"[", b"{", b"Z", b"z", b"\x00", b"\x7f", b"\x80", b"\xff", b"-", b" "]
BLANKS = [b" ", b"\t", b"\n", b"\r", b"\x0b", b"\x0c"]
UTF = ["K".encode(), "İ".encode(), "ſ".encode(), "Ａ".encode(), "０".encode(), "é".encode(), "É".encode(), "€".encode(),
       "\U00010000".encode(), "\U0010ffff".encode(), b"\xef\xbf\xbe", b"\xef\xbf\xbf", b"\xc2\x80",
       # malformed
       b"\x80", b"\xbf", b"\xc0\x80", b"\xc1\xbf", b"\xc2", b"\xe0\x80\x80", b"\xe0\x9f\xbf", b"\xe2\x82", b"\xed\xa0\x80", b"\xed\xbf\xbf", b"\xf0\x80\x80\x80",
       b"\xf0\x8f\xbf\xbf", b"\xf0\x90\x80", b"\xf4\x90\x80\x80", b"\xf5\x80\x80\x80", b"\xf8\x88\x80\x80\x80", b"\xfc\x84\x80\x80\x80\x80", b"\xfe", b"\xff", b"\xc3\x41"]


# hand seeds (first contact with the code), run first: (typedef, op and the arguments before the value, value)
SEEDS = [("hex-string", "validate", b"AB:cD"), ("hex-string", "validate", b""), ("hex-string", "validate", b"AB\x00C"), ("hex-string", "validate", b"\x00AB"),
         ("hex-string", "validate", b"AB\xff"), ("hex-string", "validate", b"\xc3\xa9"), ("hex-string", "validate", b"\xc3\x89"), ("hex-string", "validate", b"AB\x01"),
         ("hex-string", "validate", b"\xed\xa0\x80"), ("hex-string", "validate", b"\xf4\x90\x80\x80"), ("hex-string", "validate", b"\xc0\x80"), ("hex-string", "validate", b"ab\n"),
         ("hex-string", "unlyb", b"AB:CD"), ("hex-string", "unlyb", b"AB\x00:"), ("hex-string", "unlyb", b"\x00"), ("hex-string", "store 1", b"AB"),
         ("hex-string", "store 1011", b"AB"), ("hex-string", "lybrt", b"AB:CD"), ("mac-address", "validate", b"00:11:22:AA:BB:Cc"), ("mac-address", "validate", b""),
         ("uuid", "validate", b"F81D4FAE-7DEC-11D0-A765-00A0C91E6BF6"), ("phys-address", "unlyb", b"0A:0b\x00zz")]
SEED_PAIRS = [("hex-string", b"AB", b"ab"), ("hex-string", b"AB", b"ac"), ("hex-string", b"ab", b"AB:00"), ("mac-address", b"00:11:22:AA:BB:CC", b"00:11:22:aa:bb:cc")]


def c_lower(s):
    return bytes(b + 32 if 65 <= b <= 90 else b for b in s)


def cstr(s):
    return s.split(b"\0")[0]


def case_variants(rng, s, k=2):
    out = [s.lower(), s.upper()]
    for _ in range(k):
        out.append(bytes((b ^ 0x20) if (65 <= (b & ~0x20) <= 90 and rng.random() < 0.5) else b for b in s))
    return out


def octets(rng, n, digits="0123456789abcdef"):
    return [(rng.choice(digits) + rng.choice(digits)).encode() for _ in range(n)]


def valid_of(rng, ty, n_random):
    out = []
    if ty in ("hex-string", "phys-address"):
        for n in range(0, 10):
            out.append(b":".join(octets(rng, n)))
        for _ in range(n_random):
            out.append(b":".join(octets(rng, rng.choice([1, 2, 3, 6, 8, 16, 20]), rng.choice(["0123456789abcdef", EDGE, "abcdef", "0123456789"]))))
        out += [b"00", b"ff", b"FF", b"a0:0A", b"09:af:AF:90:fa:FA"]
    elif ty == "mac-address":
        for _ in range(n_random + 4):
            out.append(b":".join(octets(rng, 6, rng.choice(["0123456789abcdef", EDGE, "abcdef", "0123456789"]))))
        out += [b"00:00:00:00:00:00", b"ff:ff:ff:ff:ff:ff", b"09:af:AF:90:fa:FA", b"00:11:22:aa:bb:cc"]
    else:
        for _ in range(n_random + 4):
            dg = rng.choice(["0123456789abcdef", EDGE, "abcdef", "0123456789"])
            out.append(b"-".join("".join(rng.choice(dg) for _ in range(k)).encode() for k in (8, 4, 4, 4, 12)))
        out += [b"f81d4fae-7dec-11d0-a765-00a0c91e6bf6", b"00000000-0000-0000-0000-000000000000", b"ffffffff-ffff-ffff-ffff-ffffffffffff",
                b"09afAF09-afAF-09af-AF09-afAF09afAF09"]
    return out


def bounds_of(rng, ty):
    out = [b"", b":", b"-", b"0", b"a", b"A", b"000", b"0:0", b"00:", b":00", b"00:0", b"0:00", b"00::00", b"00:00:", b":00:00"]
    if ty == "mac-address":
        for n in (0, 1, 4, 5, 7, 8, 12):
            out.append(b":".join(octets(rng, n)))
        out += [b"00:11:22:33:44:5", b"00:11:22:33:44:555", b"0:11:22:33:44:55", b"000:11:22:33:44:55", b"00:11:22:33:44:55:", b":00:11:22:33:44:55", b"001122334455",
                b"00-11-22-33-44-55", b"0011.2233.4455", b"00:11:22:33:44::55", b"00:11:22:33:44:55 ", b" 00:11:22:33:44:55"]
    elif ty == "uuid":
        base = (8, 4, 4, 4, 12)
        for i in range(5):
            for dl in (-1, 1):
                ks = list(base)
                ks[i] += dl
                out.append(b"-".join("".join(rng.choice("0123456789abcdefABCDEF") for _ in range(k)).encode() for k in ks))
        g = ["".join(rng.choice("0123456789abcdef") for _ in range(k)).encode() for k in base]
        out += [b"".join(g), b":".join(g), b"-".join(g[:4]), b"-".join(g + [b"00"]), b"-".join(g) + b"-", b"-" + b"-".join(g), b"{" + b"-".join(g) + b"}",
                b"urn:uuid:" + b"-".join(g), b"-".join(g[:2]) + b"--" + b"-".join(g[2:]), b" ".join(g), b"-".join(reversed(g))]
    else:
        for n in (1, 2, 3):
            v = b":".join(octets(rng, n))
            out += [v + b":", b":" + v, v + b"0", b"0" + v, v[:-1], v + b":0", v + b":000", v.replace(b":", b""), v.replace(b":", b"-"), v.replace(b":", b"."),
                    v.replace(b":", b" "), v.replace(b":", b"::"), v + b" ", b" " + v]
    return out


def separators_of(valid, ty):
    out = []
    sep = b"-" if ty == "uuid" else b":"
    for v in valid[:4]:
        pos = [i for i in range(len(v)) if v[i:i + 1] == sep]
        for p in pos:
            for r in (b"-", b":", b".", b" ", b"::", b"--", b"", b"_", b";"):
                if r != sep:
                    out.append(v[:p] + r + v[p + 1:])
    return out


def neighbours_of(valid):
    out = []
    for v in valid[:3]:
        if not v:
            continue
        for p in sorted({0, 1, len(v) // 2, len(v) - 2, len(v) - 1}):
            if 0 <= p < len(v):
                for b in NEIGH:
                    out.append(v[:p] + b + v[p + 1:])
    return out


def damage_of(rng, valid, per):
    out = []
    alphabet = b"0aAfFgG:- \x00\xff\n"
    for v in valid[:per]:
        for p in range(len(v) + 1):
            out.append(v[:p] + v[p + 1:])
            b = bytes([rng.choice(alphabet)])
            out.append(v[:p] + b + v[p:])
            out.append(v[:p] + b + v[p + 1:])
    return out


def blanks_of(valid):
    out = []
    for v in valid[:2]:
        for b in BLANKS:
            out += [b + v, v + b, v[:2] + b + v[2:], b + v + b]
    return out + BLANKS


def bytes_of(valid):
    out = []
    v = valid[0] if valid[0] else valid[1]
    w = v.upper()
    for p in range(len(w) + 1):
        out.append(w[:p] + b"\x00" + w[p:])
    out += [b"\x00", b"\x00\x00", w + b"\x00ZZ", w + b"\x00\xff", b"\x00" + w]
    for u in UTF:
        out += [u, v + u, u + v, v[:1] + u + v[2:], w + u]
    return out


def pool_of(cx, rng, ty):
    valid = list(dict.fromkeys(valid_of(rng, ty, cx.n(6, 60))))
    pools = {"valid": [], "bounds": bounds_of(rng, ty), "separator": separators_of([v for v in valid if len(v) > 2], ty), "neighbour": neighbours_of([v for v in valid if v]),
             "damage": damage_of(rng, [v for v in valid if len(v) > 4], cx.n(2, 12)), "blanks": blanks_of([v for v in valid if v]),
             "bytes": bytes_of(valid)}
    for v in valid:
        pools["valid"] += case_variants(rng, v, cx.n(1, 3))
    for name in ("bounds", "separator"):
        pools[name] = [x for v in pools[name] for x in (v, v.upper())]
    return {k: list(dict.fromkeys(v)) for k, v in pools.items()}


def run_hex(run):
    from checks import valcomp
    cx = run.cx
    rng = cx.sub_rng("valhex")
    probe = "validate %s %s" % (MOD + "mac-address", hexs(b"00:11:22:AA:bb:Cc"))
    run.diff([probe])
    if run.get(probe)[:2] == ["err", "Schema"]:
        cx.notes.append("hex-string: types not available in this tree")
        return
    run.diff(["%s %s%s %s" % (op.split()[0], MOD + ty, op[len(op.split()[0]):], hexs(v)) for ty, op, v in SEEDS] +
             ["cmp %s %s %s" % (MOD + ty, hexs(a), hexs(b)) for ty, a, b in SEED_PAIRS])
    total, n_acc, n_pairs, n_lyb = 0, 0, 0, 0
    accepted, pairs = {}, {}
    for ty in TYPES:
        d = MOD + ty
        pools = pool_of(cx, rng, ty)
        lex = []
        for name, p in pools.items():
            cx.dist["val:hex:%s:pool:%s" % (ty, name)] = len(p)
            lex += p
        lex = list(dict.fromkeys(lex))
        total += len(lex)
        run.diff(["validate %s %s" % (d, hexs(x)) for x in lex])

        # ---- acceptance against the RFC oracle, canonical form
        acc = {}
        for x in lex:
            r = run.get("validate %s %s" % (d, hexs(x)))
            low = c_lower(cstr(x))
            want = ORACLE[ty].fullmatch(low) is not None
            if r[0] == "ok":
                c = unhex(r[1])
                acc[x] = c
                shape = "lower" if x == c else ("nul-truncated" if b"\0" in x else ("upper" if x == x.upper() else "mixed"))
                cx.count(("hex-acc", ty, x), True, "val:hex:%s:accepted:%s" % (ty, shape))
                if b"\0" in x:
                    # (L) a value is the bytes [value, value + value_len): a NUL inside is no hexadecimal digit (finding F423: strndup truncates)
                    cx.fail("val", "a value with an embedded NUL byte is accepted: the bytes after the NUL are never looked at",
                            {"type": d, "value_hex": hexs(x), "got": r, "law": "hex_nul_refused"})
            else:
                cx.count(("hex-rej", ty, x), True, "val:hex:%s:rejected:%s" % (ty, r[1]))
            case = {"type": d, "value_hex": hexs(x), "got": r, "oracle": want, "law": "hex_accept_iff"}
            if b"\0" in x and r[0] != "ok":
                pass        # refused (repaired tree, fixes/F423.diff) or the part before the NUL does not match: both fine
            elif (r[0] == "ok") != want:
                cx.fail("val", "a %s value is not accepted exactly when its lower-cased form matches the pattern of the typedef" % ty, case)
            elif r[0] == "ok" and unhex(r[1]) != low:
                cx.fail("val", "the canonical value of a %s is not the lower-cased value" % ty, dict(case, law="hex_canonical_lowercase"))
            elif r[0] == "ok" and re.search(rb"[A-Z]", unhex(r[1])):
                cx.fail("val", "the canonical value of a %s has an upper-case letter" % ty, dict(case, law="hex_canonical_lowercase"))
        n_acc += len(acc)
        cx.dist["val:hex:%s:accepted" % ty] = len(acc)
        cx.dist["val:hex:%s:rejected" % ty] = len(lex) - len(acc)

        # ---- case-insensitivity: classes of values with the same C-locale lower-case form
        classes = {}
        for x in lex:
            if b"\0" not in x:
                classes.setdefault(c_lower(x), []).append(x)
        for low, xs in classes.items():
            if len(xs) < 2:
                continue
            rs = [run.get("validate %s %s" % (d, hexs(x))) for x in xs]
            cx.count(("hex-case", ty, low), True, "val:hex:%s:case-class:%s" % (ty, "accepted" if rs[0][0] == "ok" else "rejected"))
            if len({(r[0], r[1] if r[0] == "ok" else "") for r in rs}) != 1:
                cx.fail("val", "values that differ only in the case of ASCII letters are not all refused or all stored as the same value",
                        {"type": d, "values_hex": [hexs(x) for x in xs], "replies": rs, "law": "hex_case_insensitive"})

        # ---- hints, canonical form stored again, LYB
        cases = []
        some = sorted(acc)[:: max(1, len(acc) // cx.n(8, 80))] + [b"", b"x", b"0", b"\xff"]
        for h in HINTS:
            for x in some:
                cases.append("store %s %d %s" % (d, h, hexs(x)))
        for x in lex:
            cases.append("unlyb %s %s" % (d, hexs(x)))
        for x, c in acc.items():
            cases.append("validate %s %s" % (d, hexs(c)))
        run.diff(cases)
        n_lyb += len(lex)
        for x in lex:
            r, u = run.get("validate %s %s" % (d, hexs(x))), run.get("unlyb %s %s" % (d, hexs(x)))
            if r != u:
                cx.fail("val", "a %s stored from LYB is not the value stored from the same text" % ty,
                        {"type": d, "value_hex": hexs(x), "text": r, "lyb": u, "law": "hex_lyb_roundtrip"})

        # ---- cmp / lybrt: clusters of case variants, neighbours in strcmp order, random pairs
        by_c = {}
        for x, c in acc.items():
            if b"\0" not in x:
                by_c.setdefault(c, []).append(x)
        cans = sorted(by_c)
        pr = []
        for c in cans[:cx.n(12, 120)]:
            xs = by_c[c][:4]
            pr += [(a, b) for a in xs for b in xs]
        for i in range(len(cans) - 1):
            pr.append((by_c[cans[i]][0], by_c[cans[i + 1]][-1]))
        flat = [x for c in cans for x in by_c[c]]
        for _ in range(cx.n(150, 3000)):
            pr.append((rng.choice(flat), rng.choice(flat)))
        # prefixes of each other and values that differ in one byte: strcmp edges
        for c in cans:
            for c2 in cans:
                if c != c2 and (c2.startswith(c) or (len(c) == len(c2) and sum(1 for a, b in zip(c, c2) if a != b) == 1)) and len(pr) < cx.n(900, 20000):
                    pr.append((by_c[c][0], by_c[c2][0]))
        pr = list(dict.fromkeys(pr))
        sub = list(dict.fromkeys([a for a, _ in pr]))[:cx.n(40, 400)]
        cases = []
        for a, b in pr:
            cases += ["cmp %s %s %s" % (d, hexs(a), hexs(b)), "cmp %s %s %s" % (d, hexs(b), hexs(a))]
        for a in sub:
            cases.append("lybrt %s %s" % (d, hexs(a)))
            cases.append("cmp %s %s %s" % (d, hexs(a), hexs(acc[a])))
        rejected = [x for x in lex if x not in acc and b"\0" not in x][:5]
        for x in rejected:
            cases += ["cmp %s %s %s" % (d, hexs(x), hexs(flat[0])), "cmp %s %s %s" % (d, hexs(flat[0]), hexs(x)), "lybrt %s %s" % (d, hexs(x))]
        run.diff(cases)
        n_pairs += len(pr)
        pairs[d] = (sub, pr)
        accepted[d] = [x for x in acc if b"\0" not in x]
        for a, b in pr:
            r = run.get("cmp %s %s %s" % (d, hexs(a), hexs(b)))
            if r[0] == "ok":
                same = acc[a] == acc[b]
                cx.count(("hex-cmp", ty, a, b), True, "val:hex:%s:cmp:%s" % (ty, "equal-case-variants" if same and a != b else "equal" if same else "ordered"))
                if (r[1] == "1") != same or (int(r[2]) == 0) != same:
                    cx.fail("val", "two %s values are not equal exactly when their lower-cased forms are equal" % ty,
                            {"type": d, "a_hex": hexs(a), "b_hex": hexs(b), "reply": r, "law": "hex_case_insensitive"})
    valcomp.laws_value(run, accepted, pairs)
    cx.rule("val: hex-string / mac-address / phys-address / uuid (differential against lean/LyModel/Val/HexStr.lean, patterns from ietf-yang-types@2013-07-15.yang; "
            "laws against the RFC 6991 patterns in python re on the C-locale lower case): %d lexical values over the 4 typedefs (valid values in lower / upper / "
            "mixed case, octet and group counts around the bounds, every separator position with wrong separators, the bytes next to the digit classes, one-byte "
            "damage at every position, blanks, NUL at every position, multi-byte and malformed UTF-8), %d accepted; every value also as a LYB value (%d), the "
            "canonical form stored again, %d hint sets; cmp / leaf-list order over %d pairs (clusters of case variants, strcmp neighbours, prefixes), "
            "value -> LYB -> value, dup, tree LYB" % (total, n_acc, n_lyb, len(HINTS), n_pairs))
