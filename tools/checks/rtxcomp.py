"""Round trip / conformance for what the S1 tree generator does not produce: metadata annotations (RFC 7952) on every node
kind, anydata / anyxml content, nodes of an augmenting module (namespace / module-name changes), 64-bit / decimal64 / bits /
binary / union / empty values, RPC / action / notification trees.  Python is the independent encoder (XML and RFC 7951/7952
JSON); libyang's output is read back by expat / json and compared *structurally with the independent encoding*."""
import json, re
from vlib import paths, gen
from vlib.proto import hexs, unhex
from checks import rtcomp

HARNESS = "api_rt"
NS1, NS2 = "urn:verif:rtx1", "urn:verif:rtx2?a=1&b=2"
YANG1 = """module rtx1 { yang-version 1.1; namespace "urn:verif:rtx1"; prefix a;
  import ietf-yang-metadata { prefix md; }
  md:annotation hint { type string; }
  md:annotation num { type int8; }
  identity col; identity red { base col; } identity blue { base col; }
  md:annotation org { type identityref { base col; } }
  container top {
    leaf s { type string; }
    leaf i64 { type int64; } leaf u64 { type uint64; } leaf i16 { type int16; }
    leaf d { type decimal64 { fraction-digits 2; } }
    leaf b { type boolean; } leaf e { type empty; }
    leaf bits { type bits { bit x; bit y; bit z; } }
    leaf bin { type binary; }
    leaf un { type union { type int8; type boolean; type string; } }
    leaf-list ll { type string; ordered-by user; }
    leaf-list sl { type int16; }
    leaf-list dl { type string; ordered-by user; default "x"; default "y"; }
    list l { key k; leaf k { type string; } leaf v { type string; } container in { presence "p"; leaf w { type uint8; } } }
    anydata any;
    anyxml axml;
    action act { input { leaf x { type string; } } output { leaf y { type string; } } }
    notification nt { leaf z { type string; } }
  }
  rpc op { input { leaf a1 { type string; } leaf-list a2 { type uint64; } container c { leaf q { type string; } } } output { leaf o1 { type uint64; } } }
  notification ev { leaf msg { type string; } leaf sev { type int64; } }
}
"""
YANG2 = """module rtx2 { yang-version 1.1; namespace "urn:verif:rtx2?a=1&b=2"; prefix a; import rtx1 { prefix r1; }
  import ietf-yang-metadata { prefix md; }
  md:annotation tag { type string; }
  identity red { base r1:col; }
  augment "/r1:top" { leaf aug { type string; } container ac { presence "p"; leaf in2 { type string; } leaf-list al { type string; } } }
  augment "/r1:top/r1:l" { leaf lv2 { type string; } }
}
"""
YANG3 = """module rtx3 { yang-version 1.1; namespace "urn:verif:rtx3"; prefix c; import rtx1 { prefix r1; }
  identity green { base r1:col; } identity red { base r1:col; }
}
"""
NS3 = "urn:verif:rtx3"
STR = [b"", b"a", b"a b", b" ", b"&", b"<", b">", b"\"", b"'", b"]]>", b"a\tb", b"a\nb", b"a\rb", b"\r\n", b"\\", b"/", b"\x7f", b"\xc3\xa9", b"\xe2\x82\xac",
       b"\xf0\x9f\x98\x80", b"\xef\xbf\xbd", b"{\"k\":1}", b"<x/>", b"&amp;", b"true", b"null", b"1e3", b"0", b"  x  "]


class N:
    """node of the independent instance model"""
    def __init__(self, mod, name, kind, val=None, kids=None, jt="str", meta=None, implicit=False):
        self.mod, self.name, self.kind, self.val, self.kids, self.jt, self.meta = mod, name, kind, val, kids or [], jt, meta or []
        self.implicit = implicit        # a default the library adds: not in the input documents, present in report-all output


def xesc(b, attr=False):
    return rtcomp.xml_escape(b, attr)


def to_xml(nodes, parent_mod=None, implicit=False):
    out = []
    for n in nodes:
        if n.implicit and not implicit:
            continue
        ns = NS1 if n.mod == "rtx1" else NS2
        tag = n.name.encode()
        o = b"<" + tag
        if n.mod != parent_mod:
            o += b' xmlns="' + xesc(ns.encode(), True) + b'"'
        if n.meta:
            o += b' xmlns:m1="' + xesc(NS1.encode(), True) + b'" xmlns:m2="' + xesc(NS2.encode(), True) + b'"'
            for k, v in n.meta:
                if k == "org":      # identityref: the JSON form "<module>:<identity>" becomes a prefix bound to the module's namespace
                    mod, ident = v.split(b":")
                    if mod == b"rtx3":
                        o += b' xmlns:m3="' + NS3.encode() + b'"'
                    v = {b"rtx1": b"m1:", b"rtx2": b"m2:", b"rtx3": b"m3:"}[mod] + ident
                o += (b" m2:" if k == "tag" else b" m1:") + k.encode() + b'="' + xesc(v, True) + b'"'
        if n.kind in ("leaf", "leaflist"):
            out.append(o + (b"/>" if n.val == b"" else b">" + xesc(n.val) + b"</" + tag + b">"))
        elif n.kind == "anyxml-val":
            out.append(o + b">" + xesc(n.val) + b"</" + tag + b">")
        else:
            out.append(o + b">" + to_xml(n.kids, n.mod, implicit) + b"</" + tag + b">")
    return b"".join(out)


def jval(n):
    v = n.val.decode("utf-8")
    if n.jt == "num":
        return int(v)
    if n.jt == "bool":
        return v == "true"
    if n.jt == "empty":
        return [None]
    return v


def jmeta(meta):
    return {("rtx2:" if k == "tag" else "rtx1:") + k: (int(v) if k == "num" else v.decode("utf-8")) for k, v in meta}


def to_json(nodes, parent_mod=None, implicit=False):
    obj = {}
    for n in nodes:
        if n.implicit and not implicit:
            continue
        name = (n.mod + ":" if n.mod != parent_mod else "") + n.name
        if n.kind == "leaf":
            obj[name] = jval(n)
            if n.meta:
                obj["@" + name] = jmeta(n.meta)
        elif n.kind == "leaflist":
            obj.setdefault(name, []).append(jval(n))
            if n.meta or ("@" + name) in obj:
                arr = obj.setdefault("@" + name, [])
                while len(arr) < len(obj[name]) - 1:
                    arr.append(None)
                arr.append(jmeta(n.meta) if n.meta else None)
        elif n.kind == "list":
            o = to_json(n.kids, n.mod, implicit)
            if n.meta:
                o["@"] = jmeta(n.meta)
            obj.setdefault(name, []).append(o)
        elif n.kind == "anyxml-val":
            obj[name] = n.val.decode("utf-8")
            if n.meta:
                obj["@" + name] = jmeta(n.meta)
        elif n.kind == "any":
            obj[name] = to_json(n.kids, n.mod, implicit)
            if n.meta:
                obj["@" + name] = jmeta(n.meta)      # RFC 7952 sec. 5.2.3: sibling member, as for a leaf
        else:
            o = to_json(n.kids, n.mod, implicit)
            if n.meta:
                o["@"] = jmeta(n.meta)
            obj[name] = o
    # trailing nulls of a leaf-list metadata array are not needed; drop them like RFC 7952 allows either way
    for k in list(obj):
        if k.startswith("@") and isinstance(obj[k], list):
            while obj[k] and obj[k][-1] is None:
                obj[k].pop()
            if not obj[k]:
                del obj[k]
    return obj


def norm_json(o):
    """structural normal form: member order insignificant; RFC 7952 leaf-list annotation arrays may carry trailing nulls"""
    if isinstance(o, dict):
        r = {}
        for k, v in o.items():
            v = norm_json(v)
            if k.startswith("@") and isinstance(v, list):
                while v and v[-1] is None:
                    v = v[:-1]
                if not v:
                    continue
            r[k] = v
        return r
    if isinstance(o, list):
        return [norm_json(x) for x in o]
    return o


def text(rng, n):
    while True:
        t = gen.valid_text(rng, n)
        if gen.is_yang_text(t):
            return t


def meta_of(rng, p=0.25):
    if rng.random() > p:
        return []
    m = []
    if rng.random() < 0.7:
        m.append(("hint", rng.choice(STR + [text(rng, 4)])))
    if rng.random() < 0.4:
        m.append(("num", str(rng.choice([-128, -1, 0, 7, 127])).encode()))
    if rng.random() < 0.35:
        # identityref-typed annotation (the shape of ietf-origin): identities of the annotation's module, of a third module, and -
        # rarely, because the value then needs the prefix the annotation's own module uses (F49) - of the augmenting module
        m.append(("org", rng.choice([b"rtx1:red", b"rtx1:red", b"rtx1:blue", b"rtx3:green", b"rtx3:red"])))
    if rng.random() < 0.3:
        # annotation of the other module, which uses the SAME prefix: alone on its element, so that nested elements mix the two
        # namespaces under one prefix (F48); both on ONE element is finding F49 (duplicate xmlns:a attribute), exercised by the
        # dedicated witness in run_rtx
        m = [("tag", rng.choice(STR))]
    return m


def gen_any_content(rng, depth=0):
    """content of anydata / anyxml as elements in NO namespace known to the context is lossy through JSON; use rtx1 nodes"""
    kids = []
    if rng.random() < 0.7:
        kids.append(N("rtx1", "s", "leaf", rng.choice([v for v in STR if v.strip() and v not in (b"0", b"true", b"null", b"1e3")])))
        # (an empty element, or text that looks like a number/boolean, inside anydata has no schema to type it: libyang guesses,
        #  RFC 7951 leaves it open - kept out of the comparison, DESIGN.md sec. 8)
    if rng.random() < 0.5:
        kids.append(N("rtx1", "b", "leaf", rng.choice([b"true", b"false"]), jt="bool"))
    return kids


def gen_top(rng):
    k = []
    if rng.random() < 0.7: k.append(N("rtx1", "s", "leaf", rng.choice(STR + [text(rng, 6)]), meta=meta_of(rng)))
    if rng.random() < 0.5: k.append(N("rtx1", "i64", "leaf", str(rng.choice([-2**63, -1, 0, 2**53 + 1, 2**63 - 1])).encode(), meta=meta_of(rng)))
    if rng.random() < 0.5: k.append(N("rtx1", "u64", "leaf", str(rng.choice([0, 1, 2**53 + 1, 2**64 - 1])).encode()))
    if rng.random() < 0.4: k.append(N("rtx1", "i16", "leaf", str(rng.choice([-32768, -1, 0, 32767])).encode(), jt="num", meta=meta_of(rng)))
    if rng.random() < 0.5: k.append(N("rtx1", "d", "leaf", dec64_canon(rng.choice(DEC64_INTS), 2), meta=meta_of(rng)))
    if rng.random() < 0.4: k.append(N("rtx1", "b", "leaf", rng.choice([b"true", b"false"]), jt="bool", meta=meta_of(rng)))
    if rng.random() < 0.4: k.append(N("rtx1", "e", "leaf", b"", jt="empty", meta=meta_of(rng)))
    if rng.random() < 0.4: k.append(N("rtx1", "bits", "leaf", rng.choice([b"", b"x", b"x z", b"x y z", b"y"])))
    if rng.random() < 0.4: k.append(N("rtx1", "bin", "leaf", rng.choice([b"", b"YQ==", b"YWI=", b"/+8=", b"AAECAwQFBgcICQ=="])))
    if rng.random() < 0.5:
        v, jt = rng.choice([(b"5", "num"), (b"-128", "num"), (b"true", "bool"), (b"x", "str"), (b"128", "str"), (b"", "str"), (b"a b", "str")])
        k.append(N("rtx1", "un", "leaf", v, jt=jt if jt != "str" else "str"))
    seen = []
    for v in [rng.choice(STR[1:]) for _ in range(rng.randrange(0, 4))]:
        if v not in seen:                       # configuration leaf-list: no duplicates
            seen.append(v)
            k.append(N("rtx1", "ll", "leaflist", v, meta=meta_of(rng)))
    for v in sorted(set(rng.choice([-32768, -5, 0, 9, 10, 32767]) for _ in range(rng.randrange(0, 4)))):
        k.append(N("rtx1", "sl", "leaflist", str(v).encode(), jt="num", meta=meta_of(rng, 0.15)))
    if rng.random() < 0.35:
        seen = []
        for v in [rng.choice([b"x", b"y", b"v", b"w"]) for _ in range(rng.randrange(1, 4))]:
            if v not in seen:
                seen.append(v)
                k.append(N("rtx1", "dl", "leaflist", v, meta=meta_of(rng, 0.5)))
    else:
        k += [N("rtx1", "dl", "leaflist", b"x", implicit=True), N("rtx1", "dl", "leaflist", b"y", implicit=True)]
    keys = sorted(set(rng.choice([b"a", b"b", b"a b", b"&", b"it's", b"q\"q", b"\xc3\xa9", b"]", b"zz"]) for _ in range(rng.randrange(0, 4))))
    for key in keys:
        kk = [N("rtx1", "k", "leaf", key)]
        if rng.random() < 0.6: kk.append(N("rtx1", "v", "leaf", rng.choice(STR), meta=meta_of(rng)))
        if rng.random() < 0.4: kk.append(N("rtx1", "in", "cont", kids=[N("rtx1", "w", "leaf", str(rng.choice([0, 7, 255])).encode(), jt="num")] if rng.random() < 0.7 else [], meta=meta_of(rng)))
        if rng.random() < 0.4: kk.append(N("rtx2", "lv2", "leaf", rng.choice(STR), meta=meta_of(rng)))
        k.append(N("rtx1", "l", "list", kids=kk, meta=meta_of(rng)))
    if rng.random() < 0.5: k.append(N("rtx1", "any", "any", kids=gen_any_content(rng), meta=meta_of(rng, 0.5)))
    if rng.random() < 0.5:
        if rng.random() < 0.5:
            k.append(N("rtx1", "axml", "any", kids=gen_any_content(rng), meta=meta_of(rng, 0.5)))
        else:
            k.append(N("rtx1", "axml", "anyxml-val", rng.choice([b"x", b"a b", b"42", b"&"]), meta=meta_of(rng, 0.5)))
    if rng.random() < 0.5: k.append(N("rtx2", "aug", "leaf", rng.choice(STR), meta=meta_of(rng)))
    if rng.random() < 0.5:
        ak = []
        if rng.random() < 0.6: ak.append(N("rtx2", "in2", "leaf", rng.choice(STR)))
        for v in sorted(set(rng.choice([b"a", b"b", b"c"]) for _ in range(rng.randrange(0, 3)))):
            ak.append(N("rtx2", "al", "leaflist", v))
        k.append(N("rtx2", "ac", "cont", kids=ak, meta=meta_of(rng)))
    return [N("rtx1", "top", "cont", kids=k, meta=meta_of(rng))]


def gen_op(rng):
    r = rng.random()
    if r < 0.35:
        k = []
        if rng.random() < 0.7: k.append(N("rtx1", "a1", "leaf", rng.choice(STR)))
        for v in sorted(set(rng.choice([0, 1, 2**53 + 1, 2**64 - 1]) for _ in range(rng.randrange(0, 3)))):
            k.append(N("rtx1", "a2", "leaflist", str(v).encode()))
        if rng.random() < 0.5: k.append(N("rtx1", "c", "cont", kids=[N("rtx1", "q", "leaf", rng.choice(STR))]))
        return "rpc", [N("rtx1", "op", "cont", kids=k)]
    if r < 0.55:
        return "rpc", [N("rtx1", "top", "cont", kids=[N("rtx1", "act", "cont", kids=[N("rtx1", "x", "leaf", rng.choice(STR))] if rng.random() < 0.8 else [])])]
    if r < 0.8:
        k = [N("rtx1", "msg", "leaf", rng.choice(STR))] if rng.random() < 0.8 else []
        if rng.random() < 0.5: k.append(N("rtx1", "sev", "leaf", str(rng.choice([-2**63, 0, 2**63 - 1])).encode()))
        return "notif", [N("rtx1", "ev", "cont", kids=k)]
    return "notif", [N("rtx1", "top", "cont", kids=[N("rtx1", "nt", "cont", kids=[N("rtx1", "z", "leaf", rng.choice(STR))] if rng.random() < 0.8 else [])])]


QNAME_ATTRS = {NS1 + "\x01org"}


OPAQ_NS = ["urn:verif:o1", "urn:verif:o2", "urn:ietf:params:xml:ns:netconf:base:1.0", "urn:verif:o3?x=1&y=2"]
OPAQ_PFX = ["p", "q", "nc", "p"]


def gen_opaq(rng):
    """XML of elements in namespaces no module of the context has (opaque nodes under LYD_PARSE_OPAQ), nested up to five deep,
    with attributes in namespaces; few prefixes for several namespaces, so that inner elements re-bind prefixes the outer ones
    use, the same namespace appears under two prefixes, and default namespaces change on the way down"""
    def elem(depth, scope, dflt):
        # scope: prefix -> namespace in scope; dflt: default namespace in scope
        name = rng.choice(["config", "server", "port", "x", "y"])
        decl, scope = {}, dict(scope)
        ns = rng.choice(OPAQ_NS[:3])
        use_pfx = rng.random() < 0.3
        o = b"<"
        used = set()            # prefixes this element already relies on: they cannot be bound to something else here
        if use_pfx:
            pf = rng.choice(OPAQ_PFX)
            if scope.get(pf) != ns:
                decl[pf] = ns; scope[pf] = ns
            used.add(pf)
            tag = (pf + ":" + name).encode()
        else:
            tag = name.encode()
            if dflt != ns:
                decl[None] = ns; dflt = ns
        attrs = []
        for _ in range(rng.choice([0, 1, 1, 2, 3])):
            ans = rng.choice(OPAQ_NS)
            an = rng.choice(["operation", "tag", "a", "b"])
            if rng.random() < 0.15:
                key, q = (None, an), an                 # attribute in no namespace
            else:
                cands = [pf for pf, u in scope.items() if u == ans]
                if cands and rng.random() < 0.6:
                    pf = rng.choice(cands)
                else:
                    pf = rng.choice(OPAQ_PFX + ["xc"])
                    if scope.get(pf) != ans:
                        if pf in decl or pf in used:
                            continue                  # one element cannot bind a prefix twice
                        decl[pf] = ans; scope[pf] = ans
                used.add(pf)
                key, q = (ans, an), pf + ":" + an
            if key in [k for k, _, _ in attrs]:
                continue
            val = rng.choice([b"delete", b"v", b"", b"a b", b"<&>\"'"])
            if rng.random() < 0.3 and scope:
                # a value that reads as a QName: the binding of its prefix is part of what the attribute says
                vp = rng.choice(sorted(scope))
                used.add(vp)
                val = (vp + ":" + rng.choice(["x", "merge"])).encode()
            attrs.append((key, q, val))
        o += tag
        for pf, u in decl.items():
            o += b" xmlns" + (b":" + pf.encode() if pf else b"") + b'="' + xesc(u.encode(), True) + b'"'
        for _, q, v in attrs:
            o += b" " + q.encode() + b'="' + xesc(v, True) + b'"'
        if depth < 4 and rng.random() < 0.75:
            kids = b"".join(elem(depth + 1, scope, dflt) for _ in range(rng.choice([1, 1, 2])))
            return o + b">" + kids + b"</" + tag + b">"
        tx = rng.choice([b"", b"t", b"a&b"])
        return o + (b"/>" if not tx else b">" + xesc(tx) + b"</" + tag + b">")
    return b"".join(elem(0, {}, None) for _ in range(rng.choice([1, 1, 2])))


NCWD = "urn:ietf:params:xml:ns:netconf:default:1.0"
OPAQ_NS2 = OPAQ_NS + [NCWD, "urn:verif:o4"]
OPAQ_PFX2 = ["p", "q", "nc", "ncwd", "p1", "xc", "q2"]


def gen_opaq_deep(rng, stats=None):
    """the second family of opaque documents: a spine 3 to 9 elements deep with short side branches; the default namespace kept,
    changed and changed back on the way down; seven prefixes for six namespaces (among them `p1` and `q2`, which are also what the
    numbered-prefix loop generates), bound again at several levels — by element names, by attribute names and only by values;
    up to five attributes per element from three and more namespaces (the with-defaults attribute `ncwd:default` on parents and
    leaves among them); QName values in attributes and in character data whose prefix is inherited, declared on the element for
    the value only, or re-bound there; declarations and attributes in any order in the start tag"""
    D = rng.choice([3, 5, 7, 9])
    st = {"rebind": 0, "dflt_change": 0, "attr_ns": 0, "qvals": 0, "depth": 0, "wd": 0}

    NAMES = ["config", "server", "port", "x", "y", "top", "l"]

    def elem(depth, scope, dflt, limit, name):
        st["depth"] = max(st["depth"], depth)
        decl, scope0, scope = {}, scope, dict(scope)
        used = set()            # prefixes this start tag relies on: it cannot bind them to something else

        def bind(pf, u):
            if scope.get(pf) == u:
                used.add(pf)
                return True
            if pf in decl or pf in used:
                return False
            if pf in scope0:
                st["rebind"] += 1
            decl[pf] = u; scope[pf] = u; used.add(pf)
            return True

        def qname():
            if scope and rng.random() < 0.6:
                vp = rng.choice(sorted(scope))
                used.add(vp)
            else:
                vp = rng.choice(OPAQ_PFX2)
                if not bind(vp, rng.choice(OPAQ_NS2)):
                    return None
            st["qvals"] += 1
            return (vp + ":" + rng.choice(["x", "merge", "id-1"])).encode()

        ns = dflt if dflt is not None and rng.random() < 0.5 else rng.choice(OPAQ_NS2[:3] + OPAQ_NS2[5:])
        tag = None
        if rng.random() < 0.25:
            cands = [pf for pf, u in scope.items() if u == ns]
            pf = rng.choice(cands) if cands and rng.random() < 0.5 else rng.choice(OPAQ_PFX2)
            if bind(pf, ns):
                tag = (pf + ":" + name).encode()
        if tag is None:
            tag = name.encode()
            if dflt != ns:
                if dflt is not None:
                    st["dflt_change"] += 1
                decl[None] = ns; dflt = ns
        attrs, keys = [], set()
        for _ in range(rng.choice([0, 1, 2, 2, 3, 4, 5])):
            an = rng.choice(["operation", "tag", "a", "b", "default"])
            if rng.random() < 0.12:
                key, q = (None, an), an
            else:
                ans = NCWD if an == "default" and rng.random() < 0.8 else rng.choice(OPAQ_NS2)
                cands = [pf for pf, u in scope.items() if u == ans]
                if cands and rng.random() < 0.5:
                    pf = rng.choice(cands)
                    used.add(pf)
                else:
                    pf = rng.choice(OPAQ_PFX2)
                    if not bind(pf, ans):
                        continue
                key, q = (ans, an), pf + ":" + an
            if key in keys:
                continue
            if key == (NCWD, "default"):
                val = b"true"
                st["wd"] += 1
            else:
                val = rng.choice([b"delete", b"v", b"", b"a b", b"<&>\"'", b"t\tn\nr"])
                if rng.random() < 0.4:
                    val = qname() or val
            keys.add(key)
            attrs.append(b" " + q.encode() + b'="' + xesc(val, True) + b'"')
        st["attr_ns"] = max(st["attr_ns"], len({k[0] for k in keys if k[0]}))
        leaf = not (depth < limit and rng.random() < 0.9)
        tx = b""
        if leaf:
            tx = rng.choice([b"", b"t", b"a&b", b"5"])
            if rng.random() < 0.4:
                tx = qname() or tx
        parts = [b" xmlns" + (b":" + pf.encode() if pf else b"") + b'="' + xesc(u.encode(), True) + b'"' for pf, u in decl.items()] + attrs
        rng.shuffle(parts)
        o = b"<" + tag + b"".join(parts)
        if not leaf:
            # libyang keeps opaque siblings of one name together (lyd_insert_node), so equal names only next to each other
            names = rng.sample(NAMES, rng.choice([1, 1, 2, 3]))
            if rng.random() < 0.3:
                k = rng.randrange(len(names))
                names.insert(k, names[k])
            deep = rng.randrange(len(names))
            kids = [elem(depth + 1, scope, dflt, limit if k == deep else min(limit, depth + 2), nm) for k, nm in enumerate(names)]
            return o + b">" + b"".join(kids) + b"</" + tag + b">"
        return o + (b"/>" if not tx else b">" + xesc(tx) + b"</" + tag + b">")
    doc = b"".join(elem(0, {}, None, D - 1, nm) for nm in rng.sample(NAMES, rng.choice([1, 1, 1, 2])))
    if stats is not None:
        stats.append(st)
    return doc


# hand-made documents for the paths of xml_print_ns the opaque model covers: a suggestion that is bound further out (numbered
# prefix), a prefix reused from an ancestor although a value of the same element needs it for another namespace (reserved), the
# numbered candidate itself taken, the same namespace under two prefixes with the first one re-bound in between (shadow check)
OPAQ_HAND = [
    b'<config xmlns="urn:o1" xmlns:nc="urn:N1" nc:operation="nc:merge"><server xmlns:nc="urn:N2" nc:tag="nc:blue">'
    b'<port xmlns:xc="urn:N1" xc:operation="delete" a="1">xc:t</port></server></config>',
    b'<a xmlns="urn:o1" xmlns:p="urn:N1" p:x="1"><b xmlns:q="urn:N1" xmlns:p="urn:N2" q:y="2" z="p:v"/></a>',
    b'<a xmlns="urn:o1" xmlns:p="urn:N1" xmlns:p1="urn:N3" p:x="1" p1:y="2"><b xmlns:p="urn:N2" p:z="3"><c xmlns:p="urn:N4" p:w="p1:k"/></b></a>',
    b'<a xmlns="urn:o1" xmlns:p="urn:N1" p:x="p:v"><b xmlns:q="urn:N1" q:x="1" xmlns:p="urn:N2">p:t</b><c xmlns="urn:o2" xmlns:q="urn:N1" q:y=""/></a>',
    b'<p:a xmlns:p="urn:o1" p:x="1"><p:b p:y="p:z"><c xmlns="urn:o2" xmlns:r="urn:o1" r:k="2">t</c></p:b></p:a>',
    # the with-defaults attribute on opaque parents and leaves, its prefix declared far above
    b'<top xmlns="urn:o1" xmlns:ncwd="urn:ietf:params:xml:ns:netconf:default:1.0"><c ncwd:default="true"><l ncwd:default="true">5</l>'
    b'<m xmlns:ncwd="urn:N1" xmlns:w="urn:ietf:params:xml:ns:netconf:default:1.0" w:default="true" ncwd:k="ncwd:v"/></c></top>',
    # a prefix bound to another namespace at each of eight levels, by names and by values only; `p1` taken when `p` needs a number
    b'<a xmlns="urn:o1" xmlns:p="urn:N1" p:x="1"><b xmlns:p1="urn:N2" p1:y="2"><c xmlns:p="urn:N3" p:z="p1:k"><d xmlns:p="urn:N4" '
    b'xmlns:q="urn:N1" q:w="p:v"><e xmlns="urn:o2" xmlns:p="urn:N5">p:t<!-- c --></e><f xmlns:p="urn:N6" k="p:v"><g xmlns="urn:o1" '
    b'xmlns:p="urn:N7" p:a="1" xmlns:q="urn:N8" q:a="2" xmlns:r="urn:N9" r:a="3"><h xmlns:p="urn:N1" xmlns:p2="urn:N7" p:x="p2:y">p:z</h>'
    b'</g></f></d></c></b></a>',
    # default namespace there and back, character data with prefixes at the leaves
    b'<a xmlns="urn:o1"><b xmlns="urn:o2"><c xmlns="urn:o1"><d xmlns="urn:o2" xmlns:x="urn:o1">x:v</d></c><c xmlns:x="urn:o2">x:v</c></b></a>',
]
# F300: an element in no namespace below an element with a default namespace (`xmlns=""`)
OPAQ_F300 = [
    b'<a xmlns="urn:o1"><b xmlns="">t</b></a>',
    b'<a xmlns="urn:o1"><b xmlns="" xmlns:p="urn:N1" p:k="1"><c/></b><d/></a>',
]
OPAQ_OUT_OF_FRAGMENT = [
    ("json", b'{"unk:x":{"y":1,"@y":{"rtx3:a":"1"}}}'),
    ("json", b'{"unk:x":[{"k":"a b"},{"k":null}]}'),
    ("xml", b'<top xmlns="urn:verif:rtx1"><s>v</s><zz xmlns="urn:o9" xmlns:p="urn:N1" p:a="1"/></top>'),
]


def model_opaq_print(cx, views, ri):
    """the Lean model of the opaque-node part of the XML printer (LyModel/XmlTree/Ns2.lean, Opaq.lean; the variant of xml_print_ns
    the translator found in the source) applied to the view libyang reports of its tree must give libyang's shrunk output byte
    for byte; the hypothesis `opaqOk` of the theorem `opaque_document_faithful` is evaluated (by the driver: the Lean definition
    itself) on every view; where it holds, the independent reader of the theorem applied to LIBYANG's bytes must report exactly
    what the theorem says (`oviewList` of the view)"""
    reqs, meta = [], []
    for i, (fmt, d) in views.items():
        r = ri.get(str(i), ["err", "NoReply"])
        if r[0] != "ok" or len(r) < 3:
            cx.count(None, False, "rtx:opaq-model:not parsed (%s)" % " ".join(r[:2]))
            continue
        meta.append((d, unhex(r[1]), r[2]))
        reqs.append("%d xmltree opaqcheck %s %s" % (len(reqs), r[2], r[1]))
    if not reqs:
        return
    rm = cx.run_model(reqs)
    nattr = nout = nhyp = nread = 0
    again = []
    for k, (d, px, view) in enumerate(meta):
        r = rm.get(str(k), ["err", "NoReply"])
        if r[:2] == ["err", "Unsupported"]:
            nout += 1
            cx.count(None, False, "rtx:opaq-model:out-of-fragment (data nodes or JSON-format opaque nodes in the view)")
            continue
        v = unhex(view)
        nattr += v.count(b"\nA ")
        numbered = 1 if re.search(rb"xmlns:[a-z]+[0-9]+=", px) else 0
        if r[0] != "ok" or len(r) < 7:
            cx.count(("opaqview", view), True, "rtx:opaq-model:%s" % " ".join(r[:2]))
            cx.disagree("rtx-opaq-model", reqs[k][:6000], ["ok", hexs(px)[:3000]], r[:3])
            continue
        hyp, why, same, read, loose, undecl = r[1:7]
        if hyp != "1" and loose == "1" and undecl == "1":
            hyp = "1"           # the source has the repair of F300: opaque_document_faithful_any_namespace applies
            why = "-"
        cx.count(("opaqview", view), True, "rtx:opaq-model:print=%s:numbered=%d" % ("same" if same == "1" else "DIFFERENT", numbered))
        cx.count(None, False, "rtx:opaq-theorem:opaqOk=%s%s:reader on libyang's bytes %s" % (
            hyp, "" if why == "-" else "(" + why + ")", {"1": "= oviewList", "0": "DIFFERENT", "x": "NOT WELL-FORMED"}.get(read, read)))
        if same != "1":
            again.append((k, px, view))
        if hyp == "1":
            nhyp += 1
            if read == "1":
                nread += 1
            elif same == "1":
                # the model prints what libyang prints, the hypothesis holds, the conclusion does not: the theorem would be wrong
                cx.disagree("rtx-opaq-theorem", reqs[k][:6000], ["ok", "reader(libyang) = oviewList"], r[:7])
        elif why == "no-namespace-under-default" and loose == "1" and same == "1" and read == "0" and b'xmlns=""' in d and b'xmlns=""' not in px:
            cx.fail("rtx", "an opaque element in no namespace below a default namespace is printed without xmlns=\"\": it is read in the namespace of its ancestor",
                    {"xml": d.decode("utf-8", "replace"), "xml_out": px.decode("utf-8", "replace")[:3000], "triage": "F300"})
    if again:
        rq = ["%d xmltree opaqprint %s" % (j, view) for j, (k, px, view) in enumerate(again)]
        r2 = cx.run_model(rq)
        for j, (k, px, view) in enumerate(again):
            r = r2.get(str(j), ["err", "NoReply"])
            cx.disagree("rtx-opaq-model", rq[j][:6000], ["ok", hexs(px)[:3000]], [r[0], (r[1] if len(r) > 1 else "")[:3000]])
    cx.rule("opaq-model: %d views of opaque forests (%d attribute lines) printed by the Lean model of xml_print_ns/xml_print_attr/"
            "xml_print_opaq = libyang's shrunk XML, byte for byte; %d more views are outside the model's fragment (data nodes, JSON-format "
            "opaque nodes) and only counted" % (len(meta) - nout, nattr, nout))
    cx.rule("opaq-theorem: the hypothesis opaqOk of opaque_document_faithful (opaqOkAnyNs where the source has the repair of F300; the Lean definitions, run by the driver) holds of %d of the "
            "%d views; for %d of these the independent reader XmlDoc.parseDoc applied to libyang's own bytes reports exactly oviewList "
            "of the view (the conclusion of the theorem, on the real output)" % (nhyp, len(meta) - nout, nread))


def run_opaq(cx):
    """what an XML document of opaque nodes says to a namespace-aware reader (expanded element names, expanded attribute names,
    attribute values, character data) must be what libyang's output of the parsed tree says - also when printed a second time"""
    rng = cx.sub_rng("opaq")
    n = cx.n(600, 8000)
    cx.rule("opaq: %d XML documents of opaque nodes (unknown namespaces, attributes in namespaces, prefixes re-bound and shared on the way "
            "down) parsed with LYD_PARSE_OPAQ and printed: expat's reading of the output = expat's reading of the input" % n)
    searchdir = paths.REPO + "/tests/modules/yang"
    lines = ["0 rt ctx %s %s %s %s" % (hexs(searchdir), hexs(YANG1), hexs(YANG2), hexs(YANG3))]
    docs = {}
    stats = []
    for i in range(n):
        d = gen_opaq(rng) if i % 2 == 0 else gen_opaq_deep(rng, stats)
        docs[len(lines)] = d
        lines.append("%d rt opaq %s" % (len(lines), hexs(d)))
    for st in stats:
        cx.count(None, False, "rtx:opaq-gen(deep):depth=%d" % st["depth"])
        cx.count(None, False, "rtx:opaq-gen(deep):prefixes re-bound=%s" % (st["rebind"] if st["rebind"] < 5 else "5+"))
        cx.count(None, False, "rtx:opaq-gen(deep):default namespace changes=%s" % (st["dflt_change"] if st["dflt_change"] < 5 else "5+"))
        cx.count(None, False, "rtx:opaq-gen(deep):most attribute namespaces on one element=%d" % st["attr_ns"])
        cx.count(None, False, "rtx:opaq-gen(deep):QName values=%s" % (st["qvals"] if st["qvals"] < 5 else "5+"))
        cx.count(None, False, "rtx:opaq-gen(deep):with-defaults attributes=%s" % (st["wd"] if st["wd"] < 3 else "3+"))
    # (K) the printer's view of the same documents, for the Lean model of xml_print_ns / xml_print_attr / xml_print_opaq (v2)
    views = {}
    for d in list(docs.values()) + OPAQ_HAND + OPAQ_F300:
        views[len(lines)] = ("xml", d)
        lines.append("%d rt opaqview xml %s" % (len(lines), hexs(d)))
    for d in OPAQ_OUT_OF_FRAGMENT:
        views[len(lines)] = d
        lines.append("%d rt opaqview %s %s" % (len(lines), d[0], hexs(d[1])))
    head, body = lines[0], lines[1:]
    chunked = []
    for i in range(0, len(body), 400):
        chunked.append(head if i == 0 else "c%d rt ctx %s" % (i, head.split(" ", 3)[3]))
        chunked += body[i:i + 400]
    ri = rtcomp.run_batched(cx, chunked, "rtx", per_batch=1)
    model_opaq_print(cx, views, ri)
    for i, d in docs.items():
        r = ri.get(str(i), ["err", "NoReply"])
        want = rtcomp.expat_structure(d, "auto")
        depth = max(x[0] for x in want) if want else 0
        cx.count(("opaq", d), True, "rtx:opaq:%s:depth%d" % (r[0] if r[0] == "ok" else " ".join(r[:2]), depth))
        if want is None:
            cx.fail("rtx", "generator: opaque document is not well-formed", {"xml": d.decode("utf-8", "replace")})
            continue
        if r[0] != "ok":
            cx.fail("rtx", "well-formed XML of unknown namespaces refused under LYD_PARSE_OPAQ", {"xml": d.decode("utf-8", "replace"), "reply": r[:2]})
            continue
        ws = [(dd, ns, ln, tx.strip() if True else tx, tuple(sorted(at.items()))) for dd, ns, ln, tx, at in want]
        for name, out in (("formatted", unhex(r[1])), ("shrunk", unhex(r[2])), ("printed again after re-parsing", unhex(r[3]))):
            got = rtcomp.expat_structure(out, "auto")
            gs = None if got is None else [(dd, ns, ln, tx.strip(), tuple(sorted(at.items()))) for dd, ns, ln, tx, at in got]
            if gs != ws:
                cx.fail("rtx", "XML output of opaque nodes (%s) read by a namespace-aware parser differs from the input (expanded element / attribute names, values or text)" % name,
                        {"xml": d.decode("utf-8", "replace"), "xml_out": out.decode("utf-8", "replace")[:3000],
                         "first_diff": rtcomp.first_diff(gs, ws) if gs is not None else "not well-formed"})
                break


# ---- data nodes WITH metadata and value prefixes, opaque children below data nodes: the model of xml_print_meta / xml_print_term ----
YANG4 = """module rtx4 { yang-version 1.1; namespace "urn:verif:rtx4"; prefix d; import rtx1 { prefix r1; } import rtx3 { prefix r3; }
  import ietf-yang-metadata { prefix md; }
  md:annotation who { type identityref { base r1:col; } }
  md:annotation path { type instance-identifier { require-instance false; } }
  md:annotation note { type string; }
  identity pink { base r1:col; }
  container box {
    leaf color { type identityref { base r1:col; } }
    leaf-list colors { type identityref { base r1:col; } }
    leaf ref { type instance-identifier { require-instance false; } }
    leaf dc { type identityref { base r1:col; } default "r1:red"; }
    leaf ds { type string; default "x"; }
    container in { leaf c2 { type identityref { base r1:col; } } leaf d2 { type identityref { base r1:col; } default "r3:green"; } }
  }
}
"""
NS4 = "urn:verif:rtx4"
X4_IDS = [(NS1, "red"), (NS1, "blue"), (NS2, "red"), (NS3, "green"), (NS3, "red"), (NS4, "pink")]
X4_PATHS = ["/%(d)s:box/%(d)s:in", "/%(d)s:box/%(d)s:colors[.='%(a)s:red']", "/%(a)s:top/%(a)s:l[%(a)s:k='x']/%(b)s:lv2", "/%(a)s:top/%(b)s:ac"]


def gen_box(rng):
    """an instance of rtx4:box: identityref leaves and leaf-lists with identities of four modules (two of which share the prefix
    `a`), instance-identifiers through three modules, defaults whose value needs a prefix; on any node annotations of three modules:
    strings, an int8, identityrefs, an instance-identifier - so that one start tag needs prefixes for the annotation names, for
    prefixes inside annotation values and for prefixes inside the element value; the prefixes of the INPUT are unrelated to the
    module prefixes libyang prints with"""
    IN = {NS1: "i1", NS2: "i2", NS3: "i3", NS4: "i4"}
    allns = "".join(' xmlns:%s="%s"' % (p, xesc(u.encode(), True).decode()) for u, p in IN.items())

    clash = rng.random() < 0.3       # most instances stay clear of F49 / F301: identities of rtx1 / rtx2 (both prefix `a`) are rare

    def ident():
        u, n = rng.choice(X4_IDS if clash else X4_IDS[3:])
        return "%s:%s" % (IN[u], n)

    def metas(pr):
        out, seen = [], set()
        for _ in range(rng.choice([1, 1, 2, 3]) if rng.random() < pr else 0):
            k = rng.choice(["hint", "num", "org", "tag", "who", "path", "note"] if clash else ["hint", "num", "who", "path", "note", "note"])
            if k in seen:
                continue
            seen.add(k)
            if k == "hint": out.append(' i1:hint="%s"' % xesc(rng.choice(STR), True).decode("utf-8", "replace"))
            elif k == "num": out.append(' i1:num="%d"' % rng.choice([-128, 0, 7, 127]))
            elif k == "org": out.append(' i1:org="%s"' % ident())
            elif k == "tag": out.append(' i2:tag="%s"' % rng.choice(["t", "a b", ""]))
            elif k == "who": out.append(' i4:who="%s"' % ident())
            elif k == "path": out.append(' i4:path="%s"' % (rng.choice(X4_PATHS) % {"d": "i4", "a": "i1", "b": "i2"}))
            else: out.append(' i4:note="%s"' % rng.choice(["n", "x:y", ""]))
        return "".join(out)
    k = []
    if rng.random() < 0.7: k.append("<color%s>%s</color>" % (metas(0.6), ident()))
    seen = []
    for _ in range(rng.randrange(0, 4)):
        v = ident()
        if v not in seen:
            seen.append(v)
            k.append("<colors%s>%s</colors>" % (metas(0.4), v))
    if rng.random() < 0.5: k.append("<ref%s>%s</ref>" % (metas(0.5), rng.choice(X4_PATHS) % {"d": "i4", "a": "i1", "b": "i2"}))
    if rng.random() < 0.4: k.append("<dc%s>%s</dc>" % (metas(0.5), rng.choice(["i1:red", ident()])))
    if rng.random() < 0.4: k.append("<ds%s>%s</ds>" % (metas(0.5), rng.choice(["x", "y"])))
    if rng.random() < 0.6:
        kk = []
        if rng.random() < 0.7: kk.append("<c2%s>%s</c2>" % (metas(0.6), ident()))
        if rng.random() < 0.4: kk.append("<d2%s>%s</d2>" % (metas(0.6), rng.choice(["i3:green", ident()])))
        k.append("<in%s>%s</in>" % (metas(0.5), "".join(kk)))
    return ('<box xmlns="%s"%s%s>%s</box>' % (NS4, allns, metas(0.5), "".join(k))).encode()


X4_HAND = [
    # F301: the module of the value's prefix is also the module of an annotation (or of an annotation value) of the element
    (0, b'<box xmlns="urn:verif:rtx4"><color xmlns:a="urn:verif:rtx1" a:hint="h">a:red</color></box>'),
    (0, b'<box xmlns="urn:verif:rtx4"><color xmlns:c="urn:verif:rtx3" xmlns:d="urn:verif:rtx4" d:who="c:green">c:red</color></box>'),
    # F49: two modules with one prefix in one start tag
    (0, b'<box xmlns="urn:verif:rtx4"><color xmlns:a="urn:verif:rtx1" xmlns:b="urn:verif:rtx2?a=1&amp;b=2" a:hint="h" b:tag="t">pink</color></box>'),
    (0, b'<box xmlns="urn:verif:rtx4" xmlns:d="urn:verif:rtx4" d:path="/d:box/d:in" xmlns:a="urn:verif:rtx1" a:org="a:blue"><in><c2 xmlns:b="urn:verif:rtx2?a=1&amp;b=2" d:who="b:red">pink</c2></in></box>'),
    # the same prefix for two modules at two levels: re-bound by REQUIRED calls, no defect
    (0, b'<box xmlns="urn:verif:rtx4" xmlns:a="urn:verif:rtx1" a:hint="h"><in xmlns:b="urn:verif:rtx2?a=1&amp;b=2" b:tag="t"><c2 a:num="5">pink</c2></in></box>'),
    (0, b'<box xmlns="urn:verif:rtx4"><ds>x</ds><in/></box>'),
    (2, b'<box xmlns="urn:verif:rtx4"><color>pink</color><in/></box>'),
    # opaque children below data nodes
    (1, b'<box xmlns="urn:verif:rtx4"><color>pink</color><zz xmlns:p="urn:N1" p:a="p:v"><y xmlns="urn:o2"/></zz></box>'),
    (1, b'<box xmlns="urn:verif:rtx4" xmlns:a="urn:verif:rtx1" a:hint="h"><in><zz xmlns="urn:o1" xmlns:a="urn:N2" a:k="a:v"><y a:k="1"/></zz><c2 xmlns:a="urn:verif:rtx1">a:red</c2></in></box>'),
]


def run_xmeta(cx):
    """the model of the data-node printer WITH metadata (LyModel/XmlTree/Data.lean: xml_print_node_open, xml_print_meta with the
    with-defaults attribute, xml_print_term with the modules of the value's prefixes, opaque children) against libyang, byte for
    byte, under each of the five with-defaults modes; the hypothesis dataOk of xml_document_faithful_meta evaluated on every view;
    where it holds the independent reader applied to libyang's bytes must report dviewList of the view"""
    rng = cx.sub_rng("xmeta")
    n = cx.n(120, 2500)
    searchdir = paths.REPO + "/tests/modules/yang"
    head = "0 rt ctx %s %s %s %s %s" % (hexs(searchdir), hexs(YANG1), hexs(YANG2), hexs(YANG3), hexs(YANG4))
    docs = []
    for i in range(n):
        r = rng.random()
        if r < 0.55:
            docs.append((0, gen_box(rng)))
        elif r < 0.85:
            docs.append((0, to_xml(gen_top(rng))))                   # the rtx family: metadata on every node kind
        elif r < 0.93:
            # metadata on the IMPLICIT default nodes (the harness attaches rtx1:hint to every default leaf through the API): the
            # first disjunct of the with-defaults condition of xml_print_meta on nodes that have metadata
            docs.append((2, gen_box(rng) if rng.random() < 0.7 else to_xml(gen_top(rng))))
        else:
            # an opaque subtree below a data node (LYD_PARSE_OPAQ): an element of an unknown namespace inside the container
            b = gen_box(rng)
            o = gen_opaq_deep(rng) if rng.random() < 0.5 else gen_opaq(rng)
            docs.append((1, b[:-len(b"</box>")] + o + b"</box>"))
    docs += X4_HAND
    lines = []
    for k, (opq, d) in enumerate(docs):
        if k % 100 == 0:
            lines.append(head if k == 0 else "c%d rt ctx %s" % (k, head.split(" ", 3)[3]))
        lines.append("%d rt xview xml %s %d" % (k + 1, hexs(d), opq))
    ri = rtcomp.run_batched(cx, lines, "rtx", per_batch=1)
    reqs, meta = [], []
    WDN = ["explicit", "trim", "all", "all-tag", "impl-tag"]
    for k, (opq, d) in enumerate(docs):
        r = ri.get(str(k + 1), ["err", "NoReply"])
        if r[0] != "ok" or len(r) < 11:
            cx.count(("xmeta", d), True, "rtx:xmeta:not parsed (%s)" % " ".join(r[:2]))
            if (opq, d) in X4_HAND or opq != 1:
                cx.fail("rtx", "generated instance with metadata rejected", {"xml": d.decode("utf-8", "replace"), "reply": r[:2]})
            continue
        for w in range(5):
            px, vw = r[1 + 2 * w], r[2 + 2 * w]
            meta.append((d, w, px, vw, opq))
            reqs.append("%d xmltree dcheck %s %s" % (len(reqs), vw, px))
    rm = cx.run_model(reqs) if reqs else {}
    nhyp = nread = nout = 0
    again = []
    for j, (d, w, px, vw, opq) in enumerate(meta):
        r = rm.get(str(j), ["err", "NoReply"])
        if r[:2] == ["err", "Unsupported"]:
            nout += 1
            cx.count(None, False, "rtx:xmeta-model:out-of-fragment (anydata / anyxml in the view)")
            continue
        if r[0] != "ok" or len(r) < 5:
            cx.count(("xmeta", vw), True, "rtx:xmeta-model:%s" % " ".join(r[:2]))
            cx.disagree("rtx-xmeta-model", reqs[j][:6000], ["ok", px[:3000]], r[:3])
            continue
        hyp, why, same, read = r[1:5]
        v = unhex(vw)
        feats = "%s%s%s%s" % ("M" if b"\nM " in b"\n" + v else "-", "V" if re.search(rb"^[TM] .* [1-9] [0-9a-f]+ [0-9a-f]+$", v, re.M) else "-",
                              "W" if re.search(rb"^T \d+ \S+ \S+ [0-9a-f]", v, re.M) else "-", "O" if b"\nN " in b"\n" + v else "-")
        cx.count(("xmeta", vw), True, "rtx:xmeta-model:wd=%s:print=%s:features(Meta,Valueprefix,Wdattr,Opaque)=%s" % (WDN[w], "same" if same == "1" else "DIFFERENT", feats))
        cx.count(None, False, "rtx:xmeta-theorem:dataOk=%s%s:reader on libyang's bytes %s" % (
            hyp, "" if why == "-" else "(" + why + ")", {"1": "= dviewList", "0": "DIFFERENT", "x": "NOT WELL-FORMED"}.get(read, read)))
        if same != "1":
            again.append((j, px, vw))
        if hyp == "1":
            nhyp += 1
            if read == "1":
                nread += 1
            elif same == "1":
                cx.disagree("rtx-xmeta-theorem", reqs[j][:6000], ["ok", "reader(libyang) = dviewList"], r[:5])
        elif same == "1" and read != "1":
            base = {"xml": d.decode("utf-8", "replace")[:3000], "wd": WDN[w], "xml_out": unhex(px).decode("utf-8", "replace")[:3000]}
            if "F301" in why and "F49" not in why:
                cx.fail("rtx", "XML output is not well-formed: the prefix of the module inside the element value is declared twice in the start tag", dict(base, triage="F301"))
            elif "F49" in why:
                cx.fail("rtx", "XML output: one prefix for two namespaces in one start tag", dict(base, triage="F49"))
            else:
                cx.fail("rtx", "XML output of a tree with metadata is not read back (hypothesis %s)" % why, base)
    if again:
        rq = ["%d xmltree dprint %s" % (i, vw) for i, (j, px, vw) in enumerate(again)]
        r2 = cx.run_model(rq)
        for i, (j, px, vw) in enumerate(again):
            r = r2.get(str(i), ["err", "NoReply"])
            cx.disagree("rtx-xmeta-model", rq[i][:6000], ["ok", px[:3000]], [r[0], (r[1] if len(r) > 1 else "")[:3000]])
    cx.rule("xmeta: %d instances (rtx4: identityref / instance-identifier values and annotations of modules sharing prefixes; the rtx family; "
            "opaque subtrees below data nodes) x 5 with-defaults modes = %d views printed by the Lean model of xml_print_node_open / xml_print_meta / "
            "xml_print_term / xml_print_opaq = libyang's shrunk XML, byte for byte (%d more views outside the fragment: anydata)" % (len(docs), len(meta) - nout, nout))
    cx.rule("xmeta-theorem: the hypothesis dataOk of xml_document_faithful_meta (the Lean definition for the variant of the source, run by the "
            "driver) holds of %d of the %d views; for %d of these the independent reader applied to libyang's own bytes reports exactly dviewList" % (nhyp, len(meta) - nout, nread))


def xml_struct(doc):
    st = rtcomp.expat_structure(doc, QNAME_ATTRS)
    if st is None:
        return None
    res = []
    for i, (d, ns, ln, text, attrs) in enumerate(st):
        leafish = not (i + 1 < len(st) and st[i + 1][0] == d + 1)
        a = sorted((k.replace("\x01", "|"), v) for k, v in attrs.items())
        res.append((d, ns, ln, text if leafish else "", tuple(a)))
    return res


def classify(component, what, case):
    return case.get("triage")


def dl_default_explicit(doc, fmt):
    d = doc.decode("utf-8", "replace")
    return (">x</dl>" in d or ">y</dl>" in d) if fmt == "xml" else ('"dl": [' in d and ('"x"' in d or '"y"' in d))


def f17_cells_only(matrix):
    """cell order: 3 formats x (explicit, trim, all, all-tag, impl-tag) x shrink(2; lyb 1): only trim and all-tag cells may differ"""
    k = 0
    for fo in range(3):
        for wd in range(5):
            for sh in range(1 if fo == 2 else 2):
                if matrix[k] not in "=-" and (wd not in (1, 3) or matrix[k] != "!"):
                    return False        # F17 loses an instance (cell '!'); a rejected own output ('R') is something else
                k += 1
    return True


# decimal64 with fraction-digits 2 as the stored integer: zero integer part with every fraction shape and sign, boundaries
DEC64_INTS = [0, 1, -1, 5, -5, 9, -9, 10, -10, 50, -50, 99, -99, 100, -100, 101, -101, 105, -105, 150, -150, 314, -314, 1000, -1000,
              12345, -12345, 9223372036854775807, -9223372036854775808, 9223372036854775800, -9223372036854775800]


def dec64_canon(n, fd):
    """RFC 7950 sec. 9.3.2 canonical form: at least one digit on both sides of the point, no other leading / trailing zeros"""
    neg, a = n < 0, abs(n)
    ip, fp = divmod(a, 10 ** fd)
    f = ("%0*d" % (fd, fp)).rstrip("0") or "0"
    return ("%s%d.%s" % ("-" if neg else "", ip, f)).encode()


def run_rtx(cx, laws=("roundtrip", "independent")):
    rng = cx.sub_rng("rtx")
    searchdir = paths.REPO + "/tests/modules/yang"
    n = cx.n(250, 6000)
    cx.rule("rtx: %d generated instances over a fixed two-module schema (metadata on every node kind, anydata/anyxml, augmenting module, "
            "64-bit/decimal64/bits/binary/union/empty, user-ordered leaf-list) + %d RPC/action/notification trees; non-trivial = distinct instance" % (n, n // 2))
    lines = ["0 rt ctx %s %s %s %s" % (hexs(searchdir), hexs(YANG1), hexs(YANG2), hexs(YANG3))]
    meta = {}
    for i in range(n):
        t = gen_top(rng)
        x, j = to_xml(t), json.dumps(to_json(t), ensure_ascii=False).encode("utf-8")
        xe, je = to_xml(t, implicit=True), json.dumps(to_json(t, implicit=True), ensure_ascii=False).encode("utf-8")
        for fmt, doc in (("xml", x), ("json", j)):
            lines.append("%d rt rt %s %s" % (len(lines), fmt, hexs(doc)))
            meta[len(lines) - 1] = ("rt", fmt, doc, x, j, xe, je)
        lines.append("%d rt cross %s %s" % (len(lines), hexs(x), hexs(j)))
        meta[len(lines) - 1] = ("cross", None, None, x, j)
        if i % 25 == 24:
            lines.append("%d rt leakcheck" % len(lines))
            meta[len(lines) - 1] = ("leak", None, None, x, j)
    for i in range(n // 2):
        ty, t = gen_op(rng)
        x, j = to_xml(t), json.dumps(to_json(t), ensure_ascii=False).encode("utf-8")
        for fmt, doc in (("xml", x), ("json", j)):
            lines.append("%d rt rtop %s %s %s" % (len(lines), ty, fmt, hexs(doc)))
            meta[len(lines) - 1] = ("rtop", fmt, doc, x, j)
    # witness of F49: annotations of two modules that share a prefix on one element
    w = [N("rtx1", "top", "cont", kids=[N("rtx1", "s", "leaf", b"v", meta=[("hint", b"h"), ("tag", b"t")])])]
    lines.append("%d rt rt json %s" % (len(lines), hexs(json.dumps(to_json(w)).encode())))
    meta[len(lines) - 1] = ("f49", "json", None, to_xml(w), json.dumps(to_json(w)).encode())
    # one ctx line serves all: replicate it per chunk so that the stream can be dealt to several processes
    head, body = lines[0], lines[1:]
    chunked = []
    for i in range(0, len(body), 400):
        chunked.append(head if i == 0 else "c%d rt ctx %s" % (i, head.split(" ", 3)[3]))
        chunked += body[i:i + 400]
    ri = rtcomp.run_batched(cx, chunked, "rtx", per_batch=1)
    xmlitems = []
    if ri.get("0", ["err"])[0] != "ok":
        cx.fail("rtx", "fixed schema rejected", {"reply": ri.get("0")})
        return
    for i in range(1, len(lines)):
        kind, fmt, doc, x, j = meta[i][:5]
        xe, je = (meta[i][5], meta[i][6]) if len(meta[i]) > 5 else (x, j)
        r = ri.get(str(i), ["err", "NoReply"])
        base = {"xml": x.decode("utf-8", "replace")[:3000], "json": j.decode("utf-8", "replace")[:3000], "reply": r[:2]}
        if kind == "f49":
            if r[0] == "ok" and rtcomp.expat_structure(unhex(r[2])) is None and unhex(r[2]).count(b"xmlns:a=") >= 2:
                cx.fail("rtx", "XML output is not well-formed (two xmlns:a declarations on one element)", dict(base, xml_out=unhex(r[2]).decode(), triage="F49"))
            continue
        if kind == "leak":
            if r != ["ok", "0"]:
                cx.fail("rtx", "memory leaked (LeakSanitizer) in the preceding 25 instances", base)
            continue
        if kind == "cross":
            cx.count(("x", x), True, "rtx:cross:" + " ".join(r[:2]))
            if "roundtrip" in laws and r != ["ok", "1"]:
                cx.fail("rtx", "the same instance encoded independently in XML and in JSON does not parse to equal trees", base)
            continue
        cx.count((kind, fmt, doc), True, "rtx:%s-%s:%s" % (kind, fmt, r[0] if r[0] == "ok" else " ".join(r[:2])))
        if r[0] != "ok":
            cx.fail("rtx", "valid %s instance rejected by the %s parser" % (kind, fmt), dict(base, doc=doc.decode("utf-8", "replace")[:3000]))
            continue
        matrix, px, pj = r[1], unhex(r[2]), unhex(r[3])
        if kind == "rt" and fmt == "xml" and len(r) > 4:
            xmlitems.append((unhex(r[4]), px))
        if "roundtrip" in laws:
            bad = [c for c in matrix if c not in "=-"]
            if bad and kind == "rt" and dl_default_explicit(doc, fmt) and f17_cells_only(matrix):
                cx.fail("rtx", "trim / report-all-tagged lose an explicit leaf-list instance that equals one of several defaults",
                        dict(base, matrix=matrix, triage="F17"))
            elif bad:
                cx.fail("rtx", "print -> parse does not give back the %s tree (matrix %s)" % (kind, matrix), dict(base, doc=doc.decode("utf-8", "replace")[:3000], matrix=matrix))
        if "independent" in laws and fmt == "xml":
            try:
                got = json.loads(pj.decode("utf-8")) if pj.strip() else {}
                okj = True
            except Exception:
                okj, got = False, None
            exp = json.loads(je.decode("utf-8"))
            if kind == "rtop":
                pass
            if not okj:
                cx.fail("rtx", "JSON output is not valid RFC 8259", dict(base, json_out=pj.decode("utf-8", "replace")[:3000]))
            elif norm_json(got) != norm_json(exp):
                cx.fail("rtx", "JSON output read by an independent parser differs from the independent RFC 7951/7952 encoding of the same instance",
                        dict(base, json_out=pj.decode("utf-8", "replace")[:3000]))
            a, b = xml_struct(px), xml_struct(xe)
            if a is None:
                cx.fail("rtx", "XML output is not well-formed", dict(base, xml_out=px.decode("utf-8", "replace")[:3000]))
            elif a != b:
                cx.fail("rtx", "XML output read by an independent parser differs from the independent XML encoding of the same instance (elements, namespaces, attributes or character data)",
                        dict(base, xml_out=px.decode("utf-8", "replace")[:3000], first_diff=rtcomp.first_diff(a, b)))
    # the tree-level XML model carries values as bytes; a value whose XML form needs namespace prefixes of its own (the
    # identityref-typed annotation) is outside its fragment (the expat comparison above resolves those prefixes instead)
    infrag = [(v, px) for v, px in xmlitems if b",org," not in v]
    for _ in range(len(xmlitems) - len(infrag)):
        cx.count(None, False, "rtx:xmltree-model:out-of-fragment (prefixed metadata value)")
    rtcomp.model_xml_print(cx, infrag, "rtx")
    rtcomp.model_json_print(cx, [(0, "xml", m[3]) for m in meta.values() if m[0] == "rt" and m[1] == "xml"],
                            [head.split(" ", 3)[3]], "rtx")
    rtcomp.spec_xmldoc_vs_expat(cx, [px for _, px in xmlitems] + [m[3] for m in meta.values() if m[0] == "rt" and m[1] == "xml"], "rtx")
    cx.sample(lines[1][:300])
