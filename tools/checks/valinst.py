"""instance-identifier: correspondence of lean/LyModel/Val/InstId.lean (which reuses the path lexer / parser / compiler of component
`Path`, lean/LyModel/Path/{Token,Parse,Eval}.lean) with src/plugins_types/instanceid.c + src/path.c (component `val`), and the laws
of the value on the implementation's replies.

`run_inst(run)` is called from valcomp.run_val with the `Run` object of valcomp (run.diff(cases) = same lines to the harness and to the
model, replies must be equal).

Type descriptor  instid:<schema-ser>:<yang-hex>[,<yang-hex>]   (harness/api_types.c `instid_load`): the YANG modules are generated here
from a structured schema (module `iim<k>` with the data nodes and `container c { leaf-list l; leaf s }` of type instance-identifier,
`require-instance false`; module `iix<k>` with top-level nodes of its own and augments into `iim<k>`); <schema-ser> is the schema
serialisation of the `path` protocol computed here from the same structure; the harness refuses the descriptor (`err Schema`) unless it
equals the serialisation of the lysc_node trees it compiled, so the model works on what libyang built.

Schemas: containers, lists with 1-2 keys (config / state), key-less lists, leaf-lists (config / state), leaves, nesting up to depth 3,
nodes of the second module as top-level nodes and as augmented children (also with the local name of a sibling of the first module).
All keys and leaf-lists have type string (scope of the model).

Values (paths), per schema:
  valid      random walks from a top-level node, every list / leaf-list step with a predicate of the right kind: keys in schema order or
             shuffled, values with ' or " or neither, number tokens as values, positions on state lists / leaf-lists (leading zeros, big),
             blanks around every token inside predicates, the prefix exactly where the module changes
  prefixes   redundant prefix on a later node / on every node, missing first prefix, prefix of the other module, unknown module,
             prefix on a key name
  preds      missing predicate (inner / last step), predicate of the wrong kind, missing / duplicated / unknown key, position 0,
             position on a configuration list, `.` on a list, key predicate on a leaf-list, variable reference as a key value
  damage     trailing garbage, one byte deleted / replaced / inserted, relative path, empty value, `//`, trailing `/`
  bytes      multi-byte UTF-8 and malformed UTF-8 / control characters inside literals
Laws on the implementation:
  inst_canonical_prefixes   the canonical string of an accepted value has a prefix on the first node and exactly on the nodes whose
                            module differs from the previous node's (recomputed here from the schema structure)
  + the generic laws of valcomp.laws_value (equality = canonical equality, sort consistent, leaf-list order, canonical idempotent,
    value -> LYB -> value, dup, tree LYB round trip)
"""
import re
from vlib.proto import hexs, unhex

NAMES = ["a", "b", "cc", "lst", "ll", "x-y", "n.m", "_u", "k9", "or", "and", "div", "mod", "node", "text", "d"]
KEYS = ["k", "k2", "kk", "id", "name"]
VALUES = [b"v", b"", b"a b", b"it's", b'say "x"', b"1", b"007", b"x/y", b"[", b"]", b"a]b", b"a='b'", b'a="b"', b" lead", b"trail ", "é".encode(), "€x".encode(),
          b"p:q", b"$v", b"..", b"*", b"a\tb", b"0.50", b"-"]
BAD_VALUES = [b"\x80", b"\xc0\x80", b"\xed\xa0\x80", b"\xf4\x90\x80\x80", b"a\x01b", b"\xff", b"\xc2", b"\xef\xbf\xbe"]
HINTS = (0x03F3, 0x03FF, 0x0011, 0x0002, 0x0020, 0, 1, 2, 4, 8, 16, 32, 64, 20)


# ------------------------------------------------------------------------------------------------ schema structure
class N:
    """schema node: module, name, kind (i L l k F f K e), config-false flag (own statement), children"""
    def __init__(self, mod, name, kind, children=None, cfalse=False, ty=None):
        self.mod, self.name, self.kind, self.children, self.cfalse = mod, name, kind, children or [], cfalse
        self.ty = ty if ty is not None else ("str" if kind in "KeFf" else None)

    def keys(self):
        out = []
        for c in self.children:
            if c.kind != "K":
                break
            out.append(c)
        return out


def ser(nodes):
    return "".join("(%s,%s,%s,%s,%s)" % (hexs(n.mod.encode()), hexs(n.name.encode()), n.kind, hexs(n.ty.encode()) if n.ty else "-", ser(n.children)) for n in nodes)


ENUMS = [[("up", 1), ("down", 2), ("a b", -3)], [("x", 0), ("it's", 5), ("y", 7)], [("true", 0), ("7", 1), ("+7", 2)]]
INT_YANG = {"i8": "int8", "i16": "int16", "i32": "int32", "i64": "int64", "u8": "uint8", "u16": "uint16", "u32": "uint32", "u64": "uint64"}


def rand_type(rng):
    r = rng.random()
    if r < 0.45:
        return "str"
    if r < 0.75:
        t = rng.choice(list(INT_YANG))
        if rng.random() < 0.4:
            lo = rng.choice([0, 1, 5]) if t[0] == "u" else rng.choice([-100, -5, 0, 1])
            hi = lo + rng.choice([0, 5, 100])
            if rng.random() < 0.3:
                return "%s:%d..%d,%d..%d" % (t, lo, hi, hi + 10, hi + 20)
            return "%s:%d..%d" % (t, lo, hi)
        return t
    if r < 0.85:
        return "bool"
    return "enum:" + ",".join("%s=%d" % (hexs(n.encode()), v) for n, v in rng.choice(ENUMS))


def yang_type(ty):
    head, _, spec = ty.partition(":")
    if head in INT_YANG:
        if spec:
            return "type %s { range \"%s\"; }" % (INT_YANG[head], " | ".join(spec.split(",")))
        return "type %s;" % INT_YANG[head]
    if head == "bool":
        return "type boolean;"
    if head == "enum":
        return "type enumeration {%s }" % "".join(" enum \"%s\" { value %s; }" % (unhex(h).decode(), v) for h, v in (it.split("=") for it in spec.split(",")))
    return "type string;"


def gen_children(rng, mod, depth, state, used):
    """children of a container / list; `state` = inside config false"""
    out = []
    names = [n for n in NAMES if n not in used]
    rng.shuffle(names)
    for name in names[:rng.randint(1, 3 if depth else 4)]:
        out.append(gen_node(rng, mod, name, depth, state))
    return out


def gen_node(rng, mod, name, depth, state):
    r = rng.random()
    if depth >= 3 or r < 0.2:
        k = rng.choice(["e", "e", "F" if not state else "f", "f"])
        return N(mod, name, k, [], cfalse=(k == "f" and not state), ty=rand_type(rng))
    if r < 0.45:
        cf = (not state) and rng.random() < 0.2
        return N(mod, name, "i", gen_children(rng, mod, depth + 1, state or cf, set()), cfalse=cf)
    if r < 0.85:
        cf = (not state) and rng.random() < 0.3
        keys = rng.sample(KEYS, rng.choice([1, 1, 2, 2, 3]))
        ch = [N(mod, k, "K", ty=rand_type(rng)) for k in keys] + gen_children(rng, mod, depth + 1, state or cf, set(keys))
        return N(mod, name, "l" if (state or cf) else "L", ch, cfalse=cf)
    return N(mod, name, "k", gen_children(rng, mod, depth + 1, True, set()), cfalse=not state)


def yang_of(n, mod, state):
    """statement of node n (own module `mod`); children of other modules are left to the augments"""
    cf = " config false;" if n.cfalse else ""
    st = state or n.cfalse
    kids = "".join(yang_of(c, mod, st) for c in n.children if c.mod == mod)
    if n.kind == "i":
        return " container %s {%s%s }" % (n.name, cf, kids)
    if n.kind in "Ll":
        return " list %s { key \"%s\";%s%s }" % (n.name, " ".join(k.name for k in n.keys()), cf, kids)
    if n.kind == "k":
        return " list %s {%s%s }" % (n.name, cf, kids)
    if n.kind in "Ff":
        return " leaf-list %s { %s%s }" % (n.name, yang_type(n.ty), cf)
    return " leaf %s { %s }" % (n.name, yang_type(n.ty))


class Schema:
    def __init__(self, rng, k):
        self.main, self.aug = "iim%d" % k, "iix%d" % k
        m, a = self.main, self.aug
        top = []
        names = NAMES[:]
        rng.shuffle(names)
        for name in names[:rng.randint(2, 4)]:
            top.append(gen_node(rng, m, name, 0, False))
        if not any(n.kind in "Ll" for n in top):
            top.append(N(m, "lst0", "L", [N(m, "k", "K"), N(m, "k2", "K", ty="i8"), N(m, "v", "e"), N(m, "in", "i", [N(m, "f", "F", ty="u16:1..10")])]))
        if not any(n.kind == "k" for n in top):
            top.append(N(m, "st0", "k", [N(m, "v", "e"), N(m, "sl", "l", [N(m, "id", "K"), N(m, "w", "f")])], cfalse=True))
        top.append(N(m, "c", "i", [N(m, "l", "F", ty="inst"), N(m, "s", "e", ty="inst")]))
        # augments: containers / lists of the first module (chain wholly in the first module) get children of the second module
        self.augments = []
        def walk(nodes, path, state):
            for n in nodes:
                if n.name == "c" and not path:
                    continue
                st = state or n.cfalse
                if n.kind in "iLlk" and rng.random() < 0.45:
                    used = set() if rng.random() < 0.5 else {c.name for c in n.children}
                    new = gen_children(rng, a, 2, st, used)[:2]
                    self.augments.append((path + [n.name], new))
                    kids = n.children[:]
                    n.children = n.children + new
                    walk(kids, path + [n.name], st)
                elif n.kind in "iLlk":
                    walk(n.children, path + [n.name], st)
        walk(top, [], False)
        atop = []
        names = NAMES[:]
        rng.shuffle(names)
        for name in names[:rng.randint(1, 2)]:
            atop.append(gen_node(rng, a, name, 1, False))
        if top[0].name not in [n.name for n in atop]:
            atop.append(N(a, top[0].name, "e"))        # same local name as a top-level node of the first module
        self.top, self.atop = top, atop
        self.all_top = top + atop
        y1 = "module %s { yang-version 1.1; namespace \"urn:%s\"; prefix p1;%s }" % (
            m, m, "".join(yang_of(n, m, False) for n in top if n.name != "c") +
            " container c { leaf-list l { type instance-identifier { require-instance false; } } leaf s { type instance-identifier { require-instance false; } } }")
        augs = "".join(" augment \"/%s\" {%s }" % ("/".join("m:" + s for s in path), "".join(yang_of(c, a, None) for c in new)) for path, new in self.augments)
        y2 = "module %s { yang-version 1.1; namespace \"urn:%s\"; prefix p2; import %s { prefix m; }%s%s }" % (
            a, a, m, "".join(yang_of(n, a, False) for n in atop), augs)
        self.yangs = [y1, y2]
        self.desc = "instid:%s:%s" % (ser(self.all_top), ",".join(hexs(y.encode()) for y in self.yangs))


# ------------------------------------------------------------------------------------------------ paths
def quote(rng, v, wrong=False):
    if b"'" in v and b'"' in v:
        return b"'" + v + b"'"       # cannot be written; lexes differently
    if b"'" in v:
        q = b'"'
    elif b'"' in v:
        q = b"'"
    else:
        q = rng.choice([b"'", b'"'])
    if wrong:
        q = b"'" if q == b'"' else b'"'
    return q + v + q


def ws(rng, p):
    return rng.choice([b" ", b"  ", b"\t", b"\n", b" \r\n"]) if rng.random() < p else b""


def value(rng):
    r = rng.random()
    if r < 0.8:
        return rng.choice(VALUES)
    if r < 0.9:
        return bytes(rng.choice(b"abcXYZ019 _-.:/'\"[]=$") for _ in range(rng.randint(0, 6)))
    return rng.choice(BAD_VALUES)


INT_VALUES = [b"7", b"+7", b"007", b" 7 ", b"7 ", b"\n7", b"-0", b"0", b"-1", b"1", b"5", b"10", b"100", b"127", b"128", b"-128", b"-129", b"255", b"256", b"65535", b"65536",
              b"4294967295", b"4294967296", b"9223372036854775807", b"9223372036854775808", b"-9223372036854775808", b"18446744073709551615", b"18446744073709551616",
              b"0x10", b"1.0", b"1e1", b"", b" ", b"+", b"-", b"7a", b"+-7", b"--7", b"0007", b"+0", b"1 2"]
BOOL_VALUES = [b"true", b"false", b"TRUE", b" true", b"true ", b"1", b"0", b"", b"tru", b"falsee"]


def value_for(rng, ty):
    head, _, spec = (ty or "str").partition(":")
    if head in INT_YANG:
        return rng.choice(INT_VALUES) if rng.random() < 0.9 else str(rng.randint(-300, 300)).encode()
    if head == "bool":
        return rng.choice(BOOL_VALUES)
    if head == "enum":
        names = [unhex(it.split("=")[0]) for it in spec.split(",")]
        return rng.choice(names) if rng.random() < 0.75 else rng.choice([b"", b"nope", names[0] + b" ", b" " + names[0], names[0].upper(), b"1"])
    return value(rng)


class Mut:
    """what a generated path deviates in (None = intended valid)"""
    def __init__(self, rng, p):
        self.kind = None
        if rng.random() < p:
            self.kind = rng.choice(["redundant1", "redundantall", "nofirst", "othermod", "unkmod", "keyprefix", "nopred", "wrongpred", "misskey", "dupkey",
                                    "unkkey", "pos0", "poscfg", "var", "garbage", "relative", "dslash", "trailslash", "bytedel", "byterepl", "byteins",
                                    "unknode", "nopredinner", "wsname"])
        self.done = False


def pred_of(rng, sch, n, mut, wsp):
    """predicate text for a step at node n"""
    def w():
        return ws(rng, wsp)
    if n.kind in "Ll":
        keys = n.keys()
        if rng.random() < 0.4:
            keys = keys[:]
            rng.shuffle(keys)
        if mut.kind == "misskey" and not mut.done and len(keys) > 1:
            keys = keys[:-1]; mut.done = True
        if mut.kind == "dupkey" and not mut.done:
            keys = keys + [keys[0]]; mut.done = True
        out = b""
        for i, k in enumerate(keys):
            v = value_for(rng, k.ty)
            name = k.name.encode()
            if mut.kind == "keyprefix" and not mut.done:
                name = rng.choice([n.mod, sch.aug]).encode() + b":" + name; mut.done = True
            if mut.kind == "unkkey" and not mut.done:
                name = rng.choice([b"nokey", name + b"x", b"v"]); mut.done = True
            if mut.kind == "var" and not mut.done:
                rhs = b"$" + rng.choice([b"v", b"x1", b"p:q"]); mut.done = True
            elif re.fullmatch(rb"[0-9]+(\.[0-9]*)?|\.[0-9]+", v) and rng.random() < 0.6:
                rhs = v
            else:
                rhs = quote(rng, v)
            out += b"[" + w() + name + w() + b"=" + w() + rhs + w() + b"]"
        if mut.kind == "wrongpred" and not mut.done:
            mut.done = True
            return rng.choice([b"[.='v']", b"[1]", b"[k]", b"[k='v' or k='w']", b"['v']", b"[=]", b"[]"])
        if n.kind == "l" and rng.random() < 0.15:
            return pos_of(rng, mut, w)
        if mut.kind == "poscfg" and n.kind == "L" and not mut.done:
            mut.done = True
            return b"[1]"
        return out
    if n.kind == "k":
        if mut.kind == "wrongpred" and not mut.done:
            mut.done = True
            return rng.choice([b"[.='v']", b"[k='v']", b"[1.5.2]"])
        return pos_of(rng, mut, w)
    if n.kind in "Ff":
        if mut.kind == "wrongpred" and not mut.done:
            mut.done = True
            return rng.choice([b"[k='v']", b"[.='v'][.='w']", b"[.=$v]", b"[.]", b"[.='v'][1]"])
        if mut.kind == "poscfg" and n.kind == "F" and not mut.done:
            mut.done = True
            return b"[2]"
        if n.kind == "f" and rng.random() < 0.3:
            return pos_of(rng, mut, w)
        v = value_for(rng, n.ty)
        rhs = v if (re.fullmatch(rb"[0-9]+(\.[0-9]*)?|\.[0-9]+", v) and rng.random() < 0.5) else quote(rng, v)
        return b"[" + w() + b"." + w() + b"=" + w() + rhs + w() + b"]"
    if mut.kind == "wrongpred" and not mut.done:
        mut.done = True
        return rng.choice([b"[1]", b"[.='v']", b"[k='v']"])
    return b""


def pos_of(rng, mut, w):
    if mut.kind == "pos0" and not mut.done:
        mut.done = True
        return rng.choice([b"[0]", b"[00]", b"[0.9]", b"[4294967296]", b"[.5]"])
    p = rng.choice([b"1", b"2", b"10", b"007", b"4294967295", b"4294967297", b"18446744073709551615", b"18446744073709551616", b"99999999999999999999999",
                    b"3.7", b"1.", b"9223372036854775807", b"9223372036854775808"])
    return b"[" + w() + p + w() + b"]"


def gen_path(rng, sch, mut_p):
    mut = Mut(rng, mut_p)
    wsp = rng.choice([0.0, 0.0, 0.0, 0.3])
    nodes, sibs = [], sch.all_top
    depth = rng.randint(1, 5)
    while len(nodes) < depth:
        cand = [n for n in sibs if not (n.name == "l" and nodes and nodes[-1].name == "c" and nodes[-1].mod == sch.main and len(nodes) == 1)]
        if not cand:
            break
        n = rng.choice(cand)
        nodes.append(n)
        if n.kind not in "iLlk" or not n.children:
            break
        sibs = n.children
    out = b""
    prevmod = None
    npred_i = rng.randrange(len(nodes)) if mut.kind in ("nopred", "nopredinner") else -1
    for i, n in enumerate(nodes):
        name = n.name.encode()
        pfx = n.mod.encode() if n.mod != prevmod else None
        if mut.kind == "redundantall":
            pfx = n.mod.encode()
        elif mut.kind == "redundant1" and not mut.done and i > 0 and pfx is None:
            pfx = n.mod.encode(); mut.done = True
        elif mut.kind == "nofirst" and i == 0:
            pfx = None
        elif mut.kind == "othermod" and not mut.done and rng.random() < 0.5:
            pfx = (sch.aug if n.mod == sch.main else sch.main).encode(); mut.done = True
        elif mut.kind == "unkmod" and not mut.done and rng.random() < 0.5:
            pfx = rng.choice([b"nomod", b"ietf-yang-types", b"iim", b"p1", b"m"]); mut.done = True
        if mut.kind == "unknode" and not mut.done and rng.random() < 0.4:
            name = rng.choice([name + b"x", b"zz", b"*", name[:-1] or b"q"]); mut.done = True
        sep = b"//" if (mut.kind == "dslash" and i == len(nodes) - 1) else b"/"
        if mut.kind == "relative" and i == 0:
            sep = rng.choice([b"", b"./", b"../"])
        step = sep + (pfx + b":" if pfx is not None else b"") + name
        if mut.kind == "wsname" and not mut.done and rng.random() < 0.5:
            mut.done = True
            step = rng.choice([sep + b" " + step[len(sep):], step + b" ", step.replace(b":", b" :", 1), step.replace(b":", b": ", 1)])
        last = i == len(nodes) - 1
        if i == npred_i and n.kind in "LlkFf" and (mut.kind == "nopred" or not last):
            pr = b""
        else:
            pr = pred_of(rng, sch, n, mut, wsp)
        out += step + pr
        prevmod = n.mod
    if mut.kind == "garbage":
        out += rng.choice([b" x", b"]", b"[", b"/", b" ", b"'", b"()", b" or /a:b", b"\x00", b"|/a:b", b"=1"])
    elif mut.kind == "trailslash":
        out += b"/"
    elif mut.kind in ("bytedel", "byterepl", "byteins") and out:
        j = rng.randrange(len(out))
        c = bytes([rng.choice(b"/:[]='\" .$*a1")])
        out = out[:j] + (b"" if mut.kind == "bytedel" else c) + out[j + (0 if mut.kind == "byteins" else 1):]
    out = out.replace(b"\x00", b"")
    return out, mut.kind


def expect_prefixes(sch, canon):
    """does the canonical string carry a prefix on the first node and exactly on the nodes whose module differs from the previous node's?
    (walks the schema structure with the names of the canonical string; predicates are cut out quote-aware)"""
    i, n, steps = 0, len(canon), []
    cur = b""
    while i < n:
        ch = canon[i:i + 1]
        if ch == b"[":
            j, q = i + 1, None
            while j < n and (q or canon[j:j + 1] != b"]"):
                c2 = canon[j:j + 1]
                if q:
                    q = None if c2 == q else q
                elif c2 in (b"'", b'"'):
                    q = c2
                j += 1
            i = j + 1
        elif ch == b"/":
            if cur:
                steps.append(cur)
            cur = b""; i += 1
        else:
            cur += ch; i += 1
    if cur:
        steps.append(cur)
    sibs, prevmod = sch.all_top, None
    for st in steps:
        pfx, _, local = st.rpartition(b":") if b":" in st else (None, None, st)
        mod = pfx.decode() if pfx is not None else prevmod
        node = next((x for x in sibs if x.mod == mod and x.name.encode() == local), None)
        if node is None:
            return False
        if (pfx is not None) != (node.mod != prevmod):
            return False
        prevmod, sibs = node.mod, node.children
    return bool(steps)


# ------------------------------------------------------------------------------------------------ the check
def run_inst(run):
    from checks import valcomp
    cx = run.cx
    rng = cx.sub_rng("instid")
    nsch = cx.n(4, 12)
    per = cx.n(420, 2500)
    total = n_acc = n_pairs = 0
    accepted, pairs = {}, {}
    verdicts = {}
    base_k = 1 + 1000 * (cx.seed % 1000 if isinstance(cx.seed, int) else 0)
    for si in range(nsch):
        sch = Schema(rng, base_k + si)
        d = sch.desc
        probe = "validate %s %s" % (d, hexs(("/%s:c/s" % sch.main).encode()))
        run.diff([probe])
        if run.get(probe)[:2] == ["err", "Schema"]:
            cx.fail("val", "instance-identifier: the harness did not build the schema of the descriptor (or serialises it differently)",
                    {"yang": sch.yangs, "sser": ser(sch.all_top), "law": "inst_schema"})
            continue
        m, a = sch.main.encode(), sch.aug.encode()
        seeds = [b"/" + m + b":c", b"/" + m + b":c/s", b"/" + m + b":c/" + m + b":s", b"/c/s", b"/" + m + b":c/" + a + b":s", b"", b"/", b" /" + m + b":c", b"/" + m + b":c ",
                 b"/" + m + b":c/l", b"/" + m + b":c/s[1]", b"/" + m + b":c[1]", b"/" + m + b":nope", b"/" + a + b":" + sch.top[0].name.encode(), b"/" + m + b":" + sch.top[0].name.encode()]
        lex = {}
        for s in seeds:
            lex[s] = "seed"
        tries = 0
        while len(lex) < per + len(seeds) and tries < per * 4:
            tries += 1
            p, mk = gen_path(rng, sch, 0.45)
            if p not in lex:
                lex[p] = mk or "valid"
        total += len(lex)
        run.diff(["validate %s %s" % (d, hexs(x)) for x in lex])
        acc = {}
        for x, mk in lex.items():
            r = run.get("validate %s %s" % (d, hexs(x)))
            if r[0] == "ok":
                c = unhex(r[1])
                acc[x] = c
                cx.count(("inst-acc", si, x), True, "val:instid:accepted:%s" % mk)
                verdicts["ok"] = verdicts.get("ok", 0) + 1
                if not expect_prefixes(sch, c):
                    cx.fail("val", "the canonical instance-identifier does not carry a module prefix exactly on the first node and where the module changes",
                            {"type": d, "value_hex": hexs(x), "canonical_hex": r[1], "law": "inst_canonical_prefixes"})
            else:
                cx.count(("inst-rej", si, x), True, "val:instid:rejected:%s:%s" % (r[1] if len(r) > 1 else "?", mk))
                verdicts[r[1] if len(r) > 1 else "?"] = verdicts.get(r[1] if len(r) > 1 else "?", 0) + 1
        n_acc += len(acc)
        # (L) no lexical value may end in an internal error (finding F421: a variable reference as key value)
        for x in lex:
            r = run.get("validate %s %s" % (d, hexs(x)))
            if r[:2] == ["err", "Internal"]:
                cx.fail("val", "an instance-identifier lexical value ends in an internal error (LY_EINT) instead of a value error",
                        {"type": d, "value_hex": hexs(x), "reply": r, "law": "inst_no_internal_error"})
        # (L) two spellings that differ only in the order of the key predicates name the same instance: equal values (finding F422)
        swaps = []
        for x in sorted(acc):
            m = re.search(rb"(\[[A-Za-z_][^\]]*\])(\[[A-Za-z_][^\]]*\])", x)
            if m and m.group(1) != m.group(2):
                y = x[:m.start()] + m.group(2) + m.group(1) + x[m.end():]
                swaps.append((x, y))
            if len(swaps) >= cx.n(4, 40):
                break
        run.diff(["validate %s %s" % (d, hexs(y)) for _, y in swaps] + ["cmp %s %s %s" % (d, hexs(x), hexs(y)) for x, y in swaps])
        for x, y in swaps:
            r = run.get("cmp %s %s %s" % (d, hexs(x), hexs(y)))
            cx.count(("inst-swap", si, x), True, "val:instid:key-order-pair")
            if r[0] == "ok" and r[1] != "1":
                cx.fail("val", "two instance-identifier values that differ only in the order of the key predicates (the same instance) are not equal",
                        {"type": d, "a_hex": hexs(x), "b_hex": hexs(y), "reply": r, "law": "inst_same_instance_equal"})
        # hints, LYB, canonical stored again
        cases = []
        some = sorted(acc)[:: max(1, len(acc) // cx.n(6, 40))] + [b"", b"/x"]
        for h in HINTS:
            for x in some:
                cases.append("store %s %d %s" % (d, h, hexs(x)))
        for x in list(lex)[:: cx.n(3, 1)]:
            cases.append("unlyb %s %s" % (d, hexs(x)))
        for x, c in acc.items():
            cases.append("validate %s %s" % (d, hexs(c)))
        run.diff(cases)
        # cmp / lybrt: same canonical from different spellings, neighbours in strcmp order, random pairs
        by_c = {}
        for x, c in acc.items():
            by_c.setdefault(c, []).append(x)
        cans = sorted(by_c)
        pr = []
        for c in cans:
            xs = by_c[c][:3]
            if len(xs) > 1:
                pr += [(p, q) for p in xs for q in xs]
        for i in range(len(cans) - 1):
            pr.append((by_c[cans[i]][0], by_c[cans[i + 1]][-1]))
        flat = [x for c in cans for x in by_c[c]]
        for _ in range(cx.n(60, 800)):
            if flat:
                pr.append((rng.choice(flat), rng.choice(flat)))
        pr = list(dict.fromkeys(pr))[:cx.n(260, 2500)]
        sub = list(dict.fromkeys([p for p, _ in pr]))[:cx.n(25, 300)]
        cases = []
        for p, q in pr:
            cases += ["cmp %s %s %s" % (d, hexs(p), hexs(q)), "cmp %s %s %s" % (d, hexs(q), hexs(p))]
        for p in sub:
            cases.append("lybrt %s %s" % (d, hexs(p)))
            cases.append("cmp %s %s %s" % (d, hexs(p), hexs(acc[p])))
        rejected = [x for x in lex if x not in acc][:4]
        for x in rejected:
            if flat:
                cases += ["cmp %s %s %s" % (d, hexs(x), hexs(flat[0])), "cmp %s %s %s" % (d, hexs(flat[0]), hexs(x))]
            cases.append("lybrt %s %s" % (d, hexs(x)))
        run.diff(cases)
        n_pairs += len(pr)
        pairs[d] = (sub, pr)
        accepted[d] = list(acc)
    cx.dist["val:instid:values"] = total
    cx.dist["val:instid:accepted"] = n_acc
    valcomp.laws_value(run, accepted, pairs)
    cx.rule("val: instance-identifier (differential against lean/LyModel/Val/InstId.lean = Path lexer/parser/compiler + the STRICT_INHERIT / absolute-path tests "
            "+ instanceid_path2str; the model reads the schema serialisation the harness checks against its lysc_node trees): %d generated schemas (two modules, "
            "augments, config / state lists with 1-3 keys, key-less lists, leaf-lists), %d paths (valid walks with keys in any order, both quote characters, number "
            "tokens, positions, blanks inside predicates; prefix / predicate / byte-level deviations, see the module doc), %d accepted; every hint set on a sample, "
            "values as LYB, the canonical form stored again, cmp / leaf-list order over %d pairs; law inst_canonical_prefixes on every accepted value; verdicts: %s"
            % (nsch, total, n_acc, n_pairs, ", ".join("%s %d" % kv for kv in sorted(verdicts.items()))))
