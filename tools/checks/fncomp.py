"""Component `fn`: validation of the C-to-Lean translator (tools/c2lean.py).

For every translated function the REAL C function (harness/wb_fn.c, sanitised) and the GENERATED Lean definition
(lydrv, component `fn`) get the same request lines; replies must be equal token for token.  Domains: exhaustive small
ones (every first byte, every byte pair over a boundary alphabet, every code point boundary, every 2-bit record
position …) plus boundary-dense random inputs.  This is what checks that the emitter preserves C semantics (integer
promotions, unsigned wrap-around, signed char, shifts); the bridging theorems (lean/LyModel/Bridge) then tie the generated
definitions to the hand models for ALL inputs."""
import itertools
from vlib import gen
from vlib.proto import hexs

HARNESS = "wb_fn"
EDGE = [0x00, 0x01, 0x09, 0x0A, 0x0D, 0x1F, 0x20, 0x7F, 0x80, 0x8F, 0x90, 0x9F, 0xA0, 0xBF, 0xC0, 0xC1, 0xC2, 0xDF, 0xE0, 0xE1, 0xEC, 0xED, 0xEE, 0xEF,
        0xF0, 0xF1, 0xF3, 0xF4, 0xF5, 0xF7, 0xF8, 0xFB, 0xFC, 0xFD, 0xFE, 0xFF]
CPS = [0, 1, 8, 9, 0xA, 0xB, 0xD, 0x1F, 0x20, 0x7F, 0x80, 0x7FF, 0x800, 0xD7FF, 0xD800, 0xDFFF, 0xE000, 0xFDCF, 0xFDD0, 0xFDEF, 0xFDF0, 0xFFFD, 0xFFFE,
       0xFFFF, 0x10000, 0x1FFFD, 0x1FFFE, 0x1FFFF, 0x20000, 0xFFFFE, 0x10FFFD, 0x10FFFE, 0x10FFFF, 0x110000, 0x7FFFFFFF, 0x80000000, 0xFFFFFFFE, 0xFFFFFFFF]


def _lines(cases, start=0):
    return ["%d fn %s" % (start + i, c) for i, c in enumerate(cases)]


def utf8_cases(cx):
    rng = cx.sub_rng("fn-utf8")
    strs = [bytes([b]) for b in range(256)]
    strs += [bytes(t) for t in itertools.product(EDGE, repeat=2)]
    strs += [bytes([a, b, c]) for a in (0xE0, 0xE1, 0xED, 0xEF, 0xF0, 0xF4) for b in EDGE for c in (0x00, 0x7F, 0x80, 0xBF, 0xC0)]
    strs += [bytes([a, b, c, d]) for a in (0xF0, 0xF1, 0xF4, 0xF5) for b in (0x7F, 0x80, 0x8F, 0x90, 0xBF, 0xC0) for c in (0x80, 0xBF, 0x00)
             for d in (0x7F, 0x80, 0xBF, 0xC0, 0x00)]
    strs += [gen.enc_cp(cp) for cp in gen.EDGE_CPS] + gen.MALFORMED
    for _ in range(cx.n(1500, 60000)):
        strs.append(gen.valid_text(rng, 4) if rng.random() < 0.5 else gen.any_text(rng, 3))
    for _ in range(cx.n(1500, 60000)):
        strs.append(bytes(rng.choice(EDGE) if rng.random() < 0.7 else rng.randrange(256) for _ in range(rng.randrange(1, 6))))
    cases = []
    for i, s in enumerate(strs):
        s = s[:8]
        cases.append("getutf8 %s %d %s" % (hexs(s), rng.choice((0, 7, 0xFFFFFFFF)), "N" if i % 3 == 0 else str(rng.choice((0, 9)))))
        for l in sorted({0, 1, 2, 3, 4, len(s), rng.choice((5, 2**32, 2**64 - 1))}):
            cases.append("checkutf8 %s %d %d" % (hexs(s), l, 99))
        cases.append("utf8len %s %d" % (hexs(s), rng.choice((0, 1, len(s), len(s), max(0, len(s) - 1)))))
    for cp in CPS + list(range(0, 0x100)) + [c + d for c in (0x800, 0xD800, 0xE000, 0xFDD0, 0xFDF0, 0xFFFE, 0x10000, 0x10FFFE) for d in (-2, -1, 0, 1, 2)] + \
            [rng.randrange(0, 0x120000) for _ in range(cx.n(1500, 50000))] + [rng.randrange(0, 2**32) for _ in range(cx.n(200, 5000))]:
        cases.append("pututf8 %s %d %d" % (hexs(bytes([0xAA, 0xBB, 0xCC, 0xDD, 0xEE][:rng.choice((4, 4, 5))])), cp, 77))
    return cases


def hash_cases(cx):
    rng = cx.sub_rng("fn-hash")
    cases = []
    keys = [b""] + [bytes([b]) for b in range(256)] + [bytes(t) for t in itertools.product((0x00, 0x01, 0x7F, 0x80, 0xFF), repeat=2)]
    for _ in range(cx.n(1500, 60000)):
        n = rng.choice((1, 2, 3, 4, 7, 8, 16, 31, 64))
        keys.append(bytes(rng.choice(EDGE) if rng.random() < 0.5 else rng.randrange(256) for _ in range(n)))
    for k in keys:
        h0 = rng.choice((0, 1, 0x7FFFFFFF, 0x80000000, 0xFFFFFFFF, rng.randrange(2**32)))
        ln = rng.choice((len(k), len(k), len(k), rng.randrange(len(k) + 1)))
        cases.append("hashmulti %d %s %d" % (h0, hexs(k), ln))
        cases.append("hash %s %d" % (hexs(k), len(k)))
    for h0 in (0, 1, 2, 0x7FFFFFFF, 0x80000000, 0xFFFFFFFF) + tuple(rng.randrange(2**32) for _ in range(cx.n(300, 5000))):
        cases.append("hashmulti %d N %d" % (h0, rng.choice((0, 1, 5))))
    return cases


def iff_cases(cx):
    rng = cx.sub_rng("fn-iff")
    cases = []
    for b in range(256):
        for pos in range(4):
            cases.append("getop %s %d" % (hexs(bytes([b])), pos))
            for op in range(4):
                cases.append("setop %s %d %d" % (hexs(bytes([b])), op, pos))
    for _ in range(cx.n(1500, 40000)):
        n = rng.randrange(1, 9)
        s = bytes(rng.randrange(256) for _ in range(n))
        pos = rng.randrange(4 * n)
        cases.append("getop %s %d" % (hexs(s), pos))
        cases.append("setop %s %d %d" % (hexs(s), rng.randrange(4), pos))
    return cases


def ht_cases(cx):
    rng = cx.sub_rng("fn-ht")
    edge = [0, 1, 2, 3, 4, 5, 7, 8, 9, 15, 16, 17, 255, 256, 257, 65535, 65536, 65537, 2**31 - 1, 2**31, 2**31 + 1, 2**32 - 2, 2**32 - 1]
    cases = ["fixedsize %d" % n for n in edge + [2**k + d for k in range(1, 32) for d in (-1, 0, 1)] + [rng.randrange(2**32) for _ in range(cx.n(500, 20000))]]
    sizes = [2**k for k in range(0, 32)] + [3, 5, 12, 100, 1000]
    for _ in range(cx.n(2500, 60000)):
        size = rng.choice(sizes)
        pct = rng.choice((0, 24, 25, 26, 49, 50, 51, 74, 75, 76, 99, 100, 101, rng.randrange(0, 130)))
        used = max(0, min(2**32 - 1, size * pct // 100 + rng.choice((-1, 0, 0, 1))))
        if rng.random() < 0.05: used = rng.choice((42949672, 42949673, 2**32 - 1, rng.randrange(2**32)))      # used * 100 wraps
        cases.append("grow %d %d %d" % (used, size, rng.choice((0, 1, 2, 2, 3, 65535))))
        cases.append("shrink %d %d" % (used, size))
    return cases


def lyb_cases(cx):
    rng = cx.sub_rng("fn-lyb")
    cases = []
    for cid in range(0, 8):
        for h in list(range(256)) + [0x100, 0xFFFFFF00, 0xFFFFFFFF, 0x80000000] + [rng.randrange(2**32) for _ in range(cx.n(40, 2000))]:
            cases.append("lybmask %d %d" % (h, cid))
    for cid in list(range(0, 20)) + [127, 128, 255]:
        for ln in (0, 1, 2, 3, 7, 8, 9, 19, 20, 127, 128, 254, 255, 256, 2**32, 2**64 - 1):
            cases.append("extlen %d %d" % (cid, ln))
    return cases


def print_cases(cx):
    rng = cx.sub_rng("fn-print")
    strs = [bytes([b]) for b in range(1, 256)] + [bytes(t) for t in itertools.product((0x09, 0x0A, 0x0D, 0x22, 0x26, 0x3C, 0x3E, 0x5C, 0x1F, 0x7F, 0x80, 0x41), repeat=2)]
    for _ in range(cx.n(1200, 40000)):
        strs.append(gen.valid_text(rng, 6) if rng.random() < 0.7 else bytes(rng.choice((9, 10, 13, 34, 38, 60, 62, 92, 1, 31, 127, 128, 255, 65)) for _ in range(rng.randrange(0, 9))))
    cases = ["xmldump 0 N", "xmldump 1 N", "jsonprint N", "xmldump 0 -", "jsonprint -"]
    for s in strs:
        s = s.replace(b"\x00", b"")
        cases.append("xmldump %d %s" % (rng.choice((0, 1, 1, 2, 255)), hexs(s)))
        cases.append("jsonprint " + hexs(s))
    return cases


def json_cases(cx):
    rng = cx.sub_rng("fn-json")
    alpha = [0x00, 0x01, 0x2F, 0x30, 0x35, 0x39, 0x3A, 0x40, 0x41, 0x46, 0x47, 0x5A, 0x60, 0x61, 0x66, 0x67, 0x7A, 0x7F, 0x80, 0xC0, 0xFF]
    strs = [bytes(t) for t in itertools.product(alpha, repeat=2)] + [bytes([b]) for b in range(256)]
    strs = [s + bytes(rng.choice(alpha) for _ in range(rng.choice((2, 3)))) for s in strs]
    for _ in range(cx.n(1500, 40000)):
        strs.append(bytes(rng.choice(b"0123456789abcdefABCDEF") if rng.random() < 0.8 else rng.choice(alpha) for _ in range(rng.choice((4, 4, 4, 5, 3)))))
    return ["uhex %s %d" % (hexs(s), rng.choice((0, 7))) for s in strs]


GROUPS = {"json": json_cases, "print": print_cases, "utf8": utf8_cases, "hash": hash_cases, "iff": iff_cases, "ht": ht_cases, "lyb": lyb_cases}


def run_fn(cx, groups):
    """translator validation for the given groups of translated functions"""
    cx.rule("fn (translator validation): the C function and the Lean definition generated from its source on the same inputs — exhaustive over "
            "first bytes / boundary byte pairs / code-point boundaries / all (byte, 2-bit record, op), plus boundary-dense random inputs")
    cases = []
    for g in groups:
        cases += GROUPS[g](cx)
    lines = _lines(cases, 7000000)
    cx.differential("fn", lines, HARNESS, kind=lambda l, a: "fn:" + l.split()[2] + ":" + (a[1] if a and a[0] == "ok" and len(a) > 1 and l.split()[2] in
                                                                                         ("getutf8", "pututf8", "checkutf8") else a[0]))
    return len(lines)
