"""API-level LYB round-trip law (harness/api_lybrt.c): generated schemas and trees — large values around the chunk size,
deep nesting, many siblings, engineered truncated-hash collisions — under every with-defaults print mode."""
import json, os, string
from vlib import paths
from vlib.proto import hexs, unhex
from checks import lybhash

API = "api_lybrt"
MAX = 65535
WDS = ["explicit", "trim", "all", "all-tag", "impl-tag"]
SEARCHDIR = os.path.join(paths.REPO, "tests", "modules", "yang")

TYPES = ["string", "uint8", "int32", "uint64", "boolean", "enum", "dec64", "bits", "empty", "binary",
         "int8", "int16", "int64", "uint16", "uint32", "idref", "union", "instid", "leafref"]


def ident(rng, lo=1, hi=8):
    return rng.choice(string.ascii_lowercase) + "".join(rng.choice(string.ascii_lowercase + string.digits + "-") for _ in range(rng.randrange(lo - 1, hi)))


def type_yang(t):
    """the whole type statement"""
    return {"string": "type string;", "uint8": "type uint8;", "int32": "type int32;", "uint64": "type uint64;", "boolean": "type boolean;",
            "enum": "type enumeration {enum a; enum bb; enum c-c;}", "dec64": "type decimal64 {fraction-digits 2;}",
            "bits": "type bits {bit x; bit y; bit z;}", "empty": "type empty;", "binary": "type binary;",
            "int8": "type int8;", "int16": "type int16;", "int64": "type int64;", "uint16": "type uint16;", "uint32": "type uint32;",
            "idref": "type identityref {base idb;}", "union": "type union {type int32; type enumeration {enum u1; enum u2;} type string;}",
            "instid": "type instance-identifier {require-instance false;}",
            "leafref": "type leafref {path \"/p:lrtarget\"; require-instance false;}"}[t]


def value_of(rng, t):
    if t == "string":
        return rng.choice(["", "a", "hello world", "<&>\"'", "é€", "x" * rng.randrange(0, 300), " lead", "trail "])
    if t == "uint8": return str(rng.choice([0, 1, 255, rng.randrange(256)]))
    if t == "int32": return str(rng.choice([0, -1, 2147483647, -2147483648, rng.randrange(-10**6, 10**6)]))
    if t == "uint64": return str(rng.choice([0, 18446744073709551615, rng.randrange(2**63)]))
    if t == "boolean": return rng.choice(["true", "false"])
    if t == "enum": return rng.choice(["a", "bb", "c-c"])
    if t == "dec64": return rng.choice(["0.0", "-1.5", "3.14", "92233720368547758.07", "%d.%02d" % (rng.randrange(-999, 999), rng.randrange(100))]).replace(".00", ".0")
    if t == "bits": return rng.choice(["", "x", "x z", "x y z", "y"])
    if t == "empty": return None
    if t == "binary": return rng.choice(["", "YQ==", "aGVsbG8=", "AAECAwQF"])
    if t == "int8": return str(rng.choice([0, -128, 127, rng.randrange(-128, 128)]))
    if t == "int16": return str(rng.choice([0, -32768, 32767, rng.randrange(-32768, 32768)]))
    if t == "int64": return str(rng.choice([0, -9223372036854775808, 9223372036854775807, rng.randrange(-2**62, 2**62)]))
    if t == "uint16": return str(rng.choice([0, 65535, rng.randrange(65536)]))
    if t == "uint32": return str(rng.choice([0, 4294967295, rng.randrange(2**32)]))
    if t == "idref": return rng.choice(["ida", "idb2", "idc"])
    if t == "union": return rng.choice(["5", "-7", "u1", "u2", "text", "", "12x"])
    if t == "instid": return rng.choice(["/MOD:lrtarget[.='t1']", "/MOD:lrtarget[.='nope']"])
    if t == "leafref": return rng.choice(["t1", "t2", "zz"])
    return "v"


def default_of(rng, t):
    if t in ("empty", "instid", "leafref", "idref", "union"):
        return None
    v = value_of(rng, t)
    if v is None or any(c in v for c in "\"\\\n") or v != v.strip() or (t == "string" and not v):
        return {"string": "dflt", "binary": "YQ=="}.get(t, None)
    return v


class Gen:
    def __init__(self, rng, mod, max_depth, breadth):
        self.rng, self.mod, self.max_depth, self.breadth = rng, mod, max_depth, breadth
        self.has_default = False

    def names(self, n, forced=()):
        out = list(forced)
        while len(out) < n:
            c = ident(self.rng)
            if c not in out and c not in ("input", "output", "lrtarget"):
                out.append(c)
        self.rng.shuffle(out)
        return out

    def node(self, name, depth):
        r = self.rng.random()
        if depth < self.max_depth and r < 0.3:
            kids = [self.node(n, depth + 1) for n in self.names(self.rng.randrange(1, self.breadth + 1))]
            return {"k": "container", "n": name, "c": kids, "presence": self.rng.random() < 0.3}
        if depth < self.max_depth and r < 0.45:
            kt = self.rng.choice(["string", "uint8", "int32"])
            kids = [self.node(n, depth + 1) for n in self.names(self.rng.randrange(0, self.breadth))]
            kids = [k for k in kids if k["n"] != "k"]
            return {"k": "list", "n": name, "kt": kt, "c": kids}
        if r < 0.6:
            t = self.rng.choice([x for x in TYPES if x not in ("empty",)])
            return {"k": "leaf-list", "n": name, "t": t}
        t = self.rng.choice(TYPES)
        d = default_of(self.rng, t) if self.rng.random() < 0.45 else None
        return {"k": "leaf", "n": name, "t": t, "d": d}

    def yang(self, nd, ind=2):
        p = " " * ind
        if nd["k"] == "container":
            return p + "container %s {%s\n%s\n%s}" % (nd["n"], " presence p;" if nd["presence"] else "",
                                                      "\n".join(self.yang(c, ind + 2) for c in nd["c"]), p)
        if nd["k"] == "list":
            body = ["%s  leaf k {%s}" % (p, type_yang(nd["kt"]))] + [self.yang(c, ind + 2) for c in nd["c"]]
            return p + "list %s { key k;\n%s\n%s}" % (nd["n"], "\n".join(body), p)
        if nd["k"] == "leaf-list":
            return p + "leaf-list %s {%s}" % (nd["n"], type_yang(nd["t"]))
        d = ""
        if nd.get("d") is not None:
            d = " default \"%s\";" % nd["d"]
        return p + "leaf %s {%s%s}" % (nd["n"], type_yang(nd["t"]), d)

    def data(self, nd, path, out, under_np=True):
        """instantiate nd below path; under_np: all ancestors exist (so implicit defaults will be created)"""
        rng = self.rng
        me = "%s/%s:%s" % (path, self.mod, nd["n"]) if path == "" else "%s/%s" % (path, nd["n"])
        if nd["k"] == "container":
            inst = rng.random() < 0.8
            if inst and nd["presence"]:
                out.append((me, None))
            exists = inst if nd["presence"] else under_np
            for c in nd["c"]:
                if inst:
                    self.data(c, me, out, exists)
                elif c["k"] == "leaf" and c.get("d") is not None and exists:
                    self.has_default = True
        elif nd["k"] == "list":
            keys = set()
            for _ in range(rng.choice([0, 1, 2, 3, 6])):
                kv = value_of(rng, nd["kt"])
                if kv in keys or "'" in kv or "\"" in kv: continue
                keys.add(kv)
                inst = "%s[k='%s']" % (me, kv)
                out.append((inst, None))
                for c in nd["c"]:
                    self.data(c, inst, out, True)
        elif nd["k"] == "leaf-list":
            vals = []
            for _ in range(rng.choice([0, 1, 2, 4])):
                v = value_of(rng, nd["t"])
                if v not in vals:
                    vals.append(v)
            for v in vals:
                out.append((me, v.replace("MOD", self.mod) if v else v))
        else:
            r = rng.random()
            if nd.get("d") is not None and under_np:
                self.has_default = True
            if r < 0.6:
                v = value_of(rng, nd["t"])
                out.append((me, v.replace("MOD", self.mod) if v else v))
            elif r < 0.75 and nd.get("d") is not None:
                out.append((me, nd["d"]))            # explicit value equal to the default


PRELUDE = "  identity idb;\n  identity ida {base idb;}\n  identity idb2 {base idb;}\n  identity idc {base ida;}\n  leaf-list lrtarget {type string;}\n"


def module_text(mod, body, rev=None, prelude=False):
    return "module %s {\n  yang-version 1.1;\n  namespace \"urn:%s\";\n  prefix p;\n%s%s%s\n}\n" % (
        mod, mod, ("  revision %s;\n" % rev) if rev else "", PRELUDE if prelude else "", body)


def spec_str(items):
    toks = []
    for path, val in items:
        if val is None: v = "-"
        elif isinstance(val, tuple): v = "g%d:%d" % val
        else: v = "l" + hexs(val.encode("utf-8"))
        toks.append("%s=%s" % (hexs(path.encode()), v))
    return ",".join(toks) if toks else "-"


def gen_cases(cx):
    rng = cx.sub_rng("lyb-api")
    cases = []      # (yang, wd, spec, meta)

    def add(yang, items, meta, wds=None):
        for wd in (wds or WDS):
            m = dict(meta); m["wd"] = wd
            cases.append((yang, wd, spec_str(items), m))

    # 0. corpus (hand seeds, past failures)
    fn = os.path.join(paths.CORPUS, "lyb", "api.json")
    if os.path.exists(fn):
        for c in json.load(open(fn)):
            add(c["yang"], [(p, v) for p, v in c["items"]], c["meta"], wds=c.get("wds"))

    # 1. random schemas / trees under every with-defaults mode
    for _ in range(cx.n(200, 1000)):
        mod = ident(rng, 3, 8).replace("-", "x")
        g = Gen(rng, mod, rng.choice([1, 2, 3, 4]), rng.choice([2, 3, 5]))
        tops = [g.node(n, 0) for n in g.names(rng.randrange(1, 5))]
        yang = module_text(mod, "\n".join(g.yang(t) for t in tops), prelude=True)
        items = [("/%s:lrtarget" % mod, v) for v in ("t1", "t2") if rng.random() < 0.7]
        for t in tops:
            g.data(t, "", items)
        # implicit default nodes may appear anywhere below a non-presence path: any default in the schema counts
        add(yang, items, {"kind": "random", "has_default": g.has_default or " default " in yang})

    # 1b. opaque nodes next to schema nodes (lyb_print_node_opaq / lyb_parse_node_opaq), also with a large value
    for _ in range(cx.n(12, 120)):
        mod = "opq" + ident(rng, 1, 4).replace("-", "o")
        yang = module_text(mod, "  leaf a {type string;}\n  container c {leaf b {type uint8;}}")
        items = []
        if rng.random() < 0.7: items.append(("/%s:a" % mod, value_of(rng, "string")))
        if rng.random() < 0.7: items.append(("/%s:c/b" % mod, "7"))
        nm = ident(rng, 1, 6)
        v = rng.choice(["", "x", "some text", (rng.choice([MAX - 20, MAX, MAX + 3, 2 * MAX]), 5)])
        toks = spec_str(items)
        otok = "O%s=%s" % (hexs(nm.encode()), "g%d:%d" % v if isinstance(v, tuple) else "l" + hexs(v.encode()))
        cases.append((yang, "explicit", otok if toks == "-" else toks + "," + otok, {"kind": "opaq", "has_default": False, "wd": "explicit"}))

    # 2. large values around k * LYB_SIZE_MAX at nesting 1..6 (every alignment of the chunk end against the 8-byte length
    #    prefix, the next node header and the closing records is hit by a sweep of consecutive sizes)
    sweep = []
    for k in (1, 2, 3):
        ds = range(-40, 41) if cx.tier == "thorough" else sorted(rng.sample(range(-40, 41), 20))
        for d in ds:
            sweep.append(k * MAX + d)
    for size in sweep:
        depth = rng.randrange(1, 7)
        mod = "big" + ident(rng, 1, 3).replace("-", "y")
        body, path = "", ""
        ind = 2
        for lvl in range(depth):
            body += " " * ind + "container c%d {\n" % lvl + " " * (ind + 2) + "leaf pre%d {type string;}\n" % lvl
            path += ("/%s:c%d" % (mod, lvl)) if not path else "/c%d" % lvl
            ind += 2
        body += " " * ind + "leaf v {type string;}\n" + " " * ind + "leaf w {type string;}\n" + " " * ind + "leaf d {type uint8; default 7;}\n"
        body += " " * ind + "container e {presence p;}\n"
        for lvl in reversed(range(depth)):
            ind -= 2
            body += " " * ind + "}\n"
        yang = module_text(mod, body.rstrip("\n"))
        items = []
        p = ""
        for lvl in range(depth):
            p += ("/%s:c%d" % (mod, lvl)) if not p else "/c%d" % lvl
            if rng.random() < 0.6:
                items.append((p + "/pre%d" % lvl, (rng.choice([0, 1, 5, 100, MAX - 30, MAX]), rng.randrange(36))))
        items.append((p + "/v", (size, rng.randrange(36))))
        if rng.random() < 0.5:
            items.append((p + "/w", (rng.choice([0, 1, 17, MAX - 1]), 3)))
        if rng.random() < 0.5:
            items.append((p + "/e", None))
        add(yang, items, {"kind": "big", "size": size, "has_default": True}, wds=[rng.choice(["explicit", "trim", "all"])])

    # 3. many siblings / many list instances
    for n in (60, 128, cx.n(200, 250)):
        mod = "many" + ident(rng, 1, 3).replace("-", "z")
        names = []
        while len(names) < n:
            c = ident(rng, 1, 7)
            if c not in names: names.append(c)
        if lybhash.hash_siblings(mod.encode(), [x.encode() for x in names]) is None:
            continue
        body = "  container c {\n" + "\n".join("    leaf %s {type string;}" % x for x in names) + "\n  }\n  list l {key k; leaf k {type uint16;} leaf v {type string;}}"
        items = [("/%s:c/%s" % (mod, x), "v" + x) for x in names if rng.random() < 0.9]
        items += [("/%s:l[k='%d']/v" % (mod, i), "i%d" % i) for i in range(cx.n(300, 2000))]
        add(module_text(mod, body), items, {"kind": "many", "has_default": False}, wds=["explicit"])

    # 4. engineered truncated-hash collisions (found offline with the independent hash), ids 0 .. depth-1
    for _ in range(cx.n(25, 250)):
        mod = ident(rng, 3, 7).replace("-", "q")
        depth = rng.choice([1, 1, 2, 2, 3])
        grp = find_colliding(rng, mod.encode(), depth, rng.choice([2, 2, 3]), cx.n(60000, 400000))
        if not grp:
            continue
        names = [x.decode() for x in grp]
        for _ in range(rng.randrange(0, 5)):
            c = "f" + ident(rng, 2, 5)
            if c not in names: names.append(c)
        rng.shuffle(names)
        cols = lybhash.hash_siblings(mod.encode(), [x.encode() for x in names])
        kinds = [rng.choice(["leaf", "leaf", "container", "list", "leaf-list"]) for _ in names]
        body_l, items = [], []
        for nme, kd in zip(names, kinds):
            if kd == "leaf":
                body_l.append("    leaf %s {type string;}" % nme); items.append(("/%s:c/%s" % (mod, nme), "val-" + nme))
            elif kd == "container":
                body_l.append("    container %s {leaf x {type string;}}" % nme); items.append(("/%s:c/%s/x" % (mod, nme), "in-" + nme))
            elif kd == "list":
                body_l.append("    list %s {key k; leaf k {type string;}}" % nme)
                items += [("/%s:c/%s[k='%s%d']" % (mod, nme, nme, i), None) for i in range(2)]
            else:
                body_l.append("    leaf-list %s {type string;}" % nme)
                items += [("/%s:c/%s" % (mod, nme), "%s%d" % (nme, i)) for i in range(2)]
        yang = module_text(mod, "  container c {\n" + "\n".join(body_l) + "\n  }")
        add(yang, items, {"kind": "collide", "depth": depth, "cols": cols, "f27": cols is None, "has_default": False},
            wds=[rng.choice(["explicit", "all"])])
    # the same on the top level (top-level siblings of one module share a hash table)
    for _ in range(cx.n(6, 60)):
        mod = ident(rng, 3, 6).replace("-", "q")
        grp = find_colliding(rng, mod.encode(), rng.choice([1, 2]), 2, cx.n(60000, 400000))
        if not grp:
            continue
        names = [x.decode() for x in grp]
        cols = lybhash.hash_siblings(mod.encode(), [x.encode() for x in names])
        yang = module_text(mod, "\n".join("  leaf %s {type string;}" % x for x in names))
        add(yang, [("/%s:%s" % (mod, x), "t-" + x) for x in names], {"kind": "collide-top", "cols": cols, "f27": cols is None, "has_default": False},
            wds=["explicit"])

    # 5. known findings, exact witnesses
    add(module_text("y", "  container c {\n    leaf en {type string;}\n    leaf d64 {type string;}\n  }"),
        [("/y:c/en", "v")], {"kind": "f27", "f27": True, "has_default": False}, wds=["explicit"])
    add(module_text("dd", "  container c {\n    leaf a {type string; default da;}\n    leaf b {type string;}\n  }"),
        [("/dd:c/b", "x")], {"kind": "f33", "has_default": True})
    for rev in ("1999-12-31", "2128-01-01", "2000-01-01", "2127-12-31"):
        y = int(rev[:4])
        add(module_text("revmod", "  leaf a {type string;}", rev=rev), [("/revmod:a", "x")],
            {"kind": "rev", "rev": rev, "rev_out_of_range": not (2000 <= y <= 2127), "has_default": False}, wds=["explicit"])
    return cases


def find_colliding(rng, mod, depth, want, tries):
    seen = {}
    for _ in range(tries):
        n = (rng.choice(string.ascii_lowercase) + "".join(rng.choice(string.ascii_lowercase + string.digits) for _ in range(rng.randrange(1, 4)))).encode()
        if n in (b"input", b"output"):
            continue
        key = tuple(lybhash.gen_hash(mod, n, i) for i in range(depth))
        grp = seen.setdefault(key, [])
        if n not in grp:
            grp.append(n)
            if len(grp) >= want:
                return grp
    return None


def run_api(cx):
    cases = gen_cases(cx)
    d = hexs(SEARCHDIR.encode())
    lines = ["%d lybapi rt %s %s %s %s" % (i, d, hexs(y.encode()), wd, spec) for i, (y, wd, spec, _) in enumerate(cases)]
    cx.rule("lyb api: print(LYB) -> parse(LYB) -> compare(FULL_RECURSION|DEFAULTS) + lyd_lyb_data_length + reprint equality on generated "
            "schemas (containers, presence, lists, leaf-lists, 10 leaf types, defaults) under with-defaults explicit/trim/all/all-tag/"
            "impl-tag; string values of k*LYB_SIZE_MAX+d (k<=3, |d|<=40) at nesting 1-6; up to 250 sibling leaves and %d list instances; "
            "sibling names colliding on collision ids 0..2 found offline; witnesses of F27, F33, F70" % cx.n(300, 2000))
    rr = cx.run_impl(API, lines, component="lyb", timeout=cx.n(600, 3000))
    for i, (y, wd, spec, meta) in enumerate(cases):
        r = rr.get(str(i), ["err", "NoReply"])
        key = ("api", y, wd, spec)
        cx.count(key, True, "lybapi:%s:%s" % (meta["kind"], " ".join(r[:2])))
        if r[:2] == ["ok", "eq"]:
            if meta["kind"] == "collide" and meta.get("cols") and max(meta["cols"]) > 0:
                cx.dist["lybapi:collision-id>0-roundtrip"] += 1
            continue
        if r[:2] == ["err", "Crash"]:
            continue            # recorded (and classified) by run_impl
        stage = r[1].lower() if len(r) > 1 else "noreply"
        c = {"op": "api", "stage": stage, "reply": r, "wd": wd, "yang": y, "spec": spec if len(spec) < 2000 else spec[:2000] + "...", "line_id": i}
        c.update({k: v for k, v in meta.items() if k in ("kind", "has_default", "f27", "rev_out_of_range", "size", "cols")})
        cx.fail("lyb", "LYB round trip law fails on the API (%s): stage %s" % (meta["kind"], r[1] if len(r) > 1 else "?"), c)
    if cases:
        cx.sample(lines[cx.rng.randrange(len(lines))][:300])


def classify_crash(case):
    """crash record from run_impl: only the request line and stderr are known"""
    t = (case.get("line") or "").split()
    if len(t) < 7 or t[1] != "lybapi":
        return None
    try:
        yang = unhex(t[4]).decode("utf-8", "replace")
    except ValueError:
        return None
    wd, err = t[5], case.get("stderr", "")
    if "left shift of negative value" in err and "printer_lyb.c" in err:
        return "F70"
    if wd in ("all-tag", "impl-tag") and " default " in yang and ("parser_lyb.c" in err or "lyb_read" in err):
        return "F33"
    return None
