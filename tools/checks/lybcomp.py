"""Correspondence + laws for component `lyb` — the LYB part of C01 (print -> parse identity).

White box (harness/wb_lyb.c vs the Lean model, byte-exact):
  chunk    well-nested start/write/stop sequences through lyb_write* and back through lyb_read*
  skip     the same with one frame passed by lyb_skip_siblings
  hash / jenkins / rev / sibs   lyb_generate_hash, lyht_hash, revision packing, sibling hash sequences + lookup
API level (harness/api_lybrt.c, laws on the implementation only):
  rt       lyd_print_mem(LYB) -> lyd_parse_data_mem(LYB) -> lyd_compare_siblings(FULL_RECURSION|DEFAULTS)
           for generated schemas / trees with values around k*LYB_SIZE_MAX, deep nesting, many siblings,
           engineered truncated-hash collisions, under the with-defaults print modes.
"""
import itertools, os, random, string
from vlib import paths
from vlib.proto import hexs, unhex
from checks import lybhash

WB = "wb_lyb"
API = "api_lybrt"
MAX = 65535          # LYB_SIZE_MAX (the model takes it from Generated/Consts.lean; a changed value shows up as disagreement)

FINDINGS_HELP = {
    "F27": "lyb_hash_siblings gives up (LY_EINT) when two siblings collide on every collision id",
    "F33": "default metadata value written with 2-byte length, read with 8",
    "F69": "lyb_skip_siblings does not land at the end of the frame",
    "F70": "module revision outside 2000..2127 cannot be packed",
}


# ----------------------------------------------------------------------------------------- op sequences
def ops_str(ops):
    return ",".join(ops) if ops else "-"


def split_len(rng, n):
    """one payload of n bytes as 1..3 writes"""
    k = rng.choice([1, 1, 2, 3])
    cuts = sorted(rng.randrange(0, n + 1) for _ in range(k - 1))
    parts, prev = [], 0
    for c in cuts + [n]:
        parts.append(c - prev); prev = c
    return parts


def W(rng, n):
    return ["w:%d:%d" % (p, rng.randrange(256)) for p in split_len(rng, n)]


def boundary_case(rng, k, delta, depth):
    """depth nested frames; the innermost receives k*MAX+delta bytes (minus what the prefixes already put into it),
    prefixes chosen so that frames reach their chunk ends simultaneously, one byte apart, or far apart"""
    pre_pool = [0, 0, 0, 1, 2, 3, 4, MAX - 1, MAX, MAX + 1, rng.randrange(5, 300)]
    post_pool = [0, 0, 1, 2, 5, MAX - 1, MAX, rng.randrange(3, 200)]
    ops, total = [], 0
    for d in range(depth):
        ops.append("s")
        if d < depth - 1:
            p = rng.choice(pre_pool)
            if total + p > 2 * MAX + 10:
                p = rng.choice([0, 1, 2])
            total += p
            if p or rng.random() < 0.2:
                ops += W(rng, p)
            if rng.random() < 0.15:
                ops.append("x:%d" % rng.choice([1, 2, 5]))
    ops += W(rng, max(0, k * MAX + delta))
    for d in range(depth):
        if rng.random() < 0.2:
            ops.append("x:%d" % rng.choice([1, 3]))
        ops.append("e")
        q = rng.choice(post_pool)
        if d < depth - 1 or rng.random() < 0.5:
            if q or rng.random() < 0.3:
                ops += W(rng, q)
    return ops


def random_case(rng, maxops, sizes):
    ops, d = [], 0
    n = rng.randrange(1, maxops + 1)
    for _ in range(n):
        r = rng.random()
        if r < 0.3 and d < 8:
            ops.append("s"); d += 1
        elif r < 0.55 and d > 0:
            ops.append("e"); d -= 1
        else:
            ops.append("w:%d:%d" % (rng.choice(sizes), rng.randrange(256)))
    ops += ["e"] * d
    return ops


def exhaustive_small(maxops):
    """all well-nested sequences of at most maxops ops over {s, e, w:0, w:1, w:2}"""
    alph = ["s", "e", "w:0:1", "w:1:2", "w:2:3"]
    for n in range(0, maxops + 1):
        for t in itertools.product(alph, repeat=n):
            d, ok = 0, True
            for o in t:
                if o == "s": d += 1
                elif o == "e":
                    d -= 1
                    if d < 0: ok = False; break
            if ok and d == 0:
                yield list(t)


def crossings(ops):
    """number of payload bytes an open frame sees beyond its first chunk (0: no chunk boundary exercised)"""
    stack, cross = [], 0
    for o in ops:
        if o == "s": stack.append(0)
        elif o == "e": stack.pop()
        elif o.startswith("w:"):
            n = int(o.split(":")[1])
            for i in range(len(stack)):
                before = stack[i] // MAX
                stack[i] += n
                cross += stack[i] // MAX - before
    return cross


def strip_why(reply):
    """replies carry a free-form reason after rt=0; never compared"""
    out = []
    for t in reply:
        out.append(t)
        if t.startswith("rt="):
            break
    return out


# ----------------------------------------------------------------------------------------- white box
def run_wb(cx):
    rng = cx.sub_rng("lyb-wb")
    cases = []          # (request without id, meta)

    # --- chunk
    chunk = []
    small = list(exhaustive_small(cx.n(5, 6)))
    chunk += small
    for _ in range(cx.n(2500, 20000)):
        chunk.append(random_case(rng, 14, [0, 0, 1, 2, 3, 7, 100, 255, 256, 1000]))
    deltas = range(-4, 5)
    for k in (1, 2, 3):
        for dl in deltas:
            depths = range(1, 7)
            for dp in depths:
                chunk.append(boundary_case(rng, k, dl, dp))
    for _ in range(cx.n(60, 400)):
        chunk.append(random_case(rng, 10, [0, 1, MAX - 1, MAX, MAX + 1, 2 * MAX, 40000, 70000]))
    for n in (1, 2, 255, 256, 257, cx.n(1500, 4000)):
        chunk.append(["s", "w:3:1", "x:%d" % n, "w:%d:2" % (MAX - 5), "x:3", "w:9:9", "e", "w:1:0"])
    if cx.tier == "thorough":
        chunk.append(["s", "x:65535", "e"])
        chunk.append(["s", "x:65536", "e"])            # LY_EINT: inner chunk counter exhausted
    seen = set()
    for ops in chunk:
        s = ops_str(ops)
        if s in seen: continue
        seen.add(s)
        cases.append(("chunk " + s, ("chunk", ops)))

    # --- skip
    skips = []
    for ops in small:
        ns = ops.count("s")
        for k in range(ns):
            skips.append((k, ops))
    skips = rng.sample(skips, min(len(skips), cx.n(1500, 20000)))
    for _ in range(cx.n(200, 800)):
        ops = boundary_case(rng, rng.choice([1, 1, 2]), rng.choice([-2, -1, 0, 1, 2]), rng.randrange(2, 6))
        skips.append((rng.randrange(ops.count("s")), ops))
    # the two witnesses of F69 and their fine neighbours
    skips += [(0, ["s", "w:%d:1" % MAX, "s", "e", "e"]), (0, ["s", "w:%d:1" % (MAX - 1), "s", "e", "e"]),
              (1, ["s", "w:1:1", "s", "w:%d:1" % (MAX - 1), "s", "e", "w:1:1", "e", "w:1:1", "e"]),
              (1, ["s", "w:1:1", "s", "s", "e", "w:%d:1" % (MAX - 1), "w:1:1", "e", "w:1:1", "e"])]
    for k, ops in skips:
        cases.append(("skip %d %s" % (k, ops_str(ops)), ("skip", ops, k)))

    # --- hash / jenkins
    idc = string.ascii_lowercase + string.digits + "-_."
    def ident(lo=1, hi=10):
        return (rng.choice(string.ascii_lowercase) + "".join(rng.choice(idc) for _ in range(rng.randrange(lo - 1, hi)))).encode()
    for _ in range(cx.n(3000, 30000)):
        cases.append(("hash %s %s %d" % (hexs(ident(1, 12)), hexs(ident(1, 16)), rng.randrange(0, 11)), ("hash",)))
    cases.append(("hash 79 656e 3", ("hash",)))
    for _ in range(cx.n(800, 10000)):
        n = rng.choice([0, 1, 2, 3, 8, 31, 64, 200])
        cases.append(("jenkins " + hexs(bytes(rng.randrange(256) for _ in range(n))), ("jenkins",)))

    # --- rev
    years = sorted(set([2000, 2001, 2010, 2024, 2063, 2064, 2126, 2127] + [rng.randrange(2000, 2128) for _ in range(cx.n(40, 128))]))
    for y in years:
        for m, d in [(1, 1), (12, 31), (rng.randrange(1, 13), rng.randrange(1, 29)), (2, 28), (8, 16)]:
            cases.append(("rev " + hexs(b"%04d-%02d-%02d" % (y, m, d)), ("rev", y, m, d)))
    for y in (2128, 2129, 2255, 2256, 2512, 9999, 1999, 1970, 1):       # outside the 7-bit year field: F70
        cases.append(("rev " + hexs(b"%04d-%02d-%02d" % (y, 6, 15)), ("rev", y, 6, 15)))
    cases.append(("rev -", ("rev", None, None, None)))

    # --- sibs
    for mod, names in sib_sets(cx, rng):
        cases.append(("sibs %s %s" % (hexs(mod), ",".join(hexs(n) for n in names)), ("sibs", mod, names)))

    cases = corpus_cases() + cases
    cases = list({c[0]: c for c in cases}.values())
    lines = ["%d lyb %s" % (i, c[0]) for i, c in enumerate(cases)]
    meta = {str(i): c[1] for i, c in enumerate(cases)}

    def kind(line, reply):
        op = line.split()[2]
        return "lyb:%s:%s" % (op, " ".join(reply[:2]) if reply[0] == "err" else (reply[-1] if reply[-1].startswith("rt=") else "ok"))

    def nontrivial(line, reply):
        t = line.split()
        if t[2] == "chunk":
            return True
        return True

    cx.rule("lyb white box: every well-nested start/stop/write(0..2) sequence of <= %d ops exhaustively; random sequences; payloads "
            "k*LYB_SIZE_MAX+{-4..4} (k<=3) at nesting 1-6 with prefixes that align/misalign the chunk ends of the open frames, split "
            "writes, up to %d empty inner frames; one frame skipped with lyb_skip_siblings; lyb_generate_hash on random module/node "
            "names and collision ids 0-10; lyht_hash on random bytes (sign extension); revision dates inside and outside 2000-2127; "
            "sibling sets with engineered truncated-hash collisions; non-trivial = distinct request" % (cx.n(5, 6), cx.n(1500, 4000)))
    ri, rm = cx.differential("lyb", lines, WB, kind=kind, canon=strip_why, timeout=cx.n(600, 3000))

    # ---- laws on the implementation's own replies
    for l in lines:
        i = l.split()[0]
        r, m, mt = ri.get(i, ["err", "NoReply"]), rm.get(i, ["err", "NoReply"]), meta[i]
        if r[:2] in (["err", "Crash"], ["err", "Timeout"]):
            continue
        if mt[0] == "chunk":
            if r[0] == "ok":
                cx.count(("chunk-law", l), True, "lyb:law:chunk-roundtrip", n=1)
                if "rt=1" not in r:
                    cx.fail("lyb", "chunk round trip through lyb_write*/lyb_read* does not return the payloads (%s)" % " ".join(r[3:]),
                            {"line": l, "reply": r, "model": m})
                elif crossings(mt[1]):
                    cx.dist["lyb:chunk:crossed-boundary"] += 1
            elif r[:2] == ["err", "EINT"]:
                # printer gives up: allowed only when an inner-chunk counter is exhausted
                if not any(o.startswith("x:") and int(o[2:]) > MAX for o in mt[1]) and l.count(",") < MAX:
                    cx.fail("lyb", "lyb_write* failed with LY_EINT on a sequence without inner-chunk exhaustion", {"line": l, "reply": r, "model": m})
        elif mt[0] == "skip":
            cx.count(("skip-law", l), True, "lyb:law:skip-lands-at-end", n=1)
            if r[0] == "ok" and "rt=1" not in r:
                cx.fail("lyb", "lyb_skip_siblings does not land at the end of the skipped frame (%s)" % " ".join(r[2:]),
                        {"line": l, "reply": r, "model": m, "op": "skip", "model_rt0": m[:2] == ["ok", "rt=0"]})
        elif mt[0] == "rev" and mt[1] is not None:
            y, mo, d = mt[1:]
            want = b"%04d-%02d-%02d" % (y, mo, d)
            cx.count(("rev-law", l), True, "lyb:law:revision-roundtrip", n=1)
            if r[0] != "ok" or unhex(r[2]) != want:
                cx.fail("lyb", "module revision does not survive LYB packing", {"line": l, "reply": r, "model": m, "op": "rev", "year": y})
        elif mt[0] == "sibs":
            mod, names = mt[1], mt[2]
            cx.count(("sibs-law", l), True, "lyb:law:hash-lookup", n=1)
            if r[0] == "ok":
                for k, tok in enumerate(r[1:]):
                    if tok.split(":")[1] != str(k):
                        cx.fail("lyb", "parser's first-match scan does not find the printed sibling", {"line": l, "reply": r, "sibling": k})
                        break
                if any(len(t.split(":")[0]) > 2 for t in r[1:]):
                    cx.dist["lyb:sibs:collision-sequence"] += 1
            elif r[:2] == ["err", "EINT"]:
                cx.fail("lyb", "lyb_hash_siblings fails (LY_EINT): valid data of this schema cannot be printed as LYB",
                        {"line": l, "reply": r, "op": "sibs", "mod": mod.decode(), "names": [n.decode() for n in names],
                         "total_collision": total_collision(mod, names)})
    for c in [x for x in cx.failures if x.get("case", {}).get("crash")]:
        pass


def corpus_cases():
    """corpus/lyb/wb.txt: request lines without id, run first"""
    out = []
    fn = os.path.join(paths.CORPUS, "lyb", "wb.txt")
    if not os.path.exists(fn):
        return out
    for l in open(fn):
        l = l.strip()
        if not l or l.startswith("#"):
            continue
        t = l.split()
        if t[0] == "chunk":
            out.append((l, ("chunk", [] if t[1] == "-" else t[1].split(","))))
        elif t[0] == "skip":
            out.append((l, ("skip", t[2].split(","), int(t[1]))))
        elif t[0] == "rev":
            if t[1] == "-":
                out.append((l, ("rev", None, None, None)))
            else:
                y, m, d = unhex(t[1]).decode().split("-")
                out.append((l, ("rev", int(y), int(m), int(d))))
        elif t[0] == "sibs":
            out.append((l, ("sibs", unhex(t[1]), [unhex(x) for x in t[2].split(",")])))
        else:
            out.append((l, (t[0],)))
    return out


def total_collision(mod, names):
    """two siblings with identical hashes for every collision id (the F27 condition)"""
    seqs = {}
    for n in names:
        k = tuple(lybhash.gen_hash(mod, n, i) for i in range(8))
        if k in seqs:
            return True
        seqs[k] = n
    return False


def find_colliding(rng, mod, depth, want, pool_len=(2, 4), tries=400000):
    """names (identifiers) whose hashes for collision ids 0..depth-1 coincide, found by search with the extracted hash"""
    seen = {}
    for _ in range(tries):
        n = (rng.choice(string.ascii_lowercase) + "".join(rng.choice(string.ascii_lowercase + string.digits)
                                                             for _ in range(rng.randrange(*pool_len)))).encode()
        key = tuple(lybhash.gen_hash(mod, n, i) for i in range(depth))
        grp = seen.setdefault(key, [])
        if n not in grp:
            grp.append(n)
            if len(grp) >= want:
                return grp
    return None


def sib_sets(cx, rng):
    out = []
    out.append((b"y", [b"en", b"d64"]))                 # F27 witness
    out.append((b"yy", [b"en", b"d64"]))
    out.append((b"mod", [b"a", b"q", b"gu", b"gx"]))
    for _ in range(cx.n(60, 600)):
        mod = "".join(rng.choice(string.ascii_lowercase) for _ in range(rng.choice([1, 2, 3, 3, 5, 8]))).encode()
        n = rng.choice([2, 3, 5, 10, 30, 60])
        names = []
        while len(names) < n:
            c = (rng.choice(string.ascii_lowercase) + "".join(rng.choice(string.ascii_lowercase + string.digits + "-") for _ in range(rng.randrange(0, 6)))).encode()
            if c not in names: names.append(c)
        out.append((mod, names))
    # engineered: groups colliding on ids 0..depth-1, mixed with fillers, in random order
    for _ in range(cx.n(25, 250)):
        mod = "".join(rng.choice(string.ascii_lowercase) for _ in range(rng.choice([3, 3, 4, 6]))).encode()
        depth = rng.choice([1, 1, 2, 2, 3])
        grp = find_colliding(rng, mod, depth, rng.choice([2, 2, 3]), tries=cx.n(60000, 400000))
        if not grp:
            continue
        names = list(grp)
        for _ in range(rng.randrange(0, 6)):
            c = ("f" + "".join(rng.choice(string.ascii_lowercase) for _ in range(4))).encode()
            if c not in names: names.append(c)
        rng.shuffle(names)
        out.append((mod, names))
    # many siblings (every low collision id is busy)
    for n in (120, 200, cx.n(250, 255)):
        out.append((b"big", [("n%d" % i).encode() for i in range(n)]))
    # one- and two-character module names: total collisions are likely (ids >= 1 resp. >= 2 hash the same bytes)
    for _ in range(cx.n(20, 200)):
        mod = "".join(rng.choice(string.ascii_lowercase) for _ in range(rng.choice([1, 1, 2]))).encode()
        grp = find_colliding(rng, mod, 2 if len(mod) == 1 else 3, 2, tries=cx.n(40000, 300000))
        if grp:
            out.append((mod, grp + [b"zz9"]))
    return out


# ----------------------------------------------------------------------------------------- classification
def classify(component, what, case):
    if component != "lyb" or not isinstance(case, dict):
        return None
    if case.get("op") == "skip" and case.get("model_rt0"):
        return "F69"         # exactly the modelled behaviour of lyb_skip_siblings
    if case.get("op") == "rev" and case.get("year") is not None and not (2000 <= case["year"] <= 2127):
        return "F70"
    if case.get("crash") and "printer_lyb.c" in case.get("stderr", "") and "left shift of negative value" in case.get("stderr", "") \
            and " rev " in (case.get("line") or ""):
        return "F70"
    if case.get("op") == "sibs" and case.get("total_collision"):
        return "F27"
    if case.get("op") == "api":
        return classify_api(what, case)
    if case.get("crash") and " lybapi " in (case.get("line") or ""):
        from checks import lybapi
        return lybapi.classify_crash(case)
    return None


def classify_api(what, case):
    if case.get("stage") == "length":
        r = case.get("reply", [])
        try:
            delta = int(r[2]) - int(r[3])
        except (IndexError, ValueError):
            return None
        if case.get("spec") == "-" and delta == 2:
            return "F71"         # empty data tree
        if case.get("kind") == "big" and delta > 0 and delta % 4 == 0:
            return "F69"         # trailing meta records of the last chunk not skipped
        return None
    if case.get("f27") and case.get("stage") == "print" :
        return "F27"
    if case.get("wd") in ("all-tag", "impl-tag") and case.get("has_default") and case.get("stage") in ("parse", "compare", "crash"):
        return "F33"
    if case.get("rev_out_of_range") and case.get("stage") in ("parse", "crash", "print"):
        return "F70"
    return None


def run_lyb(cx, want=("wb", "api")):
    if "wb" in want:
        run_wb(cx)
    if "api" in want:
        from checks import lybapi
        lybapi.run_api(cx)
