"""Correspondence + laws for component `yin` (generic statement layer of the YIN schema printer and parser): used by C10.

Requests go to harness/wb_yin.c (real `yprp_stmt`, `yprp_extension_instance`, `ypr_substmt` of printer_yin.c; `lyxml_ctx_new` +
`yin_parse_extension_instance` (+ `lysp_ext_instance_resolve_argument`) of parser_yin.c / xml.c / tree_schema_common.c) and to the
Lean model (LyModel/Yin); replies must be equal token for token.  The round-trip law of C10 (`yin_stmt_roundtrip`) is then
evaluated on the implementation's own replies: what libyang printed, with the namespace declarations a module element carries,
is parsed by libyang and compared with the tree that was printed."""
import os, re
from vlib import paths
from vlib.proto import hexs, unhex

HARNESS = "wb_yin"
COMP = "yin"

LYS_DOUBLEQUOTED, LYS_YIN_ATTR, LYS_YIN_ARGUMENT = 0x200, 0x400, 0x800
YIN_NS = b"urn:ietf:params:xml:ns:yang:yin:1"
NSDECL = b' xmlns="' + YIN_NS + b'" xmlns:g="urn:ga" xmlns:h="urn:gb" xmlns:u="urn:unknown"'

# boundary arguments: empty, blanks, markup and quotes, line breaks, tabs, CR, non-ASCII (2-, 3-, 4-byte), CDATA look-alikes,
# reference look-alikes, leading / trailing white space, a long line
ARGS = [b"", b" ", b"  ", b"a", b"a b", b"&<>\"'", b"<", b"&", b">", b"\"", b"'", b"\n", b"a\nb", b"\n\n", b"\t", b"a\tb", b" a ", b"\na\n",
        b"\r", b"\r\n", b"a\rb", b"\xc3\xa9", b"\xe2\x82\xac", b"\xf0\x90\x80\x80", b"na\xc3\xafve \xe2\x82\xac", b"]]>", b"<![CDATA[x]]>",
        b"&amp;", b"&#x41;", b"&lt;", b"a/b:c", b"x" * 70, b" \n\t ", b"\t\n", b"/>", b"</text>", b"--", b"<!-- c -->", b"<?pi?>", b"1", b"true"]


def stmt_table():
    """[(keyword, argname | None, yin-element?)] from Generated/YinArgs.lean (written by tools/extractors/yin.py on this run)"""
    src = open(os.path.join(paths.LEAN, "LyModel", "Generated", "YinArgs.lean")).read()
    body = src[src.index("def yinStmtTable"):src.index("def yinParseArgTable")]
    out = []
    for m in re.finditer(r"\(\[([\d, ]*)\] /- [^ ]+ -/, (none|some \[([\d, ]*)\]), (true|false)\)", body):
        kw = bytes(int(x) for x in m.group(1).split(",") if x.strip())
        an = None if m.group(2) == "none" else bytes(int(x) for x in m.group(3).split(",") if x.strip())
        out.append((kw, an, m.group(4) == "true"))
    return out


# ------------------------------------------------------------------------------------------ trees
# statement: (name, kw, arg, flags, kids) with kw = None (LY_STMT_NONE) | "E" (extension instance) | keyword bytes
def ser_stmt(s):
    name, kw, arg, flags, kids = s
    k = "N" if kw is None else "E" if kw == "E" else "K" + hexs(kw)
    return "S%s:%s:%s:%d{%s}" % (hexs(name), k, "N" if arg is None else hexs(arg), flags, "".join(ser_stmt(c) for c in kids))


def ser_stmts(l):
    return "".join(ser_stmt(s) for s in l) or "-"


# extension instance: (name, argname, yinelem, argument, exts, kids)
def ser_ext(e):
    name, an, ye, arg, exts, kids = e
    return "X%s:%s:%d:%s[%s]{%s}" % (hexs(name), "N" if an is None else hexs(an), 1 if ye else 0, "N" if arg is None else hexs(arg),
                                      "".join(ser_ext(x) for x in exts), "".join(ser_stmt(c) for c in kids))


def parse_ser(s):
    """reply syntax -> list of statements"""
    pos = [0]

    def stmts():
        out = []
        while pos[0] < len(s) and s[pos[0]] == "S":
            pos[0] += 1
            j = s.index("{", pos[0])
            n, k, a, fl = s[pos[0]:j].split(":")
            pos[0] = j + 1
            kids = stmts()
            assert s[pos[0]] == "}"
            pos[0] += 1
            out.append((unhex(n), None if k == "N" else "E" if k == "E" else unhex(k[1:]), None if a == "N" else unhex(a), int(fl), kids))
        return out
    if s == "-":
        return []
    r = stmts()
    assert pos[0] == len(s)
    return r


EXT_NAMES = [b"g:e1", b"g:e2", b"h:x", b"g:a-b.c_d", b"u:q"]


def gen_stmt(rng, table, depth, in_ext_parent=False):
    r = rng.random()
    kids = []
    if depth > 0 and rng.random() < 0.45:
        kids = [gen_stmt(rng, table, depth - 1) for _ in range(rng.randrange(1, 4))]
    if r < 0.72:
        kw, an, ye = rng.choice(table)
        arg = rng.choice(ARGS) if (an is not None or rng.random() < 0.1) else None
        if an is not None and rng.random() < 0.04:
            arg = None
        return (kw, kw, arg, rng.choice([0, 0x100, 0x200]) if arg is not None else 0, kids)
    if r < 0.93:
        arg = rng.choice(ARGS) if rng.random() < 0.5 else None
        return (rng.choice(EXT_NAMES), "E", arg, 0, kids)
    if r < 0.97:
        # what the YIN parser leaves behind: an attribute kept as a child (never printed by yprp_stmt)
        return (rng.choice([b"value", b"name", b"foo"]), None, rng.choice(ARGS), LYS_YIN_ATTR, [])
    kw, an, ye = rng.choice(table)
    return (b"yin:" + kw, kw, rng.choice(ARGS), 0x200, kids)


def gen_ext(rng, table, depth):
    name = rng.choice(EXT_NAMES[:4])
    mode = rng.randrange(3)
    an = None if mode == 0 else rng.choice([b"a", b"t", b"name", b"value", b"text", b"arg-1"])
    ye = mode == 2
    arg = None if an is None else rng.choice(ARGS)
    if an is not None and rng.random() < 0.03:
        arg = None
    exts = [gen_ext(rng, table, depth - 1) for _ in range(rng.randrange(1, 3))] if depth > 0 and rng.random() < 0.25 else []
    kids = [gen_stmt(rng, table, 2) for _ in range(rng.randrange(0, 4))] if rng.random() < 0.7 else []
    if rng.random() < 0.15:
        # children flagged as YIN attribute / YIN argument are skipped by the printer
        kids.insert(rng.randrange(len(kids) + 1), (an or b"x", None, b"v", LYS_YIN_ATTR | (LYS_YIN_ARGUMENT if rng.random() < 0.5 else 0), []))
    return (name, an, ye, arg, exts, kids)


# ------------------------------------------------------------------------------------------ expectation of the law
def is_xml_ws_only(b):
    return all(c in b" \t\n" for c in b)     # CR is written as &#xD;, which is not white space to the lexer


def norm_stmt(s):
    """what the round trip returns for a statement the theorem covers (`Yin.norm`)"""
    name, kw, arg, flags, kids = s
    fl = LYS_DOUBLEQUOTED if (kw not in (None, "E") and arg is not None) else 0
    return (name, kw, arg, fl, [norm_stmt(c) for c in kids])


def stmt_covered(s, table, parent=None):
    """reasons why the statement is outside the hypotheses of `yin_stmt_roundtrip` (`StmtOk`): a keyword statement is named by its
    keyword and has an argument iff the keyword has one; an extension-instance statement has no argument (else: F86, YIN part); no
    YIN-attribute children"""
    name, kw, arg, flags, kids = s
    out = []
    if kw is None:
        out.append("attr-child")
    elif kw == "E":
        if arg is not None and arg != b"":
            out.append("F86")
        if arg == b"":
            out.append("ext-empty-arg")
    else:
        an = dict((k, a) for k, a, y in table)[kw]
        if name != kw:
            out.append("prefixed-keyword")
        if (an is None) != (arg is None):
            out.append("arg-presence")
        if kw == b"value" and parent == b"error-message":
            out.append("F340")
    for c in kids:
        out += stmt_covered(c, table, kw)
    return out


def ext_covered(e, table):
    """reasons why the instance is outside the hypotheses of `yin_ext_roundtrip` (empty list: covered)"""
    name, an, ye, arg, exts, kids = e
    out = []
    if exts:
        out.append("F86")
        for x in exts:
            # (a nested instance comes back as a generic statement: what is inside it must at least be parseable)
            out += [r for r in ext_covered(x, table) if r != "F36"]
    if (an is None) != (arg is None):
        out.append("arg-presence")
    elif ye and is_xml_ws_only(arg):
        out.append("F36")
    for c in kids:
        if c[3] & (LYS_YIN_ATTR | LYS_YIN_ARGUMENT):
            continue
        out += stmt_covered(c, table)
    return sorted(set(out))


def inject_ns(xml, name):
    """the printed instance with the namespace declarations of the enclosing module element on its start tag"""
    i = xml.index(b"<" + name)
    j = i + 1 + len(name)
    return xml[:j] + NSDECL + xml[j:]


# ------------------------------------------------------------------------------------------ malformed / unusual documents
DOC_PIECES = [b"<g:e", NSDECL, b">", b"/>", b"</g:e>", b"<leaf", b' name="x"', b' value="v"', b" name='y'", b' g:p="1"', b' foo="1"', b"<units", b"</units>", b"</leaf>",
              b"<description>", b"</description>", b"<text>", b"</text>", b"<text/>", b"<te>", b"</te>", b"<error-message>", b"</error-message>", b"<value>", b"</value>",
              b"<g:x", b"</g:x>", b"<h:y>", b"</h:y>", b"<q:z/>", b"text", b" ", b"\n  ", b"<!-- c -->", b"<?pi x?>", b"<![CDATA[ ]]>", b"<![CDATA[t]]>", b"&lt;", b"&#x41;",
              b"&#x1;", b"&bad;", b' xmlns:q="urn:q"', b' xmlns="urn:other"', b' xmlns:g="urn:gb"', b' xmlns:g="urn:ga"', b"<input/>", b"<input>", b"</input>", b"<yin:leaf",
              b' xmlns:yin="' + YIN_NS + b'"', b"</yin:leaf>", b"<!DOCTYPE x>", b"<", b"\xff", b"=", b'"', b"<type name=\"t\">", b"</type>", b"<t/>", b"<value/>", b"<g:e2>", b"</g:e2>"]

DOC_SEEDS = [
    b'<g:e' + NSDECL + b'><units name="x">text<leaf name="l"/></units></g:e>',
    b'<g:e' + NSDECL + b'><description><text>a</text><text>b</text></description></g:e>',
    b'<g:e' + NSDECL + b'><error-message><value>a</value><value>b</value></error-message></g:e>',
    b'<g:e' + NSDECL + b'><te/></g:e>',
    b'<g:e' + NSDECL + b'><description><te>q</te></description></g:e>',
    b'<g:e' + NSDECL + b'><description><text>a<b/>c</text></description></g:e>',
    b'<g:e' + NSDECL + b' a="1" g:b="2"><!-- c --><?pi x?><leaf name="&#x41;&lt;" h:z="1" xmlns:q="urn:q"/></g:e>',
    b'<g:e' + NSDECL + b'><leaf name="a" name="b"/></g:e>',
    b'<g:e' + NSDECL + b'><leaf/></g:e>',
    b'<g:e' + NSDECL + b'>  text </g:e>',
    b'<g:e' + NSDECL + b'><![CDATA[  ]]><leaf name="x"/></g:e>',
    b"<e" + NSDECL + b"/>", b"<g:e" + NSDECL + b"/>", b"<g:e" + NSDECL + b">", b"<g:e" + NSDECL + b"></g:f>", b"", b"  ", b"</g:e>", b"<!-- x -->",
    b'<g:e' + NSDECL + b'><yin:leaf xmlns:yin="' + YIN_NS + b'" name="x"/></g:e>',
    b'<g:e' + NSDECL + b'><leaf xmlns="urn:other" name="x"/></g:e>',
    b'<g:e' + NSDECL + b'><g:t>  </g:t></g:e>', b'<g:e' + NSDECL + b'><g:t></g:t></g:e>', b'<g:e' + NSDECL + b'><g:t>a</g:t><g:t>b</g:t></g:e>',
    b'<g:e xmlns:g="urn:ga" xmlns:g="urn:ga"/>', b'<g:e xmlns:g="urn:ga" xmlns:g="urn:gb"/>', b'<g:e xmlns="a" xmlns="b" xmlns:g="urn:ga"/>',
]


def mutate(rng, doc):
    b = bytearray(doc)
    for _ in range(rng.randrange(1, 4)):
        r = rng.random()
        if not b:
            b += rng.choice(DOC_PIECES)
        elif r < 0.35:
            i = rng.randrange(len(b) + 1)
            b[i:i] = rng.choice(DOC_PIECES)
        elif r < 0.6:
            i = rng.randrange(len(b))
            del b[i:i + rng.randrange(1, 6)]
        elif r < 0.8:
            i = rng.randrange(len(b))
            b[i] = rng.choice(b"<>/=\"' &;:a-\n\x01\xc3")
        else:
            i, j = sorted((rng.randrange(len(b)), rng.randrange(len(b))))
            b[i:i] = b[i:j][:40]
    return bytes(b).replace(b"\x00", b"")


# ------------------------------------------------------------------------------------------ run
def run_yin(cx):
    rng = cx.sub_rng("yin-run")
    table = stmt_table()
    if len(table) < 60:
        cx.fail(COMP, "generated keyword table too small", {"n": len(table)})
        return
    cx.rule("yin: statement trees = every keyword of the generated table (lys_stmt_str/arg/flags) as an extension substatement with every boundary "
            "argument (empty, blanks, &<>\"', line breaks, tabs, CR, non-ASCII, CDATA / reference look-alikes) and without argument, plus random trees "
            "(keywords, prefixed extension keywords with and without argument, YIN-attribute children, depth <= 3) under format/level combinations; "
            "extension instances with no argument / attribute argument / yin-element argument, nested instances, hidden children; ypr_substmt for every "
            "keyword; every printed instance is parsed back (namespace declarations added to the start tag) by libyang and by the model, and the "
            "argument resolved; malformed documents = seeds + piece/byte mutations of printed documents; non-trivial = distinct request")
    cases, ext_cases = [], []
    # every keyword x boundary argument (fixed layout), and once more inside a parent with random layout
    for kw, an, ye in table:
        for a in ARGS + [None]:
            st = (kw, kw, a, 0x200 if a is not None else 0, [])
            cases.append("prstmt 1 1 " + ser_stmt(st))
            e = (b"g:e1", b"a", False, b"x", [], [st])
            ext_cases.append((1, 1, 0, e))
        st = (kw, kw, rng.choice(ARGS) if an is not None else None, 0, [(b"g:e1", "E", None, 0, []), (b"units", b"units", b"u", 0x200, [])])
        cases.append("prstmt %d %d %s" % (rng.randrange(2), rng.choice([0, 2, 65535]), ser_stmt(st)))
        ext_cases.append((rng.randrange(2), rng.randrange(3), rng.randrange(2), (b"h:x", None, False, None, [], [st])))
        for a in rng.sample(ARGS, 4) + [None]:
            exts = [gen_ext(rng, table, 0) for _ in range(rng.randrange(0, 3))]
            cases.append("prsub %d %d %s %s %s" % (rng.randrange(2), rng.choice([0, 1, 3]), hexs(kw), "N" if a is None else hexs(a),
                                                 "".join(ser_ext(x) for x in exts) or "-"))
    for a in ARGS + [None]:
        for an, ye in ((None, False), (b"a", False), (b"t", True)):
            arg = a if an is not None else None
            ext_cases.append((1, 1, 0, (b"g:e2", an, ye, arg, [], [])))
            ext_cases.append((1, 0, 1, (b"g:e2", an, ye, arg, [], [(b"units", b"units", b"u", 0x200, [])])))
    # directed: the witnesses of the listed findings (F36, F86 YIN part, F340)
    ext_cases.append((1, 1, 0, (b"g:e2", b"t", True, b"", [], [])))
    ext_cases.append((1, 1, 0, (b"g:e1", b"a", False, b"x", [], [(b"g:e1", "E", b"y", 0, [])])))
    ext_cases.append((1, 1, 0, (b"g:e1", b"a", False, b"x", [], [(b"error-message", b"error-message", b"m", 0x200, [(b"value", b"value", b"1", 0, [])])])))
    for _ in range(cx.n(600, 20000)):
        trees = [gen_stmt(rng, table, 3) for _ in range(rng.randrange(1, 4))]
        cases.append("prstmt %d %d %s" % (rng.randrange(2), rng.choice([0, 1, 2, 5, 65534, 65535]), ser_stmts(trees)))
    for _ in range(cx.n(700, 20000)):
        ext_cases.append((rng.randrange(2), rng.choice([0, 1, 2, 4]), rng.randrange(2), gen_ext(rng, table, 2)))
    for fmt, lvl, po, e in ext_cases:
        cases.append("prext %d %d %d %s" % (fmt, lvl, po, ser_ext(e)))
    cases = list(dict.fromkeys(cases))
    lines = ["%d %s %s" % (i, COMP, c) for i, c in enumerate(cases)]

    def kind(line, reply):
        return "yin:%s:%s" % (line.split()[2], reply[0] if reply[0] == "ok" else reply[1])

    ri, rm = cx.differential(COMP, lines, HARNESS, kind=kind)
    by_req = {" ".join(l.split()[2:]): ri.get(l.split()[0]) for l in lines}

    # second batch: what libyang printed goes back through libyang's parser (and the model's); malformed documents
    reqs, meta = [], []
    docs = list(DOC_SEEDS)
    seen = set()
    for fmt, lvl, po, e in ext_cases:
        r = by_req.get("prext %d %d %d %s" % (fmt, lvl, po, ser_ext(e)))
        if not r or r[0] != "ok":
            continue
        xml = unhex(r[1])
        if po:
            xml = xml[2:] if xml.startswith(b">\n") else xml
        try:
            doc = inject_ns(xml, e[0])
        except ValueError:
            continue
        key = (doc, e[1], e[2])
        if key in seen:
            continue
        seen.add(key)
        reqs.append("%d %s parse %s" % (len(reqs), COMP, hexs(doc))); meta.append(("parse", e, doc))
        reqs.append("%d %s resolve %s %s %d" % (len(reqs), COMP, hexs(doc), "N" if e[1] is None else hexs(e[1]), 1 if e[2] else 0)); meta.append(("resolve", e, doc))
        if len(docs) < cx.n(400, 6000):
            docs.append(doc)
    nseed = len(DOC_SEEDS)
    for i in range(cx.n(2500, 60000)):
        base = docs[i % len(docs)] if i % 3 else docs[rng.randrange(min(len(docs), nseed))]
        reqs.append("%d %s parse %s" % (len(reqs), COMP, hexs(mutate(rng, base)))); meta.append(("mut", None, None))
    for d in DOC_SEEDS:
        reqs.append("%d %s parse %s" % (len(reqs), COMP, hexs(d))); meta.append(("mut", None, None))

    def kind2(line, reply):
        t = line.split()
        m = meta[int(t[0])][0]
        return "yin:%s-%s:%s" % (t[2], "printed" if m != "mut" else "malformed", reply[0] if reply[0] == "ok" else reply[1])

    ri2, rm2 = cx.differential(COMP, reqs, HARNESS, kind=kind2)
    # `YinOk` (Lean: `Yin.extOk` / `Yin.yinOkList`, the hypothesis of yin_ext_roundtrip / yin_stmt_roundtrip) evaluated by the model on
    # every generated instance and every generated statement forest
    okreq, okmeta = [], []
    for fmt, lvl, po, e in ext_cases:
        okreq.append("%d %s extok %s" % (len(okreq), COMP, ser_ext(e))); okmeta.append(("ext", ser_ext(e)))
    for c in cases:
        if c.startswith("prstmt "):
            okreq.append("%d %s yinok %s" % (len(okreq), COMP, c.split()[3])); okmeta.append(("stmts", c.split()[3]))
    rok = cx.run_model(okreq)
    lean_ok, nyes = {}, {"ext": [0, 0], "stmts": [0, 0]}
    for i, (what, key) in enumerate(okmeta):
        r = rok.get(str(i), ["err", "NoReply"])
        if r[0] != "ok":
            cx.fail(COMP, "the model did not evaluate YinOk", {"request": okreq[i][:300], "reply": r})
            continue
        v = r[1] == "1"
        if what == "ext":
            lean_ok[key] = v
        nyes[what][0] += v; nyes[what][1] += 1
        cx.count(("yinok", what, key), True, "yin:YinOk:%s:%s" % (what, "holds" if v else "not"))
    cx.notes.append("yin: YinOk holds on %d of %d generated extension instances and %d of %d generated statement forests" %
                    (nyes["ext"][0], nyes["ext"][1], nyes["stmts"][0], nyes["stmts"][1]))
    # the law, on libyang's replies
    for i, (what, e, doc) in enumerate(meta):
        if what != "resolve":
            continue
        r = ri2.get(str(i), ["err", "NoReply"])
        cov = ext_covered(e, table)
        name, an, ye, arg, exts, kids = e
        want_kids = [norm_stmt(c) for c in kids if not c[3] & (LYS_YIN_ATTR | LYS_YIN_ARGUMENT)]
        ok = False
        if r[0] == "ok":
            got = parse_ser(r[3])
            vis = [c for c in got if not c[3] & (LYS_YIN_ATTR | LYS_YIN_ARGUMENT)]
            ok = unhex(r[1]) == name and (None if r[2] == "N" else unhex(r[2])) == arg and vis == want_kids
        lok = lean_ok.get(ser_ext(e), False)
        if lok and cov:
            cx.fail(COMP, "YinOk (Lean) holds although the generator's own reasons say the instance is outside", {"ext": ser_ext(e), "outside": cov})
        cx.count(("yin-rt", doc, an, ye), True, "yin:roundtrip:%s:%s" % ("YinOk" if lok else "covered" if not cov else "outside(" + "+".join(cov) + ")", "holds" if ok else "fails"))
        if not ok and (lok or set(cov) <= {"F36", "F86", "F340"}):
            head_ok = r[0] == "ok" and unhex(r[1]) == name and (None if r[2] == "N" else unhex(r[2])) == arg
            cx.fail(COMP, "yin_stmt_roundtrip: libyang's YIN parser does not return the extension instance its YIN printer wrote",
                    {"law": "yin_stmt_roundtrip", "ext": ser_ext(e), "doc_hex": hexs(doc), "reply": r[:3], "outside": cov, "head_ok": head_ok,
                     "request": "resolve %s %s %d" % (hexs(doc), "N" if an is None else hexs(an), 1 if ye else 0)})


def run_card(cx):
    """the emission patterns of Generated/YinCard.lean against what libyang prints: the YIN text of every module of the C10 module run
    (real modules + generated ones, printed by lys_print through api_schema) is read with expat, and for every <leaf>, <typedef>,
    <container> element the sequence of child-statement keywords (`-` = an element of another namespace, an extension instance) must be
    an emission of the generated pattern — `Yin.Card.isEmission`, evaluated by the Lean driver — and pass the parser's rules (`cardOk`)"""
    import xml.etree.ElementTree as ET
    mods, rr = getattr(cx, "_c10_mods", None), getattr(cx, "_c10_rr", None)
    if not mods or rr is None:
        return
    Y = "{" + YIN_NS.decode() + "}"
    seqs = {}           # (kind, sequence) -> (count, example module)
    ntot = {"leaf": 0, "typedef": 0, "container": 0}
    nparsed = 0
    for i, m in enumerate(mods):
        r = rr.get(str(2 * i), ["err"])
        if r[0] != "ok" or len(r) < 11 or r[10] == "-":
            continue
        try:
            root = ET.fromstring(unhex(r[10]))
        except ET.ParseError:
            continue            # (a YIN text that is not well-formed is a failure of the yin_parse law already)
        nparsed += 1
        for el in root.iter():
            if not isinstance(el.tag, str) or not el.tag.startswith(Y):
                continue
            kind = el.tag[len(Y):]
            if kind not in ntot:
                continue
            seq = tuple((c.tag[len(Y):].encode() if c.tag.startswith(Y) else b"") for c in el if isinstance(c.tag, str))
            ntot[kind] += 1
            k = (kind, seq)
            seqs[k] = (seqs.get(k, (0, None))[0] + 1, seqs.get(k, (0, m["name"]))[1] or m["name"])
    keys = sorted(seqs)
    lines = ["%d %s card %s %s" % (i, COMP, kind, ",".join(hexs(x) for x in seq) if seq else ".") for i, (kind, seq) in enumerate(keys)]
    rm = cx.run_model(lines)
    for i, (kind, seq) in enumerate(keys):
        r = rm.get(str(i), ["err", "NoReply"])
        ok = r[:3] == ["ok", "1", "1"]
        cx.count(("yin-card", kind, seq), True, "yin:emission:%s:%s" % (kind, "matches" if ok else "differs"))
        if not ok:
            cx.fail(COMP, "the child statements libyang's YIN printer writes for a %s are not an emission of the generated pattern "
                          "(Generated/YinCard.lean yinEmit_%s) or break the parser's cardinality rules" % (kind, kind),
                    {"law": "yin-emission", "kind": kind, "children": [x.decode() or "(extension instance)" for x in seq],
                     "model": r, "seen": seqs[(kind, seq)][0], "module": seqs[(kind, seq)][1].decode("utf-8", "replace"), "request": lines[i].split(" ", 1)[1]})
    cx.notes.append("yin emission patterns: %d YIN texts read; child sequences checked / distinct: %s" %
                    (nparsed, ", ".join("%s %d / %d" % (k, ntot[k], sum(1 for kk in keys if kk[0] == k)) for k in sorted(ntot))))


def classify(component, what, case):
    """F36: yin-element argument that is empty or XML white space only (the argument resolution reports it missing); F86 (YIN part):
    an extension instance nested in an extension instance (ext->exts, or a prefixed statement with an argument among the
    substatements) comes back as a generic statement with a YIN-attribute child: name and argument of the outer instance are right,
    the substatements differ"""
    if case.get("law") != "yin_stmt_roundtrip":
        return None
    outside = case.get("outside") or []
    if "F36" in outside and case.get("reply", [])[:2] == ["err", "Resolve"] and \
            re.search(rb"<([\w.-]+:[\w.-]+)>[ \t\n]*</\1>", unhex(case.get("doc_hex", "-"))):
        return "F36"
    if "F340" in outside and case.get("reply", [])[:2] == ["err", "Int"] and \
            re.search(rb"<error-message>\s*<value>[^<]*</value>(?s:.)*<value value=", unhex(case.get("doc_hex", "-"))):
        return "F340"
    if "F86" in outside and case.get("head_ok"):
        return "F86"
    return None
