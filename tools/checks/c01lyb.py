"""C01 (LYB part) stand-alone: `python3 tools/vcheck.py C01LYB`.  The integrator calls lybcomp.run_lyb from c01.py."""
from checks import lybcomp

LEAN_TARGETS = ["LyModel.Props.C01Lyb"]
AUDIT = "Audit/C01Lyb.lean"
GENERATED = ["Consts", "LybConsts"]
ASSUMPTIONS = [
    "plain `char` is signed on the build target (lyht_hash_multi adds key bytes as signed char); schema identifiers are ASCII, so LYB hashes do not depend on it",
    "the memory ly_out / ly_in behave as a growable byte array with positional patching (ly_write_skip / ly_write_skipped), which is what the item-list model of the writer abstracts; checked byte-exactly by wb_lyb, and against the buffered FILE output path",
    "lyb_chunk_roundtrip is conditional on the printer not returning LY_EINT (an inner-chunk counter at LYB_INCHUNK_MAX); that case is executed, not proved impossible",
]
TRUSTED = ["tools/extractors/lyb.py (revision masks, Jenkins shift amounts)", "tools/checks/lybhash.py (independent hash used only to engineer collisions)"]


def classify(component, what, case):
    return lybcomp.classify(component, what, case)


run = lybcomp.run_lyb
