"""Shared piece of check C08: white-box correspondence of libyang's XPath tokenizer / grammar check (`lyxp_expr_parse`, reparse_* in
src/xpath.c, driven by harness/wb_xpath.c ops `xplex`, `xpparse`) with the Lean model (driver ops of the same names), and the route
text -> Lean parser -> AST (`xpast`) / AST -> Lean renderer -> text (`xprender`) against the python AST renderers of xpcomp.

  xplex <expr>    -> ok <n> (<kind>:<pos>:<len>)*            | err Lex
  xpparse <expr>  -> ok <n> (<kind>:<pos>:<len>:<repeat>)*   | err Lex | err Parse
  xpast <expr>    -> ok <hex of the prefix form>             | err Lex | err Parse        (model only)
  xprender <hex of the prefix form> -> ok <hex of the text>                               (model only)

Strings are byte strings (the malformed list contains invalid UTF-8); no generated string contains a NUL byte."""
import itertools
from vlib.proto import hexs, unhex
from checks import xpcomp as X

COMP = "xpath"
HARNESS = "wb_xpath"
CHUNK = 60000

# ----------------------------------------------------------------------------------------------------------------------
# token micro-alphabet: one item (or more) for every branch of the tokenizer loop of lyxp_expr_parse
ALPHABET = [b"a", b"*", b"or", b"and", b"div", b"mod", b"(", b")", b"[", b"]", b"/", b"//", b".", b"..", b"@", b",", b"::", b"child", b"self",
            b"node", b"text", b"comment", b"count", b"not", b"-", b"+", b"=", b"!=", b"<", b">=", b"|", b"'s'", b'"d"', b"1", b".5", b"5.", b"$v",
            b"p:q", b"p:*", b":", b" ", b"!", b"a-b.c", "é".encode()]
# one representative per tokenizer class, for the longer enumeration of the thorough tier
CORE = [b"a", b"*", b"or", b"and", b"div", b"(", b")", b"[", b"]", b"/", b"//", b".", b"..", b"@", b",", b"::", b"child", b"node", b"count", b"-", b"=",
        b"<", b"|", b"'s'", b"1", b".5", b"$v", b"p:q", b":", b" "]

# argument counts accepted by reparse_function_call (min, max; None = unbounded)
FUNCS = [("not", 1, 1), ("sum", 1, 1), ("lang", 1, 1), ("last", 0, 0), ("name", 0, 1), ("true", 0, 0), ("count", 1, 1), ("false", 0, 0), ("floor", 1, 1),
         ("round", 1, 1), ("deref", 1, 1), ("concat", 2, None), ("number", 0, 1), ("string", 0, 1), ("boolean", 1, 1), ("ceiling", 1, 1), ("current", 0, 0),
         ("contains", 2, 2), ("position", 0, 0), ("re-match", 2, 2), ("substring", 2, 3), ("translate", 3, 3), ("local-name", 0, 1), ("enum-value", 1, 1),
         ("bit-is-set", 2, 2), ("starts-with", 2, 2), ("derived-from", 2, 2), ("namespace-uri", 0, 1), ("string-length", 0, 1), ("normalize-space", 0, 1),
         ("substring-after", 2, 2), ("substring-before", 2, 2), ("derived-from-or-self", 2, 2)]
AXIS_NAMES = ["self", "child", "parent", "ancestor", "attribute", "following", "namespace", "preceding", "descendant", "ancestor-or-self",
              "following-sibling", "preceding-sibling", "descendant-or-self"]


def enumerated(cx):
    """[(class tag, length in items, bytes)]: every concatenation of <= L alphabet items, directly and (strings without the blank item)
    joined by single spaces.  quick: L = 3 over ALPHABET; thorough: additionally L = 4 over CORE."""
    out = []
    L = 3
    for n in range(1, L + 1):
        for t in itertools.product(ALPHABET, repeat=n):
            out.append(("enum", n, b"".join(t)))
            if n > 1 and b" " not in t:
                out.append(("enum-spaced", n, b" ".join(t)))
    if cx.n(0, 1):
        for t in itertools.product(CORE, repeat=4):
            out.append(("enum-core", 4, b"".join(t)))
            if b" " not in t:
                out.append(("enum-core-spaced", 4, b" ".join(t)))
    return out


def random_strings(cx):
    rng = cx.sub_rng("xptok")
    out = []
    glue = [b"", b"", b"", b" ", b" ", b"  ", b"\t", b"\n"]
    for _ in range(cx.n(20000, 300000)):
        n = rng.choice([4, 5, 6])
        parts = []
        for i in range(n):
            parts.append(rng.choice(ALPHABET))
            if i + 1 < n: parts.append(rng.choice(glue))
        out.append(("random", n, b"".join(parts)))
    return out


def nest(open_, close, k, core=b"1"):
    return open_ * k + core + close * k


def malformed():
    """boundary and malformed inputs written by hand (every item is one case of class `hand`)"""
    m = []
    A = m.append
    # literals
    for s in ["'", '"', "'a", '"a', "a'", "'a\"", "\"a'", "'a\"b'", "\"a'b\"", "''", '""', "'''", "''''", "'a''b'", "'a'\"b\"", "'a' 'b'", "'('", "']'", "'a'b",
              "a'b'", "1's'", "'s'1", "'\t\n'", "' '", "concat('a',\"b\")", "'\x01'", "'\x7f'", "'--'", "'or'", "a['s']", "a[\"'\"]", "a['\"']"]:
        A(s.encode())
    # invalid UTF-8 / name character boundaries: at the start, after a name, inside a literal, as variable, after a prefix, after an axis
    bad = [b"\x80", b"\xbf", b"\xff", b"\xfe", b"\xc3", b"\xe2\x82", b"\xf0\x9f\x98", b"\xc0\x80", b"\xc1\xbf", b"\xe0\x80\x80", b"\xf0\x80\x80\x80", b"\xf4\x90\x80\x80",
           b"\xf8\x88\x80\x80\x80", b"\xed\xa0\x80", b"\xed\xbf\xbf", b"\xc3\x28", b"\xe2\x28\xa1"]
    cps = [0xb7, 0xd7, 0xf7, 0xc0, 0xd6, 0xd8, 0xf6, 0xf8, 0x2ff, 0x300, 0x36f, 0x370, 0x37d, 0x37e, 0x37f, 0x1fff, 0x2000, 0x200b, 0x200c, 0x200d, 0x200e, 0x203e, 0x203f,
           0x2040, 0x2041, 0x206f, 0x2070, 0x218f, 0x2190, 0x2bff, 0x2c00, 0x2fef, 0x2ff0, 0x3000, 0x3001, 0xd7ff, 0xe000, 0xf8ff, 0xf900, 0xfdcf, 0xfdd0, 0xfdef,
           0xfdf0, 0xfffd, 0xfffe, 0xffff, 0x10000, 0xeffff, 0xf0000, 0x10ffff, 0xa0, 0x85, 0x2028, 0x7f, 0x1f, 0x1, 0xb, 0xc]
    good = [chr(c).encode("utf-8") for c in cps]
    for b in bad + good:
        A(b); A(b"a" + b); A(b"a" + b + b"b"); A(b"'" + b + b"'"); A(b"'" + b); A(b"$" + b); A(b"$a" + b); A(b"p:" + b); A(b"p:a" + b); A(b"child::" + b)
        A(b"a " + b); A(b"a/" + b); A(b + b":a"); A(b + b"(1)"); A(b + b"::a"); A(b"a or" + b); A(b"1" + b); A(b"@" + b)
    # white space and control characters
    for s in ["a\tor\nb", "a\ror\r\nb", "\ta", "a\t", "\n", "\t \r\n", " a ", "  a  or  b  ", "a\x0bb", "a\x0cor b", "a\x01b", "\x1f", "a\x7f", "a or\tb", "a[\n1\n]",
              "count(\ta\n,\rb )", "a /\tb", "a\t/b", "/\ta", "- 1", "-\n1", "a or b", "a b"]:
        A(s.encode())
    # numbers
    for s in ["1.2.3", "1..2", "..5", "5..", ".", "..", "...", "....", ".5.", ".5.5", "5.5.", "1.", "1.a", "1a", "1e3", "1E3", "1.e3", "0x10", "00", "007", "1 2", "1.5", "0.5", ".0", "0.",
              "1.2.3.4", "1 . 2", ". 5", "5 .", ".. 5", "./.5", "../5.", "-.5", "-5.", "+1", "1+.5", "1-.5", "1.-1", "12345678901234567890123456789", "1." + "0" * 60, "." + "9" * 60,
              "1[1]", "1[1]/a", "1/a", "1//a", "1(2)", ".5[1]", "1.5.", "1.5..", "1 div 2", "1div2", "1 div2", "1div 2", "4mod3", "4 mod 3", "1or2", "1and2", "1 or2", "1or 2"]:
        A(s.encode())
    # names, prefixes, axes, variables
    for s in (["a-b", "a.b", "a1", "a-", "a.", "a-.", "-a", ".a", "1a", "_", "_a", "a_b", "a--b", "a..b", "a.-b", "a - b", "a -b", "a- b", "a-b-c.d.e", "a:b:c", "a:b:", "a::", "a:", ":a", "::a",
              ":", "::", ":::", "*:a", "*:*", "a:*", "a:*:b", "a:**", "**", "***", "* *", "a:b*", "a :b", "a: b", "a : b", "p:or", "or:p", "p:1", "p:-a", "p:.a", "p:'s'", "p:(", "p:node()",
              "p:text()", "p:count(a)", "a::b", "child::", "child ::a", "child:: a", "child :: a", "child::a",
              # the neighbourhood of the repairs of F350 / F351 / F352 (both variants of the source must agree with the model)
              "child  ::  a/b", "child :: *", "child\n::\ta", "child :: p:a", "child :: p:*", "child :: text()", "child :: node ()", "foo :: a", "child :: ",
              "child : : a", "child :a", "child : a", "child :: *:a", "child::*:a", "child::*:*", "@*:a", "* : a", "*:", "/*:a", "a :b", "a: b", "a : b",
              "10 div-2", "10 div -2", "a or-b", "a or.", "a or.5", "a and.", "1 mod.5", "a ororb", "a or or", "a or or b", "a orb or c", "a div", "a divb",
              "self ::node()", "ancestor-or-self :: a", "attribute :: a", "@ a", "@\ta", "child::*", "child::p:a", "child::p:*", "child::node()", "child::text()",
              "child::comment()", "child::count(a)", "child::node", "child::or", "child::child", "child::child::a", "child::@a", "child::.", "child::..", "child::1", "child::'s'",
              "child::$v", "child::-a", "child::/a", "child::(a)", "child:a", "child:::a", "child::a::b", "@child::a", "@a", "@*", "@p:a", "@p:*", "@node()", "@text()", "@@a", "@", "@ a",
              "@1", "@.", "@(a)", "@/a", "a/@b", "a//@b", "a[@b]", "@a/b", "@a[1]", "$", "$a", "$a:b", "$ a", "$a b", "$a/b", "$a[1]", "$a[1]/b", "$a//b", "$a(1)", "$$a", "$1", "$-a", "$*",
              "$a-b", "$a.b", "$or", "$a or $b", "$a|$b", "-$a", "$a:*", "$a::b", "$child::a", "a/$b", "a[$b]", "count($a)", "Child::a", "CHILD::a", "chil::a", "children::a", "childs::a"]
             + [ax + "::a" for ax in AXIS_NAMES] + [ax + "::*" for ax in AXIS_NAMES] + ["a/" + ax + "::node()" for ax in AXIS_NAMES] + [ax for ax in AXIS_NAMES]
             + [ax + "::" for ax in AXIS_NAMES] + [ax + "(a)" for ax in AXIS_NAMES] + [ax[:-1] + "::a" for ax in AXIS_NAMES] + [ax + "x::a" for ax in AXIS_NAMES]
             + [ax.replace("-", "_") + "::a" for ax in AXIS_NAMES if "-" in ax]):
        A(s.encode())
    # operator names and `*` after / not after an operand (XPath 1.0 §3.7 disambiguation), operator names glued to names
    for s in ["a orb", "a andb", "1 mod3", "a divb", "a or", "or", "or or or", "div div div", "and and and", "mod mod mod", "* * *", "a * * *", "a * *", "* *", "*", "a*b", "a*", "*a", "a**b",
              "a ora", "a or-b", "a or.b", "a or..", "a or.5", "a or/b", "a or@b", "a or$b", "a or(b)", "a or[b]", "a or'b'", "a or*", "a or b", "aor b", "a orr b", "a o r b", "a OR b",
              "a Or b", "a And b", "a DIV b", "a and-b", "a and.", "a mod-1", "a div.5", "a div-.5", "a mod*", "a div*", "a mod/b", "a andand b", "a and and", "a and and b", "a or or b",
              "a or or", "or or", "or or or or", "or or or or or", "a div div", "a div div div b", "a mod div and or b", "and", "div", "mod", "and or", "or and", "or and div", "div mod and",
              "(or)", "[or]", "a[or]", "a[or or or]", "a[div]", "count(or)", "count(div)", "or(1)", "and(1)", "div(1)", "mod(1)", "or()", "a/or", "a/or/b", "a//and", "/or", "/ or", "/ and b",
              "/ or b", "/ div 2", "/div", "/ *", "/*", "/ * 2", "/* 2", "/ * * 2", "//*", "// *", "//* * 2", "a/*", "a/ *", "a /*", "a / * / b", "@or", "@div", "@*", "@* * 2", "child::or or or",
              "child::* * 2", "p:* * 2", "p:or or p:or", "or:or or or:or", "(a) or (b)", "(a)or(b)", "(a)and(b)", "(a)div(b)", "(a)mod(b)", "(a)*(b)", "[a]or", "a]or", ")or", ") or a", "] or a",
              "'a'or'b'", "'a' or'b'", "1or1", ".or.", "..or..", ". or .", "..div..", ".div.", ".*.", "..*..", ". * .", "$a or$b", "$aor $b", "a=or", "a=or or or", "a!=div", "a<mod", "a<=and",
              "a|or", "a|or|and", "a+or", "a-or", "a -or", "a - or", "-or", "- or", "--or", "- - or", "or-or", "or - or", "or -or", "or- or", "a,or", "node or text", "node() or text()",
              "text or", "comment and comment", "node* 2", "node * 2", "node() * 2", "text()* 2", "a *", "a * ", "* a", "1 *", "* 1", "1 * 1", "1*1", "1 ** 1", "1 * * 1", "a * * b", "a * * * b",
              "a* * *b", "a/* * b/*", "a/** b", "*[*]", "*[* * *]", "*/*", "*//*", "*|*", "* | *", "* or *", "* div *", "*div*", "*mod*", "*and*", "*or*", "* * * * *", "* * * *", "a mod mod mod",
              "a and or", "a or and", "a = = b", "a == b", "a != = b", "a !== b", "a ! = b", "a !b", "!a", "a!", "a =! b", "a < = b", "a > = b", "a <> b", "a >< b", "a << b", "a >> b", "a <= b",
              "a >= b", "a<=b", "a>=b", "a<b", "a>b", "a < b < c", "a = b = c", "a != b != c", "a < b = c > d", "a = b < c != d", "a => b", "a =< b", "a || b", "a | | b", "a |", "| a", "|", "a | b",
              "a|b", "(a)|(b)", "a | b | c", "a|b/c", "a/b|c", "1 | a", "a | 1", "'s' | a", "a | 's'", "-a | b", "a | -b", "$a | b", "count(a) | b", "(a | b)/c", "(a | b)[1]", "a + b", "a+b",
              "a + -b", "a - -b", "a--b", "a - - b", "a + + b", "a ++ b", "+a", "a +", "a -", "-", "+", "--", "- -", "--a", "- - a", "---a", "-(a)", "-(-a)", "- (a)", "-a-b", "-a - -b", "a-1",
              "a -1", "a - 1", "1-a", "1 -a", "1- a", "a[1]-1", "(a)-1", "a/b-1", "a/b -1", "-a/b", "-/a", "-//a", "-/", "-.", "-..", "-.5", "-'s'", "-count(a)", "-@a", "-*", "- *", "-* * 2"]:
        A(s.encode())
    # node types and function calls
    for s in ["node(", "node ()", "node()", "node( )", "node (  )", "node", "node)", "node()(", "node()()", "node(1)", "node('a')", "node(a)", "node(())", "node()[1]", "node()/a", "node()//a",
              "a/node()", "a//node()", "//node()", "/node()", "text()", "text ()", "text( )", "text", "text(1)", "text()[1]", "a/text()", "a/text", "a/text/b", "comment()", "comment ()", "comment",
              "comment('x')", "a/comment()", "processing-instruction()", "processing-instruction('x')", "processing-instruction", "a/processing-instruction()", "nodes()", "nod()", "Node()",
              "NODE()", "texts()", "tex()", "comments()", "commen()", "node-()", "node.()", "node1()", "p:node()", "node:p()", "@node()", "@text()", "@comment()", "self::node()", "self::text()",
              "self::comment()", "self::processing-instruction()", "self::node", "self::node ()", "self::node( )", "self:: node()", "self ::node()", "a(", "a()", "a(1)", "a (1)", "a( 1 )",
              "a(1", "a)", "(a", "a(1))", "a((1)", "()", "( )", "(())", "(1)", "((1))", "(1)(2)", "(1)[1]", "(1)/a", "(a)b", "(a) b", "a (b)", "a(b)c", "count (a)", "count\n(a)", "count\t(\ta\t)",
              "count(a)", "count( a )", "count(a", "count a)", "count", "count a", "count)a(", "count(a))", "count((a))", "count((a)", "count(a)(b)", "count(a)[1]", "count(a)/b", "count(a)//b",
              "count(a)[1]/b", "count(a) (b)", "count(a,)", "count(,a)", "count(,)", "count(a b)", "count(a,b)", "count(a,,b)", "count(a;b)", "count(a) + 1", "count(a)+1", "1 + count(a)",
              "count(count(a))", "count(a | b)", "count(a or b)", "count(-a)", "count(*)", "count(@*)", "count(.)", "count(..)", "count(/)", "count(//a)", "count('s')", "count(1)", "count($v)",
              "Count(a)", "COUNT(a)", "coun(a)", "counts(a)", "count-(a)", "count.(a)", "count1(a)", "p:count(a)", "count:p(a)", "_count(a)", "nop(1)", "sun(a)", "sum(a)", "sum(a,b)", "lang('en')",
              "last()", "last(1)", "last ( )", "last", "last()[1]", "last()-1", "last() - 1", "last()- 1", "position()=last()", "position() = last() - 1", "position()mod 2", "position()mod2",
              "true()", "true", "true(1)", "false()", "not(true())", "not()", "not(a,b)", "not(not(not(a)))", "not (a)", "not a", "not(a) and not(b)", "boolean(a)", "string()", "string(a)",
              "string(a,b)", "concat(a)", "concat(a,b)", "concat(a,b,c)", "concat(a,b,c,d,e,f,g,h,i,j,k,l,m)", "concat()", "concat(,)", "concat(a,b,)", "concat('a', 'b', \"c\")",
              "substring(a)", "substring(a,1)", "substring(a,1,2)", "substring(a,1,2,3)", "translate(a,b,c)", "translate(a,b)", "translate(a,b,c,d)", "current()", "current()/a",
              "current()[1]", "current()//a", "current()/..", "current(1)", "current", "current()()", "deref(a)", "deref(a)/b", "deref()", "deref(a,b)", "re-match(a,b)", "re-match(a)",
              "re-match (a,b)", "re -match(a,b)", "re- match(a,b)", "re-match", "enum-value(a)", "bit-is-set(a,'b')", "bit-is-set(a)", "derived-from(a,'b')", "derived-from-or-self(a,'b')",
              "derived-from-or-self(a)", "derived-from-or(a,'b')", "derived-from-or-sel(a,'b')", "derived-from-or-selfx(a,'b')", "namespace-uri()", "namespace-uri(a)", "namespace-uri(a,b)",
              "local-name()", "local-name(a)", "local-name(a, b)", "name()", "name(a)", "name(a,b)", "id('a')", "id(a)", "key('a','b')", "document('a')", "format-number(1,'0')", "foo()",
              "foo(1)", "foo(1,2)", "foo:bar()", "foo:bar(1)", "f()", "f()/a", "f(a)/b", "x(", "xy(", "abc()", "lan('en')", "lang()", "nam()", "tru()", "las()", "floo(1)", "floor(1)", "floor()",
              "floor(1,2)", "round(1)", "round(.5)", "ceiling(1)", "ceiling()", "number()", "number(a)", "number(a,b)", "string-length()", "string-length(a)", "string-length(a,b)",
              "normalize-space()", "normalize-space(a)", "normalize-space(a,b)", "starts-with(a,b)", "starts-with(a)", "starts-with(a,b,c)", "contains(a,b)", "contains(a)",
              "contains(a,b,c)", "substring-before(a,b)", "substring-before(a)", "substring-after(a,b)", "substring-after(a,b,c)", "position()", "position(1)", "position ()"]:
        A(s.encode())
    # argument-count boundaries of every function of the table
    for (f, lo, hi) in FUNCS:
        top = (hi if hi is not None else 4) + 1
        for k in sorted(set([0, max(0, lo - 1), lo, top - 1, top])):
            A(("%s(%s)" % (f, ", ".join(["a"] * k))).encode())
        A((f + " (a)").encode()); A((f + "x(a)").encode()); A((f[:-1] + "(a)").encode()); A(f.encode()); A((f.upper() + "(a)").encode())
        A(("a/%s(a)" % f).encode()); A(("child::%s(a)" % f).encode()); A(("p:%s(a)" % f).encode())
    # paths, steps, predicates, filter expressions
    for s in ["/", "//", "///", "////", "/ /", "/ //", "// /", "/.", "/..", "/./.", "/../..", "//.", "//..", "/a", "//a", "/a/", "/a//", "a/", "a//", "a///b", "a/ /b", "a//b", "a/b", "a / b",
              "a // b", "a/ b", "a /b", "a/./b", "a/../b", "a/.//b", "./a", "../a", ".//a", "..//a", "./.", "../..", ".../a", "a/...", "./", "../", ".//", "..//", "./..", ".[1]", "..[1]",
              "a[1]", "a[1][2]", "a[1][2][3]", "a[]", "a[", "a]", "a[[1]]", "a[1]]", "a[[1]", "a[1", "a 1]", "[1]", "[]", "[", "]", "][", "a[1]b", "a[1] b", "a[1]/b", "a[1]//b", "a[1]/", "a[1]//",
              "a[b[c[d]]]", "a[b][c]/d[e]/f", "a[b/c]", "a[/b]", "a[//b]", "a[/]", "a[.]", "a[..]", "a[.=1]", "a[. = 's']", "a[@b='c']", "a[b = 'c'][d = \"e\"]", "a[1 or 2]", "a[b and c]",
              "a[-1]", "a[1,2]", "a[,]", "a[(1)]", "a[(b)]", "a[count(b)]", "a[count(b) = 1]", "a[last()]", "a[position() < 3]", "(a)[1]/b", "(a)/b", "(a)//b", "(a)[1]", "(a)[1][2]",
              "(a)[1]//b", "(a)[1]/", "(a)/", "(a)//", "(a)b", "(a).", "(a)/.", "(a)/..", "(a)/@b", "(a)/child::b", "(a)/node()", "(a)/text()", "(a)/*", "(a)/(b)", "(a)/1", "(a)/'s'",
              "(a)/$v", "(a)/count(b)", "(a)//(b)", "a/(b)", "a/(b|c)", "a/count(b)", "a/1", "a/'s'", "a/$v", "a//1", "1[1]", "'s'[1]/a", "'s'[1]", "'s'/a", "'s'//a", "$v[1]/a", "$v/a",
              "$v//a", "f()/a", "count(a)/b", "(1)[1]", "(1)/a", "('s')/a", "($v)/a", "(/)", "(/)/a", "(//a)", "(/a)[1]", "(/)[1]", "/[1]", "//[1]", "/(a)", "//(a)", "/1", "/'s'", "/$v", "/count(a)",
              "/@a", "//@a", "/child::a", "//child::a", "/node()", "//node()", "/text()", "//text()", "/*", "//*", "/p:a", "/p:*", "//p:a", "/a/b/c/d/e/f/g/h/i/j/k/l/m/n/o/p/q/r/s/t",
              "/ or /", "/ | /", "/|/", "/ | a", "a | /", "/ = /", "/=/", "/ = a", "/ and /", "/ and / and /", "/ div /", "/ * /", "/*/", "/ + /", "/+/", "/ - /", "/-/", "/-a", "/ -a",
              "/ < /", "/</", "/,/", "(/, /)", "count(/, /)", "concat(/, /)", "concat(/,/)", "concat(/ ,/)", "/)", "/]", "a[/]", "a[/ ]", "(/ )", "(/)", "/ )", "// or", "//or", "// and a",
              "a and /", "a and //", "a or / or b", "a = / = b", "/ /a", "/a /b", "/a / b", "/ a", "// a", "/  a", "/\ta", "/\na", "a\n/\nb", ". /a", ". / a", "./ a", ".. / ..", "a/ .", "a/ ..",
              "a /.", "@ a", "@\ta", "a/@ b", "child::a/child::b", "child::a/@b", "self::a", "parent::a/..", "a/self::node()/b", "a/descendant-or-self::node()/b",
              "descendant-or-self::node()/a", "/descendant-or-self::node()/a", "ancestor-or-self::*[1]", "following-sibling::a[1]/preceding-sibling::b[last()]", "attribute::a",
              "attribute::*", "a/attribute::b", "a[attribute::b]", "a,b", "a,", ",a", ",", "a;b", "a{b}", "a#b", "a%b", "a&b", "a\\b", "a^b", "a`b", "a~b", "a?b", "#", "%", "&", ";", "?", "\\",
              "^", "`", "{", "}", "~"]:
        A(s.encode())
    # nesting depth (LYXP_MAX_BLOCK_DEPTH = 100): parentheses, predicates, function calls, mixed; the expression itself is depth 1
    for k in (1, 2, 50, 98, 99, 100, 101, 102, 150):
        A(nest(b"(", b")", k)); A(nest(b"a[", b"]", k)); A(nest(b"not(", b")", k)); A(nest(b"(a[not(", b")])", (k + 2) // 3)); A(nest(b"-(", b")", k))
        A(nest(b"(", b")", k, b"a") + b"/b"); A(nest(b"(", b")", k) + b"[1]"); A(nest(b"( ", b" )", k)); A(nest(b"(", b")", k, b"1 or 2")); A(nest(b"a[b[", b"]]", k // 2, b"c"))
        A(b"1 + " + nest(b"(", b")", k)); A(nest(b"(", b")", k) + b" + 1"); A(nest(b"count(", b")", k, b"a")); A(nest(b"concat(a, ", b")", k, b"b")); A(nest(b"a[1][", b"]", k))
        A(nest(b"(", b"", k)); A(nest(b"", b")", k)); A(nest(b"a[", b"", k)); A(nest(b"(", b")", k, b""))
    # long operator chains (repeat arrays, growth of the token arrays in steps of LYXP_EXPR_SIZE_STEP)
    for k in (2, 3, 9, 10, 11, 14, 15, 16, 200):
        for op in [b"+", b"-", b"*", b" div ", b" mod ", b" or ", b" and ", b"=", b"!=", b"<", b">=", b"|", b"/", b"//", b" + ", b" | ", b" * "]:
            A(op.join([b"a"] * k)); A(op.join([b"1"] * k))
        A(b"- " * k + b"1"); A(b"-" * k + b"1"); A(b"-" * k + b"a|b"); A(b"a" + b"[1]" * k); A(b"(a)" + b"[1]" * k); A(b"$v" + b"[1]" * k + b"/b"); A(b"/" + b"/".join([b"a[1]"] * k))
        A(b" or ".join([b"a and b"] * k)); A(b" and ".join([b"a or b"] * k)); A(b" = ".join([b"a < b"] * k)); A(b" + ".join([b"a * -b"] * k)); A(b" | ".join([b"a/b"] * k))
        A(b"concat(" + b", ".join([b"a"] * k) + b")"); A(b"a" * k); A(b" " * k + b"a" + b" " * k); A(b"'" + b"x" * k + b"'"); A(b"1" * k + b"." + b"2" * k)
        A(b"a or b and c = d != e < f <= g + h - i * j div k mod -l | m" + b" or 1" * k)
    return m


# ----------------------------------------------------------------------------------------------------------------------
# ASTs.  xpcomp.Gen generates type-directed expressions over SCHEMA1; `syntactic` then re-labels steps for the parser's sake (all 12 axes + attribute,
# every node test, `//` anywhere, names that collide with operator names / node types / axis names / function names, non-ASCII and dotted names).
TRICKY_NAMES = ["or", "and", "div", "mod", "node", "text", "comment", "child", "self", "count", "not", "a-b.c", "é", "_x", "x1", "processing-instruction", "o", "an", "di"]


def norm(e):
    """normal form reached by parsing the rendered text: a filter start without steps is the inner expression, a filter without predicates likewise"""
    k = e[0]
    if k in ("lit", "num") or (k == "fn" and e[1] == "$"): return e
    if k == "fn": return ("fn", e[1], [norm(a) for a in e[2]])
    if k == "neg": return ("neg", norm(e[1]))
    if k == "bin": return ("bin", e[1], norm(e[2]), norm(e[3]))
    if k == "filter":
        return ("filter", norm(e[1]), [norm(p) for p in e[2]]) if e[2] else norm(e[1])
    if k == "path":
        start, steps = e[1], [(a, t, [norm(p) for p in ps], ds) for (a, t, ps, ds) in e[2]]
        if isinstance(start, tuple):
            if not steps: return norm(start[1])
            start = ("E", norm(start[1]))
        return ("path", start, steps)
    raise ValueError(k)


def syntactic(rng, e, p=0.25):
    k = e[0]
    S = lambda x: syntactic(rng, x, p)
    if k == "fn" and e[1] == "$": return e
    if k in ("lit", "num"):
        return ("fn", "$", [("lit", rng.choice(["v", "or", "a-b.c", "é", "node", "x1"]))]) if rng.random() < p / 3 else e
    if k == "fn": return ("fn", e[1], [S(a) for a in e[2]])
    if k == "neg": return ("neg", S(e[1]))
    if k == "bin": return ("bin", e[1], S(e[2]), S(e[3]))
    if k == "filter": return ("filter", S(e[1]), [S(x) for x in e[2]])
    if k == "path":
        start = ("E", S(e[1][1])) if isinstance(e[1], tuple) else e[1]
        steps = []
        for (axis, test, preds, ds) in e[2]:
            if rng.random() < p: axis = rng.choice(X.AXES)
            if rng.random() < p:
                test = rng.choice([("a",), ("o",), ("t",), ("c",), ("m", rng.choice(["xpa", "p", "or"])), ("n", None, rng.choice(TRICKY_NAMES)),
                                   ("n", rng.choice(["xpa", "p", "div", "child"]), rng.choice(TRICKY_NAMES))])
            if rng.random() < p / 2: ds = not ds
            steps.append((axis, test, [S(x) for x in preds], ds))
        return ("path", start, steps)
    raise ValueError(k)


def random_cursor(rng):
    cur, kids = [], X.SCHEMA1
    while kids and rng.random() < 0.7:
        n = rng.choice(kids)
        cur.append(n); kids = n["kids"]
    return cur


def gen_asts(cx):
    """cx.n(1500, 20000) distinct ASTs in normal form: half straight from xpcomp.Gen, half re-labelled by `syntactic`"""
    if getattr(cx, "_xp_asts", None) is not None:
        return cx._xp_asts
    rng = cx.sub_rng("xpast")
    want = cx.n(1500, 20000)
    out, seen = [], set()
    xml, vals = X.gen_tree(rng, X.SCHEMA1, density=0.8, maxinst=3)
    g = X.Gen(rng, X.SCHEMA1, vals)
    guard = 0
    while len(out) < want and guard < 20 * want:
        guard += 1
        e = g.expr("any", rng.choice([1, 2, 3, 3]), random_cursor(rng) if rng.random() < 0.8 else None)
        if X.size(e) > 60: continue
        if guard % 2: e = syntactic(rng, e)
        e = norm(e)
        key = X.prefix(e)
        if key in seen: continue
        seen.add(key)
        out.append(e)
    cx._xp_asts = out
    return out


def ast_texts(cx, asts):
    """[(class, ast index, text)]: every AST rendered canonically and with random abbreviation / parenthesisation"""
    rng = cx.sub_rng("xprender")
    out = []
    for i, e in enumerate(asts):
        out.append(("ast-canon", i, X.render(e).encode()))
        out.append(("ast-random", i, X.render(e, rng).encode()))
    return out


def mutants(cx, asts):
    """near-misses of well-formed expressions: one or two edits (insert an alphabet item, delete / duplicate / swap a few bytes, cut) of an AST's text"""
    rng = cx.sub_rng("xpmut")
    out = []
    if not asts: return out
    for _ in range(cx.n(8000, 100000)):
        e = rng.choice(asts)
        t = bytearray(X.render(e, rng).encode())
        if len(t) > 120: continue
        for _ in range(rng.choice([1, 1, 2])):
            i = rng.randrange(len(t) + 1)
            j = min(len(t), i + rng.choice([1, 1, 2, 3]))
            x = rng.random()
            if x < 0.4: t[i:i] = rng.choice(ALPHABET)
            elif x < 0.65: del t[i:j]
            elif x < 0.75: t[i:i] = t[i:j]
            elif x < 0.85: t[i:j] = rng.choice(ALPHABET)
            elif x < 0.93 and i < len(t): t[i:j] = bytes(reversed(t[i:j]))
            else: del t[i:]
        if t: out.append(("mutant", 0, bytes(t)))
    return out


# ----------------------------------------------------------------------------------------------------------------------
def token_strings(cx):
    """[(class, length, bytes)] of everything that is not derived from an AST, de-duplicated (first class wins)"""
    seen, out = set(), []
    for (c, n, s) in enumerated(cx) + [("hand", 0, s) for s in malformed()] + random_strings(cx) + mutants(cx, gen_asts(cx)):
        if s in seen or b"\x00" in s: continue
        seen.add(s)
        out.append((c, n, s))
    return out


def outcome(a):
    return "accepted" if a[0] == "ok" else " ".join(a[:2])


def run_lines(cx, items, tag, keep=lambda c: True):
    """items: [(op, class, length, bytes)] -> differential in chunks; returns {(op, bytes): implementation reply} for the classes selected by `keep`"""
    res = {}
    for start in range(0, len(items), CHUNK):
        part = items[start:start + CHUNK]
        lines, meta = [], {}
        for k, (op, c, n, s) in enumerate(part):
            lid = "%s%d" % (tag, start + k)
            lines.append("%s %s %s %s" % (lid, COMP, op, hexs(s)))
            meta[lid] = (op, c, n, s)

        def kind(l, a):
            op, c, n, s = meta[l.split(None, 1)[0]]
            return "xptok:%s:%s%s:%s" % (op, c, (":len%d" % n) if n else "", outcome(a))
        ri, rm = cx.differential(COMP, lines, HARNESS, kind=kind, nontrivial=lambda l, a: a[0] == "ok")
        for lid, (op, c, n, s) in meta.items():
            if keep(c): res[(op, s)] = ri.get(lid, ["err", "NoReply"])
    return res


def run_tokens(cx, extra=()):
    """(K) tokenizer and grammar check: the same strings through lyxp_expr_parse (wb_xpath) and the Lean model.
    extra: [(class, bytes)] more texts (the Lean renderer's output, see run_ast_route)."""
    toks = token_strings(cx)
    asts = gen_asts(cx)
    seen, items = set(), []
    for (c, i, s) in ast_texts(cx, asts) + [(c, 0, s) for (c, s) in extra]:
        if s in seen: continue
        seen.add(s)
        items.append(("xpparse", c, 0, s))
    items += [("xpparse", c, n, s) for (c, n, s) in toks if s not in seen]
    nlex = 0
    for (c, n, s) in toks:
        if (c in ("enum", "enum-spaced") and n <= 2) or c == "hand":
            items.append(("xplex", c, n, s)); nlex += 1
    cx.rule("xptok: ALL concatenations of <= 3 items of a %d-item token alphabet (one item or more per branch of the tokenizer loop of lyxp_expr_parse: names, "
            "operator names, node types, function names, axis names, `::`, `:`, prefixed names and wildcards, both literal quotes, the three number shapes, `$v`, every "
            "operator and bracket, blank, `!`, a dotted and a non-ASCII name) written without separator and, when no item is the blank, joined by single blanks%s; %d random "
            "strings of 4-6 items with random white space; %d near-misses (1-2 byte-level edits of rendered ASTs); %d hand-written boundary strings (unterminated literals, invalid / boundary UTF-8 in every position, control "
            "characters, number shapes, `a:b:c`, `*:a`, white space around `::`, operator names glued to names, node types and all %d functions at their argument-count "
            "boundaries, nesting depth 98..102 of parentheses / predicates / calls, chains of 200 operators); the canonical and a randomly abbreviated / parenthesised "
            "rendering of %d generated ASTs; all through `xpparse` (tokens + repeat arrays or Lex / Parse), the strings of <= 2 items and the hand-written ones also through "
            "`xplex` (%d); non-trivial = distinct string the implementation accepts"
            % (len(ALPHABET), " (thorough: also <= 4 items of a %d-item core alphabet)" % len(CORE) if cx.n(0, 1) else "", sum(1 for t in toks if t[0] == "random"),
               sum(1 for t in toks if t[0] == "mutant"), sum(1 for t in toks if t[0] == "hand"), len(FUNCS), len(asts), nlex))
    res = run_lines(cx, items, "p", keep=lambda c: c.startswith("ast-") or c.startswith("lean-"))
    # every AST text must be accepted by the implementation: the renderers only write XPath 1.0
    for (op, c, n, s) in items:
        if c.startswith("ast-") or c.startswith("lean-"):
            a = res.get((op, s), ["err", "NoReply"])
            if a[0] != "ok" and a[:2] != ["err", "Crash"]:
                cx.fail(COMP, "lyxp_expr_parse rejects the rendering of a generated XPath 1.0 expression", {"text": s.decode("utf-8", "replace"), "class": c, "impl": a})
    r = cx.run_impl(HARNESS, ["lk %s leakcheck" % COMP], component=COMP)
    if r.get("lk") != ["ok", "0"]:
        cx.notes.append("wb_xpath leakcheck: %s" % (r.get("lk"),))
    return res


def run_ast_route(cx):
    """text -> Lean parser -> AST equals the python AST (prefix form) for both renderings of every generated AST; the Lean renderer's text of the AST
    parses back to the same AST, and goes through the implementation's tokenizer as well (returned as extra texts for run_tokens)."""
    asts = gen_asts(cx)
    texts = ast_texts(cx, asts)
    want = [X.prefix(e) for e in asts]
    lines = []
    for k, (c, i, t) in enumerate(texts):
        lines.append("a%d %s xpast %s" % (k, COMP, hexs(t)))
    for i, e in enumerate(asts):
        lines.append("r%d %s xprender %s" % (i, COMP, hexs(want[i])))
    for i, e in enumerate(asts):
        lines.append("t%d %s xprendert %s" % (i, COMP, hexs(want[i])))
    rm = {}
    for start in range(0, len(lines), CHUNK):
        rm.update(cx.run_model(lines[start:start + CHUNK]))
    ok = 0
    for k, (c, i, t) in enumerate(texts):
        b = rm.get("a%d" % k, ["err", "NoReply"])
        cx.count(("xpast", t), b[0] == "ok", "xpast:%s:%s" % (c, outcome(b)))
        if b != ["ok", hexs(want[i])]:
            cx.disagree(COMP, lines[k], ["python-ast", hexs(want[i])], b)
        else:
            ok += 1
    extra, lines2, idx = [], [], []
    for i, e in enumerate(asts):
        b = rm.get("r%d" % i, ["err", "NoReply"])
        cx.count(("xprender", want[i]), b[0] == "ok", "xprender:%s" % outcome(b))
        if b[:2] == ["err", "NotWf"]:
            continue        # no canonical text in the Lean renderer's fragment (variables, non-ASCII names, literals with both quotes, ...): counted above
        if b[0] != "ok" or len(b) != 2:
            cx.disagree(COMP, lines[len(texts) + i], ["python-ast", "renderable"], b)
            continue
        t = unhex(b[1])
        extra.append(("lean-render", t))
        lines2.append("b%d %s xpast %s" % (i, COMP, b[1])); idx.append(i)
    # the TIGHT text of the Lean renderer (Render.renderT, parse_render_tight_roundtrip): no blank that followOk lets go; it must never need
    # its single-blank fallback, must parse back to the AST, and goes through lyxp_expr_parse as well
    for i, e in enumerate(asts):
        b = rm.get("t%d" % i, ["err", "NoReply"])
        cx.count(("xprendert", want[i]), b[0] == "ok", "xprendert:%s" % outcome(b))
        if b[:2] == ["err", "NotWf"]:
            continue
        if b[0] != "ok" or len(b) != 3:
            cx.disagree(COMP, "xprendert %s" % hexs(want[i]), ["python-ast", "renderable"], b)
            continue
        if b[2] != "0":
            cx.fail(COMP, "the tight renderer needed its single-blank fallback (Render.tightBs does not satisfy Render.Spacing)",
                    {"tight_fallback": True, "ast": want[i], "text": b[1]})
        extra.append(("lean-tight", unhex(b[1])))
        lines2.append("c%d %s xpast %s" % (i, COMP, b[1])); idx.append(i)
    rm2 = {}
    for start in range(0, len(lines2), CHUNK):
        rm2.update(cx.run_model(lines2[start:start + CHUNK]))
    for l, i in zip(lines2, idx):
        b = rm2.get(l.split()[0], ["err", "NoReply"])
        cx.count(("xpast-of-xprender", want[i]), b[0] == "ok", "xpast-of-xprender:%s" % outcome(b))
        if b != ["ok", hexs(want[i])]:
            cx.disagree(COMP, l, ["python-ast", hexs(want[i])], b)
    cx.rule("xpast: %d generated ASTs (xpcomp.Gen, half of them with steps re-labelled: all 13 axes, every node test, `//` anywhere, names equal to operator names, "
            "node types, axis and function names, dotted and non-ASCII names), each rendered canonically and with random abbreviation / parentheses by python and "
            "canonically by the Lean renderer; the Lean parser must return the AST (prefix form) from all three texts; the three texts also go through "
            "lyxp_expr_parse, which must accept them" % len(asts))
    if lines:
        cx.sample(lines[cx.rng.randrange(len(lines))])
    return extra
