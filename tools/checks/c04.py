"""C04 — a data tree stays in canonical, searchable form under any sequence of edits.

(P) theorems of LyModel/Props/C04.lean about the sibling-list model `Sib`;
(K) correspondence: edit scripts through harness/wb_tree.c (+ a sample through harness/api_tree.c) and the model;
(L) laws evaluated on the implementation: the consistency battery after every op (links, schema order, sorted order,
    every search function vs manual scan, children_ht content, red-black tree / lyds metadata) and permutation
    independence of the final tree.
"""
import itertools, json, os
from checks import sibcomp
from checks.sibcomp import WB, API, request, split_reply, vbits
from vlib import paths
from vlib.proto import hexs

LEAN_TARGETS = ["LyModel.Props.C04", "LyModel.Props.C04Rb", "LyModel.Props.C04Mk", "LyModel.Props.C04Dup"]
AUDIT = "Audit/C04.lean"
GENERATED = ["Consts"]
ASSUMPTIONS = [
    "lyd_hash is modelled as injective on (schema, key) (abstract hash keys): 32-bit collisions are outside the model",
    "in the sibling-list model the red-black tree of a system-ordered (leaf-)list is abstracted by its in-order sequence = the "
    "instance block; stage 2 (Props/C04Rb) proves that abstraction for insertion AND removal (Rb.insert / Rb.remove mirror "
    "rb_insert_node/rb_insert_color and rb_remove/rb_remove_color case by case; Rb.find mirrors rb_find; the shapes — colours, "
    "pre-order, value:serial — the position of the lyds_tree metadata and the sibling order are compared with the real "
    "structure after EVERY op of insert/unlink scripts, op rbs); lyds_merge (bulk move of a whole list onto present "
    "instances) is Rb.mergeTree, compared the same way (op rbm); the lyds_pool of lyd_dup_siblings_to_parent / "
    "lyd_merge is not in the Lean model: the white-box harness checks in-order = sibling order and the red-black "
    "invariants on the real structure after every op",
    "key types of the generated schemas: int32, uint8, string (type plugins' sort callbacks: numeric / strcmp); lists with 1, 2 and 3 keys",
    "lists with several keys: the model key is the tuple of the key-leaf values compared key by key (Key.tup); lyd_new_list2, "
    "lyd_new_path (container / list-with-all-keys / final-leaf paths), lyd_find_sibling_val by all keys and lyd_change_term of a "
    "key leaf are modelled and compared (family multikey, schema S4)",
    "ops outside the model's fragment (lyd_move_nodes of a multi-node list in the forest layer, dup, merge, validate, implicit, "
    "opaque nodes through insert_before/after, second key leaf) are judged by the C-side battery only; lyds_split and "
    "lyd_merge DESTRUCT (lyds pool, lyds_insert2) are compared at the red-black shape level (ops s<idx>, rbd)",
]
TRUSTED = ["harness/sib_common.h consistency battery (written against the public structures, ordering oracle independent of libyang)"]

WITNESS = {
    # children sl=1, sl=2, a, b (hash table exists); change sl=1 -> 5: stale record under the old hash
    "F19": ("S1", ["new,1,-,saa:c,-", "new,2,1,saa:sll,31", "new,3,1,saa:sll,32", "new,4,1,saa:a,78", "new,5,1,saa:b,78", "change,2,35"], 16),
    # lyd_insert_sibling(sibling, node) with node = first sibling of that list: node ends in a one-element ring
    "F112": ("S1", ["new,1,-,saa:c,-", "new,2,1,saa:a,78", "new,3,1,saa:b,78", "ins_sibling,2,3"], None),
    # opaque node linked among data nodes by lyd_insert_before: linear searches stop at it
    "F141": ("S1", ["new,1,-,saa:c,-", "new,2,1,saa:ull,31", "new,3,1,saa:ull,32", "newopaq,4,-,oq,-", "ins_before,4,2"], None),
    # a second key leaf re-hashes the list instance and indexes it again without removing the old record
    "F142": ("S1", ["new,1,-,saa:c,-", "new,2,1,saa:sl,31", "new,3,1,saa:a,78", "new,4,1,saa:b,78", "new,5,1,saa:e,78", "new,6,2,saa:k,37"], None),
    # implicit top-level node of the second module inserted relative to the module's first node
    "F45": ("S1", ["new,7,-,saa:c,-", "new,11,-,sbb:tb,42", "ins_sibling,11,7", "validate,7"], None),
    # lyd_move_nodes: the first source node is not system-ordered, a later one is and has a leader in the destination
    "F144": ("S3", ["new,1,-,scc:tl,30", "new,2,-,scc:c,-", "ins_sibling,1,2", "new,3,-,scc:c,-", "new,4,-,scc:tl,35", "ins_sibling,4,3", "ins_sibling,3,1"], None),
    # bulk move, source list with a sorting tree, destination instance without one and followed by a leaf: the leaf is put into the tree
    "F164": ("S2", ["new,1,-,szz:c,-", "new,2,1,szz:sl,61", "new,3,1,szz:sl,62", "new,4,1,szz:a,61", "unlinksibs,2", "unlink,3",
                    "ins_child,3,1", "new,5,1,szz:b,78", "ins_child,2,1"], None),
    # the same move onto a duplicated leaf-list (leader with empty lyds metadata): the empty metadata stays behind
    "F165": ("S2", ["new,1,-,szz:c,-", "new,2,1,szz:sll,61", "new,3,1,szz:sll,62", "new,4,-,szz:c,-", "dupsib,2,4,0", "unlinksibs,2",
                    "ins_child,2,4"], 64),
    # lyd_dup_siblings into a parent that holds an instance: the later duplicates are missing from the sorting tree
    "F166": ("S1", ["new,1,-,saa:c,-", "new,2,1,saa:sll,35", "new,3,-,saa:c,-", "new,4,3,saa:sll,36", "new,5,3,saa:sll,38", "dupsib,4,1,0",
                    "new,20,1,saa:sll,37", "new,21,1,saa:sll,39"], 68),
    # lyd_merge_tree with two opaque nodes in the source: NULL dereference in lyht_dup_inst_ht_equal_cb
    "F145": ("S3", ["new,8,-,scc:c,-", "new,4,-,scc:c,-", "newopaq,1,8,zz,-", "new,6,4,scc:dv,3130", "newopaq,11,8,a,76", "merge_opaq,8,4,4"], None),
}


def classify(component, what, case):
    """A failing case carries `attrib`: the finding whose trigger the harness / the model saw at or before the failing op
    (X:Fnn markers are printed by the harness from the real structures before the call; for F19 in the differential runs the
    model — which mirrors the defect — shows the same verdict at the same op).  Anything without a trigger is unclassified."""
    if component != "sib":
        return None
    a = case.get("attrib")
    return a if a in ("F19", "F112", "F141", "F142", "F45", "F144", "F145", "F164", "F165", "F166") else None


# ------------------------------------------------------------------------------------------------ helpers
def ops_state_changed(groups):
    return any(g and g[0] == "SUCCESS" for g in groups)


def strip_marks(g):
    marks = []
    while g and g[0].startswith("X:"):
        marks.append(g[0][2:])
        g = g[1:]
    return marks, g


def verdict_of(g):
    if len(g) > 1 and g[1].startswith("V"):
        try:
            return int(g[1][1:])
        except ValueError:
            return None
    return None


def differential_scripts(cx, schs, scripts, variant, harness=WB, kind="random", quick_search=False):
    """scripts: list of (schema name, ops). Same request to harness and model; compare op by op."""
    v = variant + ("q" if quick_search else "")
    reqs = [request(i, schs[sn], ops, v) for i, (sn, ops) in enumerate(scripts)]
    ri = sibcomp.run_impl_scripts(cx, harness, reqs)
    rm = cx.run_model(reqs)
    for i, (sn, ops) in enumerate(scripts):
        di, gi = split_reply(ri.get(str(i)))
        dm, gm = split_reply(rm.get(str(i)))
        key = (sn, tuple(ops))
        if gi is None or gm is None:
            cx.count(key, False, "sib:%s:noreply" % kind)
            cx.disagree("sib", reqs[i][:300], (ri.get(str(i)) or ["none"])[:3], (rm.get(str(i)) or ["none"])[:3])
            continue
        if di != dm:
            cx.disagree("sib", "schema descriptor " + sn, [di[:80]], [dm[:80]])
        cx.count(key, ops_state_changed(gi), "sib:%s:%s" % (kind, harness))
        f19_seen = False
        for k, op in enumerate(ops):
            opn = op.split(",")[0]
            if k >= len(gi) or (gi[k] and gi[k][-1] == "HANG"):
                # the harness died (sanitizer abort / hang) inside op k
                cx.fail("sib", "harness aborted in op %d (%s) of an edit script" % (k, opn),
                        {"schema": sn, "ops": ops[:k + 1], "attrib": "F19" if f19_seen else None, "crash": True})
                break
            a, b = gi[k], gm[k] if k < len(gm) else ["none"]
            cx.dist["sib:op:%s:%s" % (opn, a[0] if a else "?")] += 1
            va, vb = verdict_of(a), verdict_of(b)
            if va or vb:
                # the model (mirroring lyd_change_node_value as written) shows a stale hash-table record: F19 state
                if vb:
                    f19_seen = True
                if va:
                    # a law fails on the implementation at this op
                    if vb == va or (f19_seen and not (va & ~(16 | 8))):
                        attrib = "F19"
                    else:
                        attrib = None
                    cx.fail("sib", "consistency check fails after op %d (%s): %s" % (k, opn, vbits(va)),
                            {"schema": sn, "ops": ops[:k + 1], "verdict": va, "model_verdict": vb, "attrib": attrib})
                    if attrib is None:
                        break
                elif harness == WB:
                    # the white-box harness must see what the model predicts
                    cx.disagree("sib", ";".join(ops[:k + 1])[:600] + " @" + sn, a[:40], b[:40])
                    break
                a = [t for j, t in enumerate(a) if j != 1]
                b = [t for j, t in enumerate(b) if j != 1]
            if a != b and f19_seen and opn == "find":
                # a stale hash-table record (F19) points to a node that meanwhile lives elsewhere: the lookup returns a node
                # that is not a sibling at all — the model cannot follow a dangling pointer
                cx.fail("sib", "lyd_find_sibling_val answers %s where a scan answers %s (stale children_ht record)" % (" ".join(a), " ".join(b)),
                        {"schema": sn, "ops": ops[:k + 1], "attrib": "F19"})
                continue
            if a != b:
                cx.disagree("sib", ";".join(ops[:k + 1])[:600] + " @" + sn, a[:40], b[:40])
                break
    if scripts:
        sn, ops = scripts[cx.rng.randrange(len(scripts))]
        cx.sample("sib run %s %s" % (sn, ";".join(ops))[:400])


def law_scripts(cx, schs, scripts, kind="law", present=None):
    """Implementation only (law mode of the harness): every verdict must be 0, no abort, no hang — except after the
    trigger of a listed finding."""
    reqs = [request(i, schs[sn], ops, "cm") for i, (sn, ops) in enumerate(scripts)]
    ri = sibcomp.run_impl_scripts(cx, WB, reqs)
    for i, (sn, ops) in enumerate(scripts):
        di, gi = split_reply(ri.get(str(i)))
        key = ("law", sn, tuple(ops))
        if gi is None:
            cx.count(key, False, "sib:%s:noreply" % kind)
            cx.fail("sib", "harness gave no reply to a law-mode script", {"schema": sn, "ops": ops, "attrib": None, "crash": True})
            continue
        cx.count(key, ops_state_changed([strip_marks(g)[1] for g in gi]), "sib:%s" % kind)
        marks = []
        for k, op in enumerate(ops):
            opn = op.split(",")[0]
            if k >= len(gi):
                cx.fail("sib", "harness aborted in op %d (%s) of a law-mode script" % (k, opn),
                        {"schema": sn, "ops": ops[:k + 1], "attrib": marks[0] if marks else None, "crash": True})
                break
            m, g = strip_marks(gi[k])
            # a trigger counts only while the defect is there (its witness reproduced at the start of this run)
            marks += [x for x in m if present is None or present.get(x, True)]
            if not g or g[-1] == "HANG":
                cx.fail("sib", "harness aborted / hung in op %d (%s) of a law-mode script" % (k, opn),
                        {"schema": sn, "ops": ops[:k + 1], "attrib": marks[0] if marks else None, "crash": True})
                break
            cx.dist["sib:lawop:%s:%s" % (opn, g[0])] += 1
            va = verdict_of(g)
            if va:
                cx.fail("sib", "consistency check fails after op %d (%s): %s" % (k, opn, vbits(va)),
                        {"schema": sn, "ops": ops[:k + 1], "verdict": va, "attrib": marks[0] if marks else None})
                break
    return ri


# ------------------------------------------------------------------------------------------------ generators
def base_state(sn, big):
    """prefix creating the work container with < 4 (no hash table) or >= 4 children"""
    if sn == "S1":
        p = ["new,1,-,saa:c,-", "new,2,1,saa:sll,32", "new,3,1,saa:sll,34"]
        if big:
            p += ["new,4,1,saa:a,78", "new,5,1,saa:ull,31", "new,6,1,saa:ull,33"]
        alpha_ids = [2, 3] + ([4, 5, 6] if big else [])
        new = ["new,7,1,saa:sll,33", "new,7,1,saa:sll,32", "new,7,1,saa:sll,31", "new,7,1,saa:ull,32", "new,7,1,saa:e,78", "new,7,1,saa:sl,31", "new,7,1,saa:a,79",
               "newopaq,7,1,oq,-", "new,7,1,saa:stl,32", "new,7,-,saa:c,-", "new,8,1,sbb:asl,61"]
        chg = [("change,%d,%s" % (i, v)) for i in (2, 3) for v in ("31", "33", "35")] + ([("change,%d,%s" % (i, v)) for i in (5, 6) for v in ("32", "39")] if big else [])
        rel = (["ins_before,5,6", "ins_before,6,5", "ins_after,5,6", "ins_after,6,5", "ins_before,2,3"] if big else ["ins_before,2,3", "ins_after,3,2"])
        sib = ["ins_sibling,3,2", "ins_sibling,7,2", "ins_sibling,7,3"] + (["ins_sibling,3,4", "ins_sibling,5,2", "ins_sibling,6,4"] if big else [])
        find = ["find,3,saa:sll,32", "find,3,saa:sll,33", "find,3,saa:ull,-"]
    elif sn == "S2":
        p = ["new,1,-,szz:c,-", "new,2,1,szz:sl,61", "new,3,1,szz:sl,62"]
        if big:
            p += ["new,4,1,szz:b,78", "new,5,1,szz:sll,61", "new,6,1,szz:sll,42"]
        alpha_ids = [2, 3] + ([4, 5, 6] if big else [])
        new = ["new,7,1,szz:sl,6161", "new,7,1,szz:sl,61", "new,7,1,szz:sll,6161", "new,7,1,szz:a,78", "new,7,1,szz:ull,61", "newopaq,7,1,oq,-",
               "new,7,-,sab:al,37", "new,8,-,szz:zl,61", "new,7,-,sab:tl,35"]
        chg = [("change,%d,%s" % (i, v)) for i in (1002, 1003) for v in ("39", "6161", "63")] + ([("change,%d,%s" % (i, v)) for i in (5, 6) for v in ("39", "62")] if big else [])
        rel = ["ins_before,2,3", "ins_after,3,2"]
        sib = ["ins_sibling,3,2", "ins_sibling,7,2", "ins_sibling,8,7", "ins_sibling,7,8", "ins_sibling,1,7", "ins_sibling,7,1"] + (["ins_sibling,6,5", "ins_sibling,3,4"] if big else [])
        find = ["find,3,szz:sl,61", "find,3,szz:sl,6161", "find,3,szz:a,-"]
    else:
        p = ["new,1,-,scc:c,-", "new,2,1,scc:sl,32", "new,3,2,scc:ill,35", "new,4,2,scc:ill,37"]
        if big:
            p += ["new,5,2,scc:v,78", "new,6,2,scc:in,31"]
        alpha_ids = [2, 3, 4] + ([5, 6] if big else [])
        new = ["new,7,2,scc:ill,36", "new,7,2,scc:ill,35", "new,7,2,scc:in,30", "new,7,2,scc:w,78", "new,7,1,scc:sl,31", "new,7,1,scc:sll,39", "newopaq,7,2,oq,-",
               "new,7,-,scc:tl,35", "new,8,-,scc:tl,33"]
        chg = [("change,%d,%s" % (i, v)) for i in (3, 4) for v in ("31", "36", "39")] + ["change,1002,31", "change,1002,39"] + (["change,1006,35"] if big else [])
        rel = ["ins_before,3,4", "ins_after,4,3"]
        sib = ["ins_sibling,4,3", "ins_sibling,7,3", "ins_sibling,8,7", "ins_sibling,7,8"] + (["ins_sibling,6,5", "ins_sibling,4,5"] if big else [])
        find = ["find,3,scc:ill,35", "find,3,scc:ill,36", "find,3,scc:v,-"]
    alpha = []
    for i in alpha_ids:
        alpha += ["unlink,%d" % i, "free,%d" % i, "ins_child,%d,%d" % (i, 2 if sn == "S3" and i != 2 else 1)]
    alpha += new + chg + rel + sib + find + ["ins_child,7,1", "free,7", "unlink,7"]
    return p, alpha


def exhaustive_scripts(cx):
    """all scripts of <= 2 ops over the full alphabet (40-50 ops), all 3-op scripts over a reduced alphabet (quick: 14 ops,
    thorough: 22), thorough additionally all 4-op scripts over 9 ops — after each base state (3 schemas x 2 hash-table regimes)"""
    out = []
    for sn in ("S1", "S2", "S3"):
        for big in (False, True):
            p, alpha = base_state(sn, big)
            red = [a for j, a in enumerate(alpha) if j % 3 == 0 or a.startswith("change") or a.startswith("new,7,1") or a.startswith("new,7,2")]
            red = red[:cx.n(14, 22)]
            out.append((sn, p))
            for a in alpha:
                out.append((sn, p + [a]))
            for a, b in itertools.product(alpha, repeat=2):
                out.append((sn, p + [a, b]))
            for t in itertools.product(red, repeat=3):
                out.append((sn, p + list(t)))
            if cx.tier == "thorough":
                for t in itertools.product(red[:9], repeat=4):
                    out.append((sn, p + list(t)))
    return out


def perm_law(cx, schs):
    """(L) final printed tree equal across random permutations of the same insert multiset (system-ordered and
    non-list nodes), under a parent with < 4 and >= 4 children; ids are stripped from the dump, equal keys are allowed."""
    rng = cx.sub_rng("perm")
    cases, meta = [], []
    for n in range(cx.n(150, 2000)):
        sn = rng.choice(["S1", "S2", "S3"])
        sch = schs[sn]
        cont = [e for e in sch.ents if e["parent"] is None and e["kind"] == "c"][0]
        kids = [e for e in sch.children(cont["sid"]) if e["kind"] in ("lf", "lls", "ls", "c")]
        k = rng.choice([2, 3, 3, 5, 8, 12])
        items = []
        for _ in range(k):
            e = rng.choice(kids)
            if e["kind"] in ("lf", "c") and any(x[0] is e for x in items):
                continue
            items.append((e, rng.choice(sibcomp.POOL[e["kt"]]).encode("latin1")))
        variants = []
        for v in range(3):
            order = list(items)
            if v:
                rng.shuffle(order)
            # container 1 = the tree under test, container 2 = a second tree nodes are created in and moved from
            ops = [sibcomp.op_new(1, None, sch.qname(cont), b""), sibcomp.op_new(2, None, sch.qname(cont), b"")]
            for j, (e, val) in enumerate(order):
                if v == 2 and rng.random() < 0.5:
                    # created elsewhere, then moved: lyd_unlink + lyd_insert_child path instead of lyd_new_*
                    ops.append(sibcomp.op_new(10 + j, 2, sch.qname(e), val))
                    ops.append("ins_child,%d,1" % (10 + j))
                else:
                    ops.append(sibcomp.op_new(10 + j, 1, sch.qname(e), val))
            variants.append(ops)
        for ops in variants:
            cases.append(request(len(cases), sch, ops, "cq"))
        meta.append((sn, variants))
    ri = sibcomp.run_impl_scripts(cx, WB, cases)
    idx = 0
    for sn, variants in meta:
        finals = []
        for ops in variants:
            d, g = split_reply(ri.get(str(idx)))
            idx += 1
            if not g or len(g) < len(ops):
                finals.append(None)
                continue
            last = g[len(ops) - 1]
            # strip ids: depth.id.name.value -> depth.name.value
            finals.append([".".join(t.split(".")[:1] + t.split(".")[2:]) if "." in t else t for t in last[2:]])
        cx.count(("perm", sn, tuple(variants[0])), True, "sib:perm-law")
        if any(f is None for f in finals) or any(f != finals[0] for f in finals[1:]):
            cx.fail("sib", "final tree depends on the insertion order of the same node multiset",
                    {"schema": sn, "orders": variants, "finals": finals, "attrib": None})


def rb_shapes(cx, schs):
    """Stage 2: shape (pre-order, colours) and in-order of the red-black tree behind a system-ordered leaf-list after inserting
    a key sequence — real tree (white-box walk) vs Rb.insert; all sequences of length <= 6 over 3 keys, random longer ones."""
    sch = schs["S1"]
    rng = cx.sub_rng("rb")
    seqs = [list(t) for n in range(1, 7) for t in itertools.product([1, 2, 3], repeat=n)]
    for _ in range(cx.n(600, 6000)):
        n = rng.choice([3, 5, 8, 13, 21, 40])
        dom = rng.choice([3, 8, 30, 1000])
        seqs.append([rng.randrange(-dom, dom) for _ in range(n)])
    lines = ["%d sib rb c %s %s %s" % (i, sch.desc_tok, sch.yang_tok, ",".join(str(k) for k in q)) for i, q in enumerate(seqs)]
    ri = cx.run_impl(WB, lines, component="sib")
    rm = cx.run_model(lines)
    for i, q in enumerate(seqs):
        a, b = ri.get(str(i), ["err", "NoReply"]), rm.get(str(i), ["err", "NoReply"])
        cx.count(("rb", tuple(q)), len(q) > 1, "sib:rb-shape")
        if a != b:
            cx.disagree("sib-rb", lines[i][:60] + " ... " + ",".join(str(k) for k in q)[:200], a[:60], b[:60])
            continue
        # law on the implementation: in-order of the real tree = sibling order = sorted, ties in insertion order
        if a[0] == "ok" and "|" in a:
            order = [int(x) for x in a[a.index("|") + 1:]]
            if order != sorted(q):
                cx.fail("sib", "instances of a system-ordered leaf-list not sorted after insertions", {"keys": q, "order": order, "attrib": None})


def ht_min_items():
    """LYD_HT_MIN_ITEMS as the translator wrote it into Generated/Consts.lean (the children hash table of the parent appears
    with that many children: the rb scripts must cross it in both directions)."""
    import re
    txt = open(os.path.join(paths.LEAN, "LyModel", "Generated", "Consts.lean")).read()
    m = re.search(r"def LYD_HT_MIN_ITEMS : Nat := (\d+)", txt)
    return int(m.group(1)) if m else 4


def rbs_enumerate(nkeys, maxlen):
    """every script of inserts (keys 1..nkeys, any order, repeats allowed) and unlinks (every live position) up to maxlen ops
    that is not a prefix-extension duplicate: generated as a tree walk over (op, live count)"""
    out = []

    def rec(script, live):
        if script:
            out.append(script)
        if len(script) == maxlen:
            return
        for k in range(1, nkeys + 1):
            rec(script + ["i%d" % k], live + 1)
        for j in range(live):
            rec(script + ["u%d" % j], live - 1)
    rec([], 0)
    return out


def rb_scripts(cx, schs):
    """Stage 2 with removal: scripts of insert / unlink(+free) / unlink+re-insert on one system-ordered leaf-list; after EVERY
    op the real red-black tree (pre-order, colours, value:serial), the position of the lyds_tree metadata, the white-box
    verdict and the sibling order are compared token for token with Rb.insert / Rb.remove / Rb.find of the model."""
    sch = schs["S1"]
    rng = cx.sub_rng("rbs")
    hmin = ht_min_items()
    scripts = []
    # (a) exhaustive: every insert/remove script of <= L ops over 2 keys, and over 3 keys one op shorter
    for q in rbs_enumerate(2, cx.n(7, 9)) + rbs_enumerate(3, cx.n(5, 7)):
        scripts.append(("exh", q))
    # (b) exhaustive removal orders: n distinct keys (n <= 7) inserted in some order, then removed in EVERY order
    for n in range(2, 8):
        perms = list(itertools.permutations(range(n)))
        ins_orders = perms if n <= 4 else [tuple(rng.sample(range(n), n)) for _ in range(cx.n(3, 40))] + [tuple(range(n)), tuple(reversed(range(n)))]
        for io in ins_orders:
            base = ["i%d" % (k + 1) for k in io]
            if n <= 5:
                rem_orders = perms
            else:
                rem_orders = [tuple(rng.sample(range(n), n)) for _ in range(cx.n(40, 400))]
            for ro in rem_orders:
                # positions: the instance with the ro[j]-th smallest key among those still present
                live = list(range(n))
                q = list(base)
                for v in ro:
                    q.append("u%d" % live.index(v))
                    live.remove(v)
                scripts.append(("perm", q))
    # (c) random long interleavings, also with equal keys and re-insertion of the unlinked node; sizes around LYD_HT_MIN_ITEMS
    for _ in range(cx.n(700, 8000)):
        length = rng.choice([12, 25, 60, 150])
        dom = rng.choice([2, 4, 9, 40, 1000])
        target = rng.choice([hmin - 1, hmin, hmin + 1, 2 * hmin, 12, 30])
        live, q = 0, []
        for _ in range(length):
            r = rng.random()
            if live == 0 or r < (0.75 if live < target else 0.3):
                q.append("i%d" % rng.randrange(-dom, dom)); live += 1
            elif r < 0.88:
                q.append("u%d" % rng.randrange(live)); live -= 1
            elif r < 0.94:
                q.append("m%d" % rng.randrange(live))
            else:
                # lyd_unlink_siblings from the middle (lyds_split), rarely from the leader
                j = rng.randrange(live) if (live < 2 or rng.random() < 0.2) else rng.randrange(max(1, live // 2), live)
                q.append("s%d" % j); live = j
        scripts.append(("random", q))
    # (d) lyds_split exhaustively: n <= 7 distinct keys in a sampled insertion order, split at every position
    for n in range(2, 8):
        for _ in range(cx.n(3, 30)):
            io = rng.sample(range(n), n)
            for j in range(n):
                scripts.append(("split", ["i%d" % (k + 1) for k in io] + ["s%d" % j, "i0", "i9"]))
    lines = ["%d sib rbs c %s %s %s" % (i, sch.desc_tok, sch.yang_tok, ",".join(q)) for i, (_, q) in enumerate(scripts)]
    lines.append("%d sib rbleak" % len(scripts))
    ri = cx.run_impl(WB, lines, component="sib")
    rm = cx.run_model(lines)
    crossed = 0
    for i, (kind, q) in enumerate(scripts):
        a, b = ri.get(str(i), ["err", "NoReply"]), rm.get(str(i), ["err", "NoReply"])
        nrem = sum(1 for t in q if t[0] in "ums")
        cx.count(("rbs", tuple(q)), nrem > 0, "sib:rbs:%s" % kind)
        cx.dist["sib:rbs:removals"] += nrem
        if a != b:
            # first differing op
            ga, gb = " ".join(a).split(" | "), " ".join(b).split(" | ")
            k = next((j for j in range(min(len(ga), len(gb))) if ga[j] != gb[j]), min(len(ga), len(gb)))
            cx.disagree("sib-rbs", "rbs script %s (first difference at op %d)" % (",".join(q[:k]), k),
                        (ga[k] if k < len(ga) else "none")[:300], (gb[k] if k < len(gb) else "none")[:300])
            continue
        groups = " ".join(a).split(" | ")[1:]
        sizes = []
        for j, g in enumerate(groups):
            toks = g.split()
            if toks and toks[0].startswith("R:"):
                continue
            # laws on the implementation itself: verdict of the white-box walk, sorted sibling order
            v = [t for t in toks if t.startswith("V")]
            order = [int(t.split(":")[0]) for t in toks[toks.index("=") + 1:]] if "=" in toks else []
            sizes.append(len(order))
            if (v and v[0] != "V0") or order != sorted(order):
                cx.fail("sib", "red-black tree / sibling order broken after op %d of an insert/unlink script" % j,
                        {"script": q[:j + 1], "state": g[:300], "attrib": None})
                break
        if sizes and min(sizes) < hmin <= max(sizes):
            crossed += 1
    cx.dist["sib:rbs:scripts-crossing-LYD_HT_MIN_ITEMS"] += crossed
    a, b = ri.get(str(len(scripts)), ["err", "NoReply"]), rm.get(str(len(scripts)), ["err", "NoReply"])
    cx.count(("rbs", "leak"), True, "sib:rbs:leakcheck")
    if a != b:
        cx.fail("sib", "red-black nodes / lyds_tree metadata leaked by insert/unlink scripts", {"reply": a, "attrib": None})


def rb_merges(cx, schs):
    """lyds_merge: two system-ordered leaf-lists built by insert/unlink scripts, then ALL instances of the second (or a
    lyd_dup_siblings copy of them: no sorting tree) moved onto the first in one call; resulting red-black shape, metadata
    position, white-box verdict and sibling order vs Rb.mergeTree.  Exhaustive over all pairs of insert sequences of
    length <= 3 over 3 keys (both directions of every tree / no-tree combination), random larger ones."""
    sch = schs["S1"]
    rng = cx.sub_rng("rbm")
    seqs = [list(t) for n in range(1, 4) for t in itertools.product([1, 2, 3], repeat=n)]
    cases = []
    for d in seqs:
        for s_ in seqs:
            cases.append(("exh", ["i%d" % k for k in d], ["i%d" % k for k in s_], False))
    for d in seqs[:12]:
        for s_ in seqs:
            if len(s_) > 1:
                cases.append(("exh-dup", ["i%d" % k for k in d], ["i%d" % k for k in s_], True))

    def rnd_script(n, dom, removals):
        live, q = 0, []
        while live < n or len(q) < n:
            if live and removals and rng.random() < 0.25:
                q.append("u%d" % rng.randrange(live)); live -= 1
            else:
                q.append("i%d" % rng.randrange(-dom, dom)); live += 1
            if len(q) > 4 * n + 4:
                break
        return q
    for _ in range(cx.n(500, 6000)):
        dom = rng.choice([2, 5, 30, 1000])
        cases.append(("random", rnd_script(rng.choice([1, 2, 3, 5, 9, 20]), dom, True), rnd_script(rng.choice([1, 2, 3, 5, 9, 20]), dom, True),
                      rng.random() < 0.25))
    lines = ["%d sib rbm c %s %s %s %s%s" % (i, sch.desc_tok, sch.yang_tok, ",".join(d), "D" if dup else "", ",".join(s_))
             for i, (_, d, s_, dup) in enumerate(cases)]
    lines.append("%d sib rbleak" % len(cases))
    ri = cx.run_impl(WB, lines, component="sib")
    rm = cx.run_model(lines)
    for i, (kind, d, s_, dup) in enumerate(cases):
        a, b = ri.get(str(i), ["err", "NoReply"]), rm.get(str(i), ["err", "NoReply"])
        cx.count(("rbm", tuple(d), tuple(s_), dup), True, "sib:rbm:%s" % kind)
        if a != b:
            cx.disagree("sib-rbm", "rbm dst=%s src=%s%s" % (",".join(d), "D" if dup else "", ",".join(s_)), " ".join(a)[:300], " ".join(b)[:300])
            continue
        toks = a[1:]
        v = [t for t in toks if t.startswith("V")]
        order = [int(t.split(":")[0]) for t in toks[toks.index("=") + 1:]] if "=" in toks else []
        if (v and v[0] != "V0") or order != sorted(order):
            cx.fail("sib", "red-black tree / sibling order broken after moving a whole (leaf-)list onto another (lyds_merge)",
                    {"dst": d, "src": s_, "dup": dup, "state": " ".join(a)[:300], "attrib": None})
    a, b = ri.get(str(len(cases)), ["err", "NoReply"]), rm.get(str(len(cases)), ["err", "NoReply"])
    cx.count(("rbm", "leak"), True, "sib:rbm:leakcheck")
    if a != b:
        cx.fail("sib", "red-black nodes / lyds_tree metadata leaked by bulk moves (lyds_merge)", {"reply": a, "attrib": None})


def rbd_tok(d):
    return ("D" + ",".join(d[1:])) if d and d[0] == "D" else ",".join(d)


def rb_destruct_merges(cx, schs):
    """lyd_merge_siblings(…, LYD_MERGE_DESTRUCT) of two containers whose system-ordered leaf-lists were built by insert/unlink
    scripts: the source tree goes to the lyds pool (lyds_pool_add), the instances the target lacks are moved by lyds_insert2
    (reusing pooled red-black nodes and metadata; lyds_additionally_reuse_rb_tree when the target leader has no tree), the
    rest is released (lyds_pool_clean).  Shape, metadata position, verdict and order vs the model; leak check at the end."""
    sch = schs["S1"]
    rng = cx.sub_rng("rbd")
    cases = []
    seqs = [list(t) for n in range(0, 4) for t in itertools.permutations([1, 2, 3, 4], n)]
    for d in seqs:
        for s_ in seqs:
            if s_:
                cases.append(("exh", ["i%d" % k for k in d], ["i%d" % k for k in s_]))

    def rnd_script(n, dom):
        vals = rng.sample(range(-dom, dom), min(n + 3, 2 * dom))
        q, live = [], 0
        for v in vals:
            q.append("i%d" % v); live += 1
            if live > 1 and rng.random() < 0.2:
                q.append("u%d" % rng.randrange(live)); live -= 1
        return q
    for _ in range(cx.n(400, 5000)):
        dom = rng.choice([4, 10, 40, 1000])
        cases.append(("random", rnd_script(rng.choice([0, 1, 2, 3, 6, 12, 25]), dom), rnd_script(rng.choice([1, 2, 3, 6, 12, 25]), dom)))
    # the target has NO sorting tree (a duplicate: as after lyd_dup_* or a parse with LYD_PARSE_ORDERED) and is LONGER than the
    # source: the pool of K recycled red-black nodes runs out while lyds_additionally_reuse_rb_tree rebuilds the tree, the
    # (K+1)-th target instance gets a fresh node (lyds_additionally_create_rb_nodes); new values land in every gap, in
    # particular between the (K+1)-th and the (K+2)-th instance
    for k in range(1, 6):                    # K = size of the source list = pool size
        for n in range(k, k + 4):            # target length K .. K+3
            trg = [10 * (j + 1) for j in range(n)]
            for gap in range(0, n + 1):      # a new value in front of / between / behind
                newv = [10 * gap + 5]
                rest = [10 * (n + 2 + j) + 5 for j in range(k - 1)] if gap % 2 == 0 else [10 * g + 3 for g in range(k - 1)]
                src = newv + rest
                order = rng.sample(src, len(src))
                cases.append(("notree-longer", ["D"] + ["i%d" % v for v in rng.sample(trg, n)], ["i%d" % v for v in order]))
    for _ in range(cx.n(200, 3000)):
        dom = rng.choice([10, 40, 1000])
        cases.append(("notree-random", ["D"] + rnd_script(rng.choice([1, 2, 3, 6, 12, 25]), dom), rnd_script(rng.choice([1, 2, 3, 6, 12]), dom)))
    lines = ["%d sib rbd c %s %s %s %s" % (i, sch.desc_tok, sch.yang_tok, rbd_tok(d) or "-", ",".join(s_) or "-") for i, (_, d, s_) in enumerate(cases)]
    lines.append("%d sib rbleak" % len(cases))
    ri = cx.run_impl(WB, lines, component="sib")
    rm = cx.run_model(lines)
    for i, (kind, d, s_) in enumerate(cases):
        a, b = ri.get(str(i), ["err", "NoReply"]), rm.get(str(i), ["err", "NoReply"])
        cx.count(("rbd", tuple(d), tuple(s_)), True, "sib:rbd:%s" % kind)
        if a != b:
            cx.disagree("sib-rbd", "rbd dst=%s src=%s" % (",".join(d), ",".join(s_)), " ".join(a)[:300], " ".join(b)[:300])
            continue
        toks = a[1:]
        v = [t for t in toks if t.startswith("V")]
        order = [int(t.split(":")[0]) for t in toks[toks.index("=") + 1:]] if "=" in toks else []
        if (v and v[0] != "V0") or order != sorted(order):
            cx.fail("sib", "red-black tree / sibling order broken after lyd_merge_siblings with LYD_MERGE_DESTRUCT (lyds pool)",
                    {"dst": d, "src": s_, "state": " ".join(a)[:300], "attrib": None})
    a, b = ri.get(str(len(cases)), ["err", "NoReply"]), rm.get(str(len(cases)), ["err", "NoReply"])
    cx.count(("rbd", "leak"), True, "sib:rbd:leakcheck")
    if a != b:
        cx.fail("sib", "red-black nodes / lyds_tree metadata leaked by lyd_merge DESTRUCT (lyds pool)", {"reply": a, "attrib": None})


def rb_dup_intos(cx, schs):
    """lyd_dup_siblings of all instances of one system-ordered leaf-list INTO a container that holds none / some instances already
    (the first_llist fast path of lyd_dup and the test that leaves it): red-black shape, metadata position, verdict and
    sibling order of the target vs Rb.Lyds.dupInto.  All pairs of insert sequences of length <= 3 over 4 keys (target may be
    empty), random larger ones with removals."""
    sch = schs["S1"]
    rng = cx.sub_rng("rbp")
    seqs = [list(t) for n in range(0, 4) for t in itertools.product([1, 2, 3, 4], repeat=n)]
    cases = [("exh", ["i%d" % k for k in d], ["i%d" % k for k in s_]) for d in seqs[:41] for s_ in seqs if s_]

    def rnd_script(n, dom):
        q, live = [], 0
        for _ in range(n):
            q.append("i%d" % rng.randrange(-dom, dom)); live += 1
            if live > 1 and rng.random() < 0.2:
                q.append("u%d" % rng.randrange(live)); live -= 1
        return q
    for _ in range(cx.n(300, 4000)):
        dom = rng.choice([3, 10, 40, 1000])
        cases.append(("random", rnd_script(rng.choice([0, 0, 1, 2, 3, 6, 12]), dom), rnd_script(rng.choice([1, 2, 3, 6, 12]), dom)))
    lines = ["%d sib rbp c %s %s %s %s" % (i, sch.desc_tok, sch.yang_tok, ",".join(d) or "-", ",".join(s_) or "-") for i, (_, d, s_) in enumerate(cases)]
    lines.append("%d sib rbleak" % len(cases))
    ri = cx.run_impl(WB, lines, component="sib")
    rm = cx.run_model(lines)
    for i, (kind, d, s_) in enumerate(cases):
        a, b = ri.get(str(i), ["err", "NoReply"]), rm.get(str(i), ["err", "NoReply"])
        cx.count(("rbp", tuple(d), tuple(s_)), True, "sib:rbp:%s:%s" % (kind, "empty-parent" if not d else "populated"))
        if a != b:
            cx.disagree("sib-rbp", "rbp dst=%s src=%s" % (",".join(d), ",".join(s_)), " ".join(a)[:300], " ".join(b)[:300])
            continue
        toks = a[1:]
        v = [t for t in toks if t.startswith("V")]
        order = [int(t.split(":")[0]) for t in toks[toks.index("=") + 1:]] if "=" in toks else []
        if (v and v[0] != "V0") or order != sorted(order):
            cx.fail("sib", "red-black tree / sibling order broken after lyd_dup_siblings into a parent", {"dst": d, "src": s_, "state": " ".join(a)[:300], "attrib": None})
    a, b = ri.get(str(len(cases)), ["err", "NoReply"]), rm.get(str(len(cases)), ["err", "NoReply"])
    cx.count(("rbp", "leak"), True, "sib:rbp:leakcheck")
    if a != b:
        cx.fail("sib", "leak after lyd_dup_siblings into a parent", {"reply": a, "attrib": None})


def corpus_scripts():
    d = os.path.join(paths.CORPUS, "sib")
    out = []
    if os.path.isdir(d):
        for f in sorted(os.listdir(d)):
            if f.endswith(".json"):
                j = json.load(open(os.path.join(d, f)))
                out.append((j["schema"], j["ops"]))
    return out


# ------------------------------------------------------------------------------------------------ run
def run(cx):
    schs = sibcomp.load_schemas(cx)
    cx.rule("sib: one case = one edit script (ops new/newopaq/ins_child/ins_sibling/ins_before/ins_after/unlink/free/change/find over "
            "<= 12 identities, 3 fixed schema sets: int32/string/uint8 keys, system- and user-ordered lists and leaf-lists, key-less and "
            "state lists, augmenting module, top-level module order); exhaustive: every script of <= 2 ops over a 40-50 op alphabet, "
            "every 3-op script over a reduced alphabet (14 ops; thorough 22) and, thorough, every 4-op script over 9 ops, after 6 base "
            "states (parents with < 4 and >= 4 children); random scripts of length 30 (thorough: up to 200); non-trivial = distinct "
            "script with at least one successful "
            "state change; the consistency battery runs after EVERY op")

    # 1. witnesses of the listed findings; F19 also decides which lyd_change_node_value the model mirrors
    reqs, names = [], sorted(WITNESS)
    for i, fid in enumerate(names):
        sn, ops, _ = WITNESS[fid]
        reqs.append(request(i, schs[sn], ops, "cm"))
    ri = sibcomp.run_impl_scripts(cx, WB, reqs)
    present = {}
    for i, fid in enumerate(names):
        d, g = split_reply(ri.get(str(i)))
        ops = WITNESS[fid][1]
        bad = g is None or len(g) < len(ops)
        if not bad:
            m, last = strip_marks(g[len(ops) - 1])
            bad = not last or last[-1] == "HANG" or bool(verdict_of(last))
        present[fid] = bad
        cx.count(("witness", fid), True, "sib:witness:%s:%s" % (fid, "present" if bad else "absent"))
        if bad:
            cx.fail("sib", "witness of %s reproduces" % fid, {"schema": WITNESS[fid][0], "ops": ops, "attrib": fid})
    variant = "c" if present.get("F19") else "f"
    cx.notes.append("lyd_change_node_value variant mirrored by the model: %s" % ("as in the source (F19 present)" if variant == "c" else "corrected call order (F19 absent)"))

    # 2. corpus, exhaustive small scripts, random scripts — differential, white-box harness
    differential_scripts(cx, schs, corpus_scripts(), variant, kind="corpus")
    ex = exhaustive_scripts(cx)
    cx.exhaustive = True
    differential_scripts(cx, schs, ex, variant, kind="exhaustive", quick_search=True)
    rng = cx.sub_rng("random")
    rnd = []
    for _ in range(cx.n(1000, 8000)):
        sn = rng.choice(["S1", "S2", "S3"])
        length = 30 if cx.tier == "quick" else rng.choice([30, 60, 120, 200])
        rnd.append((sn, sibcomp.random_script(rng, schs[sn], length, nids=rng.choice([6, 12]), prefill=rng.choice([0, 2, 5, 8]))))
    differential_scripts(cx, schs, rnd, variant, kind="random", quick_search=(cx.tier == "thorough"))
    # the same through the public-API-only harness (no white-box verdict bits there; dumps and return codes must agree)
    differential_scripts(cx, schs, rnd[:cx.n(150, 1500)] + ex[:cx.n(250, 1500)], variant, harness=API, kind="api")

    rb_shapes(cx, schs)
    rb_scripts(cx, schs)
    rb_merges(cx, schs)
    rb_destruct_merges(cx, schs)
    rb_dup_intos(cx, schs)

    # 3. laws on the implementation
    perm_law(cx, schs)
    rng = cx.sub_rng("law")
    law = []
    for _ in range(cx.n(200, 2000)):
        sn = rng.choice(["S1", "S2", "S3"])
        law.append((sn, sibcomp.random_script(rng, schs[sn], 25 if cx.tier == "quick" else rng.choice([25, 60]), nids=12,
                                               prefill=rng.choice([0, 2, 5, 8]), law=True)))
    law_scripts(cx, schs, law, present=present)
    rng = cx.sub_rng("emptied")
    ep = []
    for sn in ("S1", "S2", "S3"):
        ep += [(sn, ops) for ops in emptied_parent_scripts(rng, schs[sn], cx.n(120, 1500))]
    law_scripts(cx, schs, ep, kind="law-emptied-parent", present=present)
    rng = cx.sub_rng("dupmove")
    dm = []
    for sn in ("S1", "S2", "S3"):
        dm += [(sn, ops) for ops in dup_move_scripts(rng, schs[sn], cx.n(100, 1200))]
    law_scripts(cx, schs, dm, kind="law-dup-move", present=present)
    rng = cx.sub_rng("multikey-diff")
    differential_scripts(cx, schs, [("S4", ops) for ops in multikey_diff_scripts(rng, cx.n(400, 4000))], variant, kind="multikey",
                         quick_search=(cx.tier == "quick"))
    rng = cx.sub_rng("multikey")
    law_scripts(cx, schs, [("S4", ops) for ops in multikey_scripts(rng, cx.n(400, 4000))], kind="law-multikey", present=present)


def emptied_parent_scripts(rng, sch, n):
    """Directed family (law mode): a parent gets >= 4 children (so its children hash table exists), is emptied again by
    unlink / unlink-siblings / free in some order, and then receives whole parent-less sibling lists in ONE insert
    (lyd_move_nodes_at_once / lyd_move_nodes_by_schema); afterwards searches, sorted inserts and value changes use the table."""
    out = []
    conts = [e for e in sch.ents if e["parent"] is None and e["kind"] == "c"]
    for _ in range(n):
        e = rng.choice(conts)
        ch = [x for x in sch.children(e["sid"]) if x["kind"] != "key"]
        if not ch:
            continue
        ops = [sibcomp.op_new(1, None, sch.qname(e), b"")]
        ids, single = [], set()
        for i in range(2, 2 + rng.randint(4, 8)):
            x = rng.choice(ch)
            if x["kind"] in ("lf", "c", "pc"):
                if x["sid"] in single:
                    continue
                single.add(x["sid"])
            ops.append(sibcomp.op_new(i, 1, sch.qname(x), sibcomp.gen_value(rng, x["kt"], bad=0)))
            ids.append(i)
        mode = rng.random()
        if mode < 0.5:
            # everything leaves in one piece
            ops.append("find,2,%s,%s" % (sch.qname(ch[0]), hexs(b"1")))
            ops.append("unlinksibs,%d" % 2)         # ids[0] need not be the first sibling: the tail after it
            for i in ids:
                if rng.random() < 0.5:
                    ops.append("unlink,%d" % i)
        else:
            order = ids[:]
            rng.shuffle(order)
            for i in order:
                ops.append(("free,%d" if rng.random() < 0.25 else "unlink,%d") % i)
        # chain what is parent-less now, then move the chains in
        loose = ids[:]
        rng.shuffle(loose)
        for a in loose[1:]:
            if rng.random() < 0.7:
                ops.append("ins_sibling,%d,%d" % (a, loose[0]))
        for a in rng.sample(loose, min(len(loose), 3)) + ids[:2]:
            ops.append("ins_child,%d,1" % a)
        # use the table
        for i in range(20, 20 + rng.randint(2, 5)):
            x = rng.choice(ch)
            ops.append(sibcomp.op_new(i, 1, sch.qname(x), sibcomp.gen_value(rng, x["kt"], bad=0)))
        for _ in range(3):
            x = rng.choice(ch)
            ops.append("find,20,%s,%s" % (sch.qname(x), hexs(sibcomp.gen_value(rng, x["kt"], bad=0))))
        out.append(ops)
    return out


MK_LISTS = {"m2": [("a", "str"), ("b", "i32")], "mu": [("a", "i32"), ("b", "str")], "m3": [("p", "u8"), ("q", "str"), ("r", "i32")],
            "t2": [("a", "i32"), ("b", "str")], "in": [("x", "u8"), ("y", "str")]}


def multikey_scripts(rng, n):
    """Directed family (law mode, schema S4): instances of lists with two / three keys are created through key predicates written
    in schema order and in any other order (lyd_new_list2, lyd_new_path with and without a parent), equal instances are asked for
    again (LY_EEXIST), non-key children are added, instances are duplicated, unlinked and moved; after every op the battery checks
    keys first and in schema order, instances sorted by all keys, hashes, and the searches by predicates in both orders."""
    out = []

    def kv(kt):
        return rng.choice([v for v in sibcomp.POOL[kt] if "'" not in v and v != ""] or ["1"])

    def preds(name, vals, order=None):
        ks = MK_LISTS[name]
        idx = list(range(len(ks)))
        if order == "rev":
            idx.reverse()
        elif order == "rnd":
            rng.shuffle(idx)
        return "".join("[%s='%s']" % (ks[i][0], vals[i]) for i in idx)
    for _ in range(n):
        ops = [sibcomp.op_new(1, None, "sdd:c", b"")]
        if rng.random() < 0.6:      # >= 4 children: the children hash table exists
            ops += [sibcomp.op_new(2, 1, "sdd:a", b"x"), sibcomp.op_new(3, 1, "sdd:e", b"x"), sibcomp.op_new(4, 1, "sdd:sll", b"1"), sibcomp.op_new(5, 1, "sdd:sll", b"2")]
        made, nid = [], 10
        for _k in range(rng.randint(3, 9)):
            name = rng.choice(["m2", "m2", "mu", "m3", "t2"])
            vals = [kv(kt) for _, kt in MK_LISTS[name]]
            if made and rng.random() < 0.25:
                name, vals = rng.choice(made)[:2]          # an instance that exists already
            order = rng.choice([None, "rev", "rev", "rnd"])
            how = rng.random()
            top = name == "t2"
            if how < 0.45:
                ops.append("newlist2,%d,%s,sdd:%s,%s" % (nid, "-" if top else 1, name, hexs(preds(name, vals, order).encode())))
            elif how < 0.8:
                path = ("/sdd:t2" if top else "/sdd:c/" + name) + preds(name, vals, order) + rng.choice(["", "/v"])
                ops.append("newpath,%d,%s,%s,%s" % (nid, rng.choice(["-", "1"]), hexs(path.encode()), hexs(b"val")))
            else:
                path = ("/sdd:t2" if top else name) + preds(name, vals, order)
                if name == "m2" and rng.random() < 0.5:
                    path += "/in" + preds("in", [kv("u8"), kv("str")], rng.choice([None, "rev"])) + rng.choice(["", "/v"])
                ops.append("newpath,%d,%s,%s,%s" % (nid, "-" if top else "1", hexs(path.encode()), hexs(b"val")))
            made.append((name, vals, nid))
            nid += 1
            if rng.random() < 0.3 and not top:
                ops.append(sibcomp.op_new(nid, made[-1][2], "sdd:v", b"q"))
                nid += 1
        for _k in range(rng.randint(0, 3)):
            name, vals, i = rng.choice(made)
            ops.append(rng.choice(["unlink,%d" % i, "dup,%d,-,0" % i, "dup,%d,%s,0" % (i, "-" if name == "t2" else 1), "ins_child,%d,1" % i if name != "t2" else "unlink,%d" % i]))
        out.append(ops)
    return out


def multikey_diff_scripts(rng, n):
    """Differential family (schema S4): lists with two / three keys (system- and user-ordered, nested, top-level) created
    through key predicates in schema order and in any other order (lyd_new_list2, lyd_new_path with and without a parent,
    absolute and relative, existing prefixes, existing instances -> LY_EEXIST), non-key children, unlink / free / re-insert,
    and lyd_find_sibling_val by the whole key tuple (predicates in any order, present and absent tuples); the model keeps the
    key TUPLE of every instance and must produce the same return code, forest dump (key leaves in schema order, instances
    sorted key by key, identities) and search result after every op."""
    out = []

    def kv(kt, small):
        pool = [v for v in sibcomp.POOL[kt] if "'" not in v and v != ""] or ["1"]
        return rng.choice(pool[:3] if small else pool)

    def preds(name, vals, order=None):
        ks = MK_LISTS[name]
        idx = list(range(len(ks)))
        if order == "rev":
            idx.reverse()
        elif order == "rnd":
            rng.shuffle(idx)
        return "".join("[%s='%s']" % (ks[i][0], vals[i]) for i in idx)
    for _ in range(n):
        small = rng.random() < 0.5          # few distinct values: equal first keys, duplicates, EEXIST
        ops = [sibcomp.op_new(1, None, "sdd:c", b"")]
        if rng.random() < 0.6:      # >= 4 children: the children hash table exists
            ops += [sibcomp.op_new(2, 1, "sdd:a", b"x"), sibcomp.op_new(3, 1, "sdd:e", b"x"), sibcomp.op_new(4, 1, "sdd:sll", b"1"), sibcomp.op_new(5, 1, "sdd:sll", b"2")]
        made, nid = [], 10
        for _k in range(rng.randint(3, 10)):
            name = rng.choice(["m2", "m2", "mu", "m3", "t2"])
            vals = [kv(kt, small) for _, kt in MK_LISTS[name]]
            if made and rng.random() < 0.25:
                name, vals = rng.choice(made)[:2]          # an instance that exists already
            order = rng.choice([None, "rev", "rev", "rnd"])
            how = rng.random()
            top = name == "t2"
            if how < 0.45:
                ops.append("newlist2,%d,%s,sdd:%s,%s" % (nid, "-" if top else 1, name, hexs(preds(name, vals, order).encode())))
            elif how < 0.75:
                path = ("/sdd:t2" if top else "/sdd:c/" + name) + preds(name, vals, order) + rng.choice(["", "/v"])
                ops.append("newpath,%d,%s,%s,%s" % (nid, rng.choice(["-", "1"]), hexs(path.encode()), hexs(b"val")))
            else:
                path = ("/sdd:t2" if top else name) + preds(name, vals, order)
                if name == "m2" and rng.random() < 0.5:
                    path += "/in" + preds("in", [kv("u8", small), kv("str", small)], rng.choice([None, "rev"])) + rng.choice(["", "/v"])
                ops.append("newpath,%d,%s,%s,%s" % (nid, "-" if top else "1", hexs(path.encode()), hexs(b"val")))
            made.append((name, vals, nid))
            nid += 1
            if rng.random() < 0.3 and not top:
                ops.append(sibcomp.op_new(nid, made[-1][2], "sdd:v", b"q"))
                nid += 1
            if rng.random() < 0.5:
                # search by the whole tuple, predicates in another order; sometimes an absent tuple
                nm = rng.choice(["m2", "mu", "m3"])
                cand = [m for m in made if m[0] == nm]
                vals2 = list(rng.choice(cand)[1]) if cand and rng.random() < 0.7 else [kv(kt, small) for _, kt in MK_LISTS[nm]]
                anchors = ([2, 3, 4] if len(ops) > 4 and ops[1].startswith("new,2") else []) + [m[2] for m in made if m[0] != "t2"]
                if anchors:
                    ops.append("findkeys,%d,sdd:%s,%s" % (rng.choice(anchors), nm, hexs(preds(nm, vals2, rng.choice([None, "rev", "rnd"])).encode())))
        for _k in range(rng.randint(0, 3)):
            # lyd_change_term of an automatically numbered node: a key leaf (the instance is re-sorted and re-hashed by the
            # new tuple) or a plain leaf
            ops.append("change,%d,%s" % (2000 + rng.randrange(0, 12), hexs(rng.choice(["1", "2", "7", "a", "b"]).encode())))
        for _k in range(rng.randint(0, 4)):
            name, vals, i = rng.choice(made)
            ops.append(rng.choice(["unlink,%d" % i, "free,%d" % i, "ins_child,%d,1" % i if name != "t2" else "unlink,%d" % i,
                                   "newlist2,%d,%s,sdd:%s,%s" % (nid, "-" if name == "t2" else 1, name, hexs(preds(name, vals, "rev").encode()))]))
            nid += 1
        out.append(ops)
    return out


def dup_move_scripts(rng, sch, n):
    """Directed family (law mode): duplicates and bulk moves meet.  Two containers get children (mostly instances of the
    system-ordered lists / leaf-lists); sibling lists are duplicated with lyd_dup_siblings() into a parent that already
    holds instances, into an empty parent or without a parent — the copies are (leaf-)lists WITHOUT a sorting tree whose
    leader carries empty lyds metadata; whole parent-less sibling lists (with and without trees: unlink-siblings from the
    first / from a later instance) are then moved onto the copies and the copies onto them (lyds_merge, all four
    tree / no-tree combinations); sorted inserts, unlinks and frees use the trees afterwards."""
    out = []
    conts = [e for e in sch.ents if e["parent"] is None and e["kind"] == "c"
             and any(x["kind"] in ("ls", "lls") for x in sch.children(e["sid"]))]
    for _ in range(n):
        e = rng.choice(conts)
        ch = [x for x in sch.children(e["sid"]) if x["kind"] != "key"]
        so = [x for x in ch if x["kind"] in ("ls", "lls")]
        ops = [sibcomp.op_new(1, None, sch.qname(e), b""), sibcomp.op_new(50, None, sch.qname(e), b"")]
        ids = []
        for par, lo, cnt in ((1, 2, rng.randint(3, 8)), (50, 51, rng.randint(0, 5))):
            single = set()
            for i in range(lo, lo + cnt):
                x = rng.choice(so) if rng.random() < 0.7 else rng.choice(ch)
                if x["kind"] in ("lf", "c", "pc"):
                    if x["sid"] in single:
                        continue
                    single.add(x["sid"])
                ops.append(sibcomp.op_new(i, par, sch.qname(x), sibcomp.gen_value(rng, x["kt"], bad=0)))
                ids.append(i)
        pool = ids[:]
        if rng.random() < 0.4:
            # directed: the children of container 1 (from some child on) are copied into container 50, then the originals
            # - a parent-less sibling list with their sorting trees - are moved onto the copies (or the copies onto them)
            a = rng.choice(ids[:3])
            ops.append("dupsib,%d,%s,%d" % (a, rng.choice(["50", "50", "-"]), rng.choice([0, 1])))
            pool += [2000, 2001, 2002, 2003]
            ops.append("unlinksibs,%d" % a)
            if rng.random() < 0.3:
                ops.append("unlink,%d" % rng.choice(ids))
            ops.append(rng.choice(["ins_child,%d,50" % a, "ins_child,%d,50" % a, "ins_sibling,%d,2000" % a, "ins_sibling,2000,%d" % a]))
        for _ in range(rng.randint(4, 10)):
            a, r = rng.choice(pool), rng.random()
            if r < 0.25:
                # only original nodes are copied (a copied key leaf without its list is another story: F142)
                ops.append("dupsib,%d,%s,%d" % (rng.choice(ids), rng.choice(["-", "1", "50"]), rng.choice([0, 1])))
                if 2000 not in pool:
                    pool += [2000, 2001, 2002, 2003]
            elif r < 0.45:
                ops.append("unlinksibs,%d" % a)
            elif r < 0.55:
                ops.append("unlink,%d" % a)
            elif r < 0.85:
                ops.append("ins_child,%d,%d" % (a, rng.choice([1, 50])))
            else:
                b = rng.choice(pool)
                if a != b:
                    ops.append("ins_sibling,%d,%d" % (a, b))
        # use the trees
        for i in range(20, 20 + rng.randint(2, 4)):
            x = rng.choice(so)
            ops.append(sibcomp.op_new(i, rng.choice([1, 50]), sch.qname(x), sibcomp.gen_value(rng, x["kt"], bad=0)))
        for a in rng.sample(pool, min(len(pool), 3)):
            ops.append(("free,%d" if rng.random() < 0.5 else "unlink,%d") % a)
        for i in range(30, 30 + rng.randint(1, 3)):
            x = rng.choice(so)
            ops.append(sibcomp.op_new(i, rng.choice([1, 50]), sch.qname(x), sibcomp.gen_value(rng, x["kt"], bad=0)))
        out.append(ops)
    return out


def replay(cx, payload):
    schs = sibcomp.load_schemas(cx)
    f = payload.get("failure", {}).get("case") or {}
    if "ops" in f:
        differential_scripts(cx, schs, [(f["schema"], f["ops"])], "c", kind="replay")
        law_scripts(cx, schs, [(f["schema"], f["ops"])], kind="replay-law")
    for d in payload.get("first", []):
        cx.notes.append("disagreement to replay by hand: %r" % (d,))
